"""C26 - forwarded DNS messages keep their meaning.

Decided:
  R26.1  `record_data_can_have_compression` is *evaluated* (concrete interpretation of its AST) for every RR type
         number of net/dns/types.py plus unassigned / private-use numbers: it may answer True only for the types whose
         RDATA may carry *compressed* names on the wire - the closed set of RFC 3597 s.4: the RFC 1035 well-known types
         with a <domain-name> plus RP AFSDB RT SIG PX NXT NAPTR SRV (table MAY_BE_COMPRESSED below, with the sources).
         => any other type gets opaque bytes rewritten: TXT, HINFO, A, AAAA, unknown ... (F-C26, repaired), and also the
         later types that embed a name which MUST NOT be compressed (KX, DNAME, RRSIG, NSEC, ...), where the byte scan
         can only hit signature / bitmap octets (judged this strictly while the expansion routine is not given the record
         type, see R26.4; a layout-aware routine may be asked about any name-bearing type).  It must answer True for the RFC 1035 well-known types and SRV
         (MUST_BE_EXPANDED) => otherwise compressed names are forwarded with dangling pointers.
  R26.2  the record parser (`DNSMessage.unpack_from`, *interpreted from its AST*) on one response per RR type number (all of
         net/dns/types.py + probes), the record under test sitting between an MX record and an A record: when the predicate is
         False for *this record's* type the data is the exact wire slice [header end, + length field) although it contains
         octets that look like compression pointers; when it is True (and the rule knows the layout) the names in exactly that
         window are expanded; type/class/ttl come from the header fields in order; the next record is read from the window end.
  R26.3  repack identity: DNSLayer.handle_request / handle_response (private helper methods inlined) send
         `pack_message(<the unpacked message object or flow.request/response it was stored in>)` to the server / client;
         state_query hands them the elements of `unpack_message(event.data, ..)`; interpreted: pack_message = `message.packed`
         for datagrams and, for TCP, preceded by its 2-byte big-endian length, and `DNSLayer.unpack_message` reads the stream
         pack_message wrote back message by message (whole and split across chunks); `DNSMessage.packed` emits bytes the reference
         decoder reads as the same records: data verbatim with its own length (pointer-like octets, 300 octets), sections in wire order.
  R26.4  layout dependence (F-C26b, NOT repaired, known finding): if the predicate is True both for a type whose RDATA starts
         with a name (CNAME/NS/PTR) and for one that starts with / contains integer fields (MX, SRV, SOA ...), the expansion must
         depend on the record's layout - a type-agnostic byte scan cannot tell the pointer `C0 0C` of a CNAME from the SRV port
         49164.  Decided by interpretation: records of every such layout whose numeric / opaque fields contain `C0 0C` are parsed;
         the data must be the reference expansion (names expanded, every other octet kept).  A parameter that merely carries
         the type for diagnostics does not help; a layout-aware routine passes.  The routine is named by observation (the
         domain_names function the message parser calls for predicate-True records only).
  R26.5  finite evaluation of the expansion routine itself, through the message parser: `DNSMessage.unpack_from`,
         `decompress_from_record_data` and everything they call are *interpreted from their ASTs* (pyint; `struct`
         and the idna codec are the trusted base) on small, realistic response messages - one per distinct RDATA layout of
         the types the predicate answers True for (name; name name; name name u32*5; u16 name; u16 name name; u16*3 name;
         NAPTR; SIG; NXT), x numeric field values (zero / typical small values such as MX preference 10, SRV priority 10
         weight 5, SOA timers / values with a different small octet in every position), x name forms (pointer to the question
         name; labels + pointer into an earlier record's RDATA, itself ending in a pointer; uncompressed; punycode label +
         pointer; for SOA also: pointer to an internationalised owner name / to the root name followed by a second compressed
         name - F-C26c, repaired, findings/F-C26c/repro.py), with the name cache the message parser has filled at that point.  The result must be
         the RDATA with every name replaced by its uncompressed wire form and every other octet unchanged (computed here by
         an independent reference walk over the layout).  => otherwise a compressed name is forwarded with a dangling /
         retargeted pointer or numeric fields are damaged: the receiver reads a different record.
         Octets >= 0xC0 outside names are NOT sampled: that is the type-agnostic-scan defect reported by R26.4 (F-C26b).
NOT decided: value-level codec round trip for all messages (C25), idna, what addons do to a message.
"""

from __future__ import annotations

import ast
import struct

from ..core import AnalysisError
from ..model import attr_chain
from ..paths import traces_of
from ..selftest import Mutant
from ._helpers_D import call_args
from ._helpers_D import int_constants
from ._helpers_D import last_attr_name
from ._helpers_D import SendSpec
from ._helpers_D import show
from ._helpers_D import sym
from ._helpers_D import SymSpec
from ._helpers_D import unhook
from ._helpers_dnsref import diff
from ._helpers_dnsref import DnsInterp
from ._helpers_dnsref import layer_self
from ._helpers_dnsref import layer_unpack
from ._helpers_dnsref import mk_message
from ._helpers_dnsref import packed
from ._helpers_dnsref import public
from ._helpers_dnsref import ref_decode
from ._helpers_dnsref import ref_name
from ._helpers_dnsref import RefError
from ._helpers_dnsref import require_fields
from ._helpers_dnsref import roomy
from ._helpers_dnsref import SECTIONS
from ._helpers_dnsref import unpack
from ._helpers_dnsref import unpack_from

PROP = "C26"
REG = {
    "strength": "partial",
    "technique": "AST interpretation (pyint) of the compression predicate over all RR types, of the message parser + RDATA expansion routine on sample "
    "records of every RDATA layout in the table against an independent reference expansion, of pack_message / DNSLayer.unpack_message / DNSMessage.packed against the "
    "RFC 1035 reference; provenance of the bytes sent by DNSLayer (symbolic path analysis, private helpers inlined)",
    "claim": "only RR types whose RDATA may carry compressed names (RFC 3597 s.4) are ever rewritten and the RFC 1035 types + SRV always are; on the sampled "
    "records the expansion routine expands exactly the names (pointer chains, IDN / root targets, numeric fields in front) and changes nothing else; for all other types RDATA is the exact wire slice; the layer repacks the very "
    "message object it unpacked; framing written by pack_message is read back by the layer's reader; packed() emits rr.data verbatim. Reports (known finding F-C26b) that the "
    "RDATA rewriting is type-agnostic although the table mixes name-first and integer-first layouts.",
    "note": "Reference set = RR types whose RDATA may carry compressed names per RFC 3597 section 4 (RFC 1035 well-known types + RP AFSDB RT SIG PX NXT "
    "NAPTR SRV), part of the rule (IANA numbers). struct / idna are trusted library behaviour.",
}

DN = "mitmproxy/net/dns/domain_names.py"
TYPES = "mitmproxy/net/dns/types.py"
DNS = "mitmproxy/dns.py"
LAYER = "mitmproxy/proxy/layers/dns.py"

# Mnemonics of the RR types that carry a domain name somewhere in their RDATA (IANA number -> mnemonic; used for messages
# and for the layout classes of R26.4 only - NOT the reference set of R26.1).
NAME_BEARING = {
    2: "NS", 3: "MD", 4: "MF", 5: "CNAME", 6: "SOA", 7: "MB", 8: "MG", 9: "MR", 12: "PTR", 14: "MINFO", 15: "MX", 17: "RP", 18: "AFSDB",
    21: "RT", 23: "NSAP-PTR", 24: "SIG", 26: "PX", 30: "NXT", 33: "SRV", 35: "NAPTR", 36: "KX", 38: "A6", 39: "DNAME", 45: "IPSECKEY", 46: "RRSIG",
    47: "NSEC", 55: "HIP", 58: "TALINK", 64: "SVCB", 65: "HTTPS", 107: "LP", 249: "TKEY", 250: "TSIG", 260: "AMTRELAY",
}
# Reference table of R26.1.  Source: RFC 3597 section 4 ("Domain Name Compression"), which closes the set for good:
#   * "only the RR types defined in [RFC1035] are to be considered well-known" - senders may compress names in their RDATA,
#     receivers MUST decompress them.  Of the RFC 1035 section 3.3 types those with a <domain-name> in the RDATA are
#     NS MD MF CNAME SOA MB MG MR PTR MINFO MX                                                     -> WELL_KNOWN_1035
#   * receivers "SHOULD also decompress RRs of type RP, AFSDB, RT, SIG, PX, NXT, NAPTR, and SRV" (older specifications
#     allowed / RFC 2052 mandated compression there)                                                -> LEGACY_3597
#   * every other type, existing or future, "MUST NOT allow the use of name compression"; the defining RFCs repeat it for
#     the types that do embed a name: KX (RFC 2230 s.3), DNAME (RFC 2672 s.3 / RFC 6672 s.2.5), RRSIG and NSEC (RFC 4034
#     s.3.1.7, s.4.1.1: "A sender MUST NOT use DNS name compression on the Signer's Name / Next Domain Name field"),
#     A6, IPSECKEY, HIP, SVCB/HTTPS (RFC 9460 s.2.2), TSIG/TKEY ...
# A conforming sender therefore never puts a compression pointer into the RDATA of a type outside MAY_BE_COMPRESSED:
# nothing there needs expanding, and because the expansion routine is a byte scan (F-C26b) answering True for such a
# type can only rewrite opaque octets (signatures, type bitmaps, keys) that happen to look like `C0 xx`.
WELL_KNOWN_1035 = {2: "NS", 3: "MD", 4: "MF", 5: "CNAME", 6: "SOA", 7: "MB", 8: "MG", 9: "MR", 12: "PTR", 14: "MINFO", 15: "MX"}
LEGACY_3597 = {17: "RP", 18: "AFSDB", 21: "RT", 24: "SIG", 26: "PX", 30: "NXT", 35: "NAPTR", 33: "SRV"}
MAY_BE_COMPRESSED = {**WELL_KNOWN_1035, **LEGACY_3597}
# Types the predicate MUST answer True for (else compressed names in their RDATA are forwarded with dangling pointers, because
# re-packing moves every offset): the RFC 1035 well-known types (receivers MUST decompress) plus SRV, which the property names
# explicitly and which deployed (RFC 2052-style, mDNS) senders do compress.
MUST_BE_EXPANDED = {**WELL_KNOWN_1035, 33: "SRV"}
# layouts that begin with a domain name and nothing else before it
NAME_FIRST = {2, 3, 4, 5, 7, 8, 9, 12, 39}
# layouts with integer / opaque fields somewhere in the RDATA (so some offsets must NOT be read as names)
HAS_NON_NAME_FIELDS = {6, 15, 18, 21, 24, 26, 30, 33, 35, 36, 38, 45, 46, 47, 55, 64, 65, 249, 250, 260}
PROBES = {0: "reserved", 16: "TXT", 13: "HINFO", 1: "A", 28: "AAAA", 10: "NULL", 41: "OPT", 48: "DNSKEY", 43: "DS", 99: "SPF", 257: "CAA",
          65280: "private use", 65534: "private use", 4242: "unassigned"}



# ---------------------------------------------------------------------------------------------------

# distinct RDATA layouts of the RFC 3597 s.4 types (RFC 1035 s.3.3, RFC 1183, RFC 2163, RFC 2782, RFC 2915, RFC 2535)
LAYOUTS = {
    "name (NS/CNAME/PTR/MB/MD/MF/MG/MR)": ("name",),
    "name name (MINFO/RP)": ("name", "name"),
    "SOA: mname rname serial refresh retry expire minimum": ("name", "name", "u32", "u32", "u32", "u32", "u32"),
    "u16 name (MX/AFSDB/RT)": ("u16", "name"),
    "PX: preference map822 mapx400": ("u16", "name", "name"),
    "SRV: priority weight port target": ("u16", "u16", "u16", "name"),
    "NAPTR: order preference flags services regexp replacement": ("u16", "u16", "str", "str", "str", "name"),
    "SIG: covered alg labels ttl expiration inception keytag signer signature": ("u16", "u8", "u8", "u32", "u32", "u32", "u16", "name", "opaque"),
    "NXT: next bitmap": ("name", "opaque"),
}
LAYOUT_TYPES = {
    "name (NS/CNAME/PTR/MB/MD/MF/MG/MR)": {2, 3, 4, 5, 7, 8, 9, 12}, "name name (MINFO/RP)": {14, 17},
    "SOA: mname rname serial refresh retry expire minimum": {6}, "u16 name (MX/AFSDB/RT)": {15, 18, 21}, "PX: preference map822 mapx400": {26},
    "SRV: priority weight port target": {33}, "NAPTR: order preference flags services regexp replacement": {35},
    "SIG: covered alg labels ttl expiration inception keytag signer signature": {24}, "NXT: next bitmap": {30},
}
# numeric vectors: every octet < 0xC0 (octets that look like pointers are F-C26b's business), i = index of the field in the layout
VECTORS = {
    "zero": {"u8": lambda i: 0, "u16": lambda i: 0, "u32": lambda i: 0, "str": lambda i: b"", "opaque": lambda i: b"\x00\x00\x00\x00"},
    "typical": {"u8": lambda i: 5, "u16": lambda i: (10, 5, 5222, 20, 1, 100)[i % 6], "u32": lambda i: (3600, 1209600, 300, 2021030405, 7200)[i % 5],
                "str": lambda i: (b"E2U+sip", b"!^.*$!sip:info@example.com!", b"U")[i % 3], "opaque": lambda i: bytes(range(1, 41))},
    "mixed": {"u8": lambda i: 0x11 + i, "u16": lambda i: ((i + 1) << 8) | (2 * i + 3), "u32": lambda i: ((i + 2) << 24) | (0x3F << 16) | ((i + 1) << 8) | (i + 9),
              "str": lambda i: bytes([i + 1, 0x20 + i]), "opaque": lambda i: bytes([7, 0, 3, 0x40, 0x7F, 0xBF, 1, 2, 0x3F, 0x0C])},
}
QNAME_AT = 12
TRAILER = (1, 1, 77, b"\xc0\x0c\x7f\x01")  # an A record behind the record under test (type, class, ttl, opaque RDATA that looks like a pointer)


def _wire(labels):
    return b"".join(bytes([len(x)]) + x for x in labels) + b"\x00"


def _expand(msg, at, fields):
    """reference expansion of an RDATA laid out as ``fields`` [(kind, raw bytes)] starting at message offset ``at``"""
    out = b""
    for kind, v in fields:
        out += _wire(ref_name(msg, at)[0]) if kind == "name" else v
        at += len(v)
    return out


def _message(rtype, fields, rclass=1, ttl=300):
    """A response: question example.com MX; answer 1 = an MX record whose exchange ends in a pointer (owner: an internationalised
    name); answer 2 = the record under test (``rtype``, RDATA = fields [(kind, bytes | name form)]); answer 3 = TRAILER.
    -> (message bytes, rdata offset, rdata end, fields with the name forms resolved, raw RDATA of answer 1, its offset)"""
    q = _wire([b"example", b"com"])
    msg = bytearray(b"\x12\x34\x81\x80\x00\x01\x00\x03\x00\x00\x00\x00") + q + b"\x00\x0f\x00\x01"
    com_at = QNAME_AT + 8
    owner1 = len(msg)
    first = b"\x00\x05" + b"\x04alt1" + b"\x0dgmail-smtp-in" + b"\x01l" + b"\x06google" + bytes([0xC0, com_at])
    msg += b"\x0dxn--bcher-kva" + bytes([0xC0, QNAME_AT]) + struct.pack("!HHIH", 15, 1, 300, len(first))
    rdata1 = len(msg)
    msg += first
    suffix_at = rdata1 + 2 + 5  # gmail-smtp-in.l.google.com
    name_forms = {
        "ptr-question": bytes([0xC0, QNAME_AT]),
        "labels+ptr-into-rdata": b"\x04alt2" + bytes([0xC0, suffix_at]),
        "uncompressed": _wire([b"ns", b"example", b"org"]),
        "punycode+ptr": b"\x0dxn--bcher-kva" + bytes([0xC0, QNAME_AT]),
        "labels+ptr-question": b"\x04mail" + bytes([0xC0, QNAME_AT]),
        "ptr-idn-name": bytes([0xC0, owner1]),
        "ptr-root": bytes([0xC0, QNAME_AT + len(q) - 1]),
    }
    if suffix_at >= 0xC0 or owner1 >= 0xC0:
        raise AnalysisError("sample message grew so far that a pointer's second octet looks like a pointer itself")
    resolved = [(k, name_forms[v] if k == "name" else v) for k, v in fields]
    rdata = b"".join(v for _, v in resolved)
    msg += bytes([0xC0, QNAME_AT]) + struct.pack("!HHIH", rtype, rclass, ttl, len(rdata))
    off = len(msg)
    msg += rdata
    t, c, tl, d = TRAILER
    msg += bytes([0xC0, QNAME_AT]) + struct.pack("!HHIH", t, c, tl, len(d)) + d
    return bytes(msg), off, off + len(rdata), resolved, first, rdata1


def _layout_fields(layout, vector, forms):
    fields, k = [], 0
    for i, kind in enumerate(layout):
        if kind == "name":
            fields.append(("name", forms[k % len(forms)]))
            k += 1
        elif kind == "str":
            v = vector["str"](i)
            fields.append(("raw", bytes([len(v)]) + v))
        elif kind == "opaque":
            fields.append(("raw", vector["opaque"](i)))
        else:
            fields.append(("raw", struct.pack({"u8": "!B", "u16": "!H", "u32": "!I"}[kind], vector[kind](i))))
    return fields


class Parser:
    """DNSMessage.unpack_from, interpreted on the sample messages of ``_message``; remembers which functions of domain_names the
    message parser (code of mitmproxy/dns.py) calls directly."""

    def __init__(self, ctx, true_types):
        self.ctx = ctx
        self.true_types = true_types
        self.it = DnsInterp(ctx.model, max_steps=3_000_000)
        self.runs = 0

    def parse(self, rtype, fields, rclass=1, ttl=300):
        """-> dict(outcome, data, expected, raw, msg, window, others_ok, header)"""
        msg, lo, hi, resolved, first, first_at = _message(rtype, fields, rclass, ttl)
        it = self.it
        it.reset_counters()
        o = unpack_from(it, msg)
        self.runs += 1
        self.ctx.cells += 1
        raw = msg[lo:hi]
        res = {"msg": msg, "window": (lo, hi), "raw": raw, "expected": _expand(msg, lo, resolved), "outcome": o, "data": None, "header": None, "others": "", "first": ""}
        if o[0] != "ok":
            return res
        n, m = o[1]
        ans = m["answers"]
        if n != len(msg) or len(ans) != 3 or m["questions"] != [("example.com", 15, 1)]:
            res["others"] = f"the message is read as {len(ans)} answers / length {n} (3 answers, {len(msg)} octets were sent)"
            if len(ans) >= 2:
                res["data"], res["header"] = ans[1][4], ans[1][1:4]
            return res
        res["data"], res["header"] = ans[1][4], ans[1][1:4]
        want_first = _expand(msg, first_at, [("raw", first[:2]), ("name", first[2:])]) if 15 in self.true_types else first
        if ans[0][4] != want_first:
            res["first"] = f"the MX record in front ({first.hex(' ')}) is read with RDATA {bytes(ans[0][4]).hex(' ')}"
        t, c, tl, d = TRAILER
        want_trailer = ("example.com", t, c, tl, d)
        if 1 not in self.true_types and ans[2] != want_trailer:
            res["others"] = f"the record behind is read as {ans[2]!r} instead of {want_trailer!r}: parsing does not continue at the end of the record's data"
        return res


def predicate_table(ctx, it):
    """-> (numbers {num: mnemonic}, set of numbers the predicate answers True for): the predicate interpreted for every RR type"""
    m = ctx.model
    fn = ctx.func(DN, "record_data_can_have_compression")
    types = int_constants(m, TYPES)
    ctx.require(len(types) >= 80, f"{TYPES}: only {len(types)} integer constants found")
    numbers = {num: name for name, num in types.items()}
    for num, name in PROBES.items():
        numbers.setdefault(num, name)
    true_types = set()
    for num in sorted(numbers):
        o = it.run(DN, fn.name, num)
        ctx.cells += 1
        if o[0] != "ok":
            raise AnalysisError(f"record_data_can_have_compression({num}) {o[0]}s {o[1]}")
        if not isinstance(o[1], bool):
            raise AnalysisError(f"record_data_can_have_compression({num}) evaluates to non-bool {o[1]!r}")
        if o[1]:
            true_types.add(num)
    return numbers, true_types


def check_r261(ctx, numbers, true_types, type_aware=False):
    fn = ctx.func(DN, "record_data_can_have_compression")
    for num in sorted(true_types):
        if num in NAME_BEARING:
            why = (f"RDATA of {numbers[num]} embeds a domain name, but RFC 3597 s.4 (and the RFC defining {numbers[num]}) forbids compressing it, so no sender puts a pointer "
                   "there; the type-agnostic byte scan can only hit the opaque octets around the name (signature, type bitmap, key, preference) that look like "
                   "`C0 xx` and replace them by an expanded name: the record is not forwarded byte-for-byte")
        else:
            why = (f"RDATA of {numbers[num]} is opaque (no domain name defined in it): bytes that look like a compression pointer (0xC0..) are rewritten when the "
                   "message is forwarded")
        # a rewriting routine that respects the record's layout confines itself to the name field(s): there a (forbidden, hence
        # absent) pointer is never found and the opaque octets are not looked at - harmless
        allowed = MAY_BE_COMPRESSED if not type_aware else NAME_BEARING
        ctx.check(
            num in allowed, "R26.1", (DN, "record_data_can_have_compression", fn),
            f"record type {numbers[num]} ({num}) is treated as containing compressible names", why,
            desc=f"{numbers[num]}({num}) -> True, RDATA may carry compressed names (RFC 3597 s.4)",
        )
    ctx.require(true_types, "record_data_can_have_compression is False for every type: name-bearing records would keep dangling pointers")
    for num, name in sorted(MUST_BE_EXPANDED.items()):
        ctx.require(num in numbers, f"{TYPES}: RR type {name} ({num}) is not defined any more")
        ctx.check(
            num in true_types, "R26.1", (DN, "record_data_can_have_compression", fn),
            f"record type {name} ({num}) is not treated as containing compressible names",
            f"senders do compress the names in {name} RDATA (RFC 1035 s.4.1.4 / RFC 3597 s.4: receivers MUST decompress them); kept as a raw slice the pointer is forwarded "
            "unexpanded while re-packing moves every offset, so the receiver reads a different name",
            desc=f"{name}({num}) -> True as required",
        )
    ctx.note(f"R26.1 interpreted the predicate for {len(numbers)} type numbers; True for {sorted(true_types)}")


def _layout_of(num):
    for lname, ts in LAYOUT_TYPES.items():
        if num in ts:
            return lname
    return None


def check_r262(ctx, parser, numbers, true_types):
    """the record parser, interpreted on one message per RR type: raw wire slice <=> predicate False; names expanded on exactly the
    record's window <=> predicate True; header fields; the next record starts at the end of the data"""
    ctx.func(DNS, "DNSMessage.unpack_from")
    where = (DNS, "DNSMessage.unpack_from.unpack_rrs", ctx.model.module(DNS).get("DNSMessage.unpack_from.unpack_rrs") or ctx.func(DNS, "DNSMessage.unpack_from"))
    bad = {k: None for k in ("fields", "slice-window", "rewrite-window", "next", "raw", "rewrite")}
    seen = {"slice": 0, "rewrite": 0}
    opaque = [("raw", b"\x05hello"), ("raw", b"\xc0\x0c"), ("raw", b"\x00\x01\xff\xc0"), ("raw", bytes([0xC0, QNAME_AT + 8]))]
    for num in sorted(numbers):
        is_true = num in true_types
        if is_true:
            lname = _layout_of(num)
            if lname is None:
                continue  # a type the rule has no layout for: R26.1 judges whether it may be in the table at all
            fields = _layout_fields(LAYOUTS[lname], VECTORS["typical"], ("ptr-question", "labels+ptr-into-rdata"))
        else:
            fields = opaque
        rclass, ttl = (3, 0x00010203) if num % 2 else (1, 86400)
        r = parser.parse(num, fields, rclass, ttl)
        tag = f"{numbers[num]}({num})"
        shown = f"RDATA {r['raw'].hex(' ')} of a {tag} record at message offset {r['window'][0]}"
        if r["outcome"][0] != "ok":
            k = "rewrite-window" if is_true else "slice-window"
            bad[k] = bad[k] or f"the parser {r['outcome'][0]}s {r['outcome'][1]} on a well-formed response with {shown}"
            continue
        data = r["data"]
        if r["header"] is not None and tuple(r["header"]) != (num, rclass, ttl):
            bad["fields"] = bad["fields"] or f"a {tag} record with class {rclass}, ttl {ttl} is built with (type, class_, ttl) = {tuple(r['header'])}: header fields are permuted"
        if is_true:
            seen["rewrite"] += 1
            if data is None or bytes(data) != r["expected"]:
                if data is not None and bytes(data) == r["raw"]:
                    bad["rewrite"] = bad["rewrite"] or (f"{shown}: the compression predicate is True for {tag} but the data is kept as the raw slice: the names keep compression "
                                                        "pointers that dangle once the message is re-packed (predicate not asked about this record's type / never expanded)")
                else:
                    got = bytes(data).hex(" ") if data is not None else None
                    bad["rewrite-window"] = bad["rewrite-window"] or (f"{shown} is read as {got}; the record's data occupies exactly [header end, + length field) and expands to "
                                                                      f"{r['expected'].hex(' ')}")
        else:
            seen["slice"] += 1
            if data is None or bytes(data) != r["raw"]:
                if data is not None and bytes(data) in r["msg"]:
                    bad["slice-window"] = bad["slice-window"] or (f"{shown} is read as {bytes(data).hex(' ')}: not the slice [header end, + length field) of the message")
                else:
                    got = bytes(data).hex(" ") if data is not None else None
                    bad["raw"] = bad["raw"] or (f"{shown} is read as {got} although the compression predicate is False for {tag}: opaque record data is rewritten")
        if r["others"] and (data is None or bytes(data) == (r["expected"] if is_true else r["raw"])):
            bad["next"] = bad["next"] or f"{shown}: {r['others']}"
        elif r["others"]:
            k = "rewrite-window" if is_true else "slice-window"
            bad[k] = bad[k] or f"{shown}: {r['others']}"
    ctx.require((seen["slice"] >= 1 and seen["rewrite"] >= 1) or any(bad.values()) or ctx.findings, f"record parser: expected raw-slice and rewriting record types, saw {seen}")
    n = seen["slice"] + seen["rewrite"]
    ctx.check(bad["fields"] is None, "R26.2", where, "ResourceRecord(type, class_, ttl) <- header fields 0,1,2", bad["fields"] or "", desc=f"type/class/ttl from header fields 0,1,2 ({n} records)")
    ctx.check(bad["slice-window"] is None, "R26.2", where, "RDATA window (slice)", bad["slice-window"] or "", desc="slice: window = header end .. + len_data")
    ctx.check(bad["rewrite-window"] is None, "R26.2", where, "RDATA window (rewrite)", bad["rewrite-window"] or "", desc="rewrite: window = header end .. + len_data")
    ctx.check(bad["next"] is None, "R26.2", where, "offset after the record", bad["next"] or "", desc="next record at window end (slice and rewrite)")
    ctx.check(bad["raw"] is None, "R26.2", where, "raw RDATA slice only when the predicate is False for the record's type", bad["raw"] or "",
              desc=f"raw slice <=> predicate(type) False ({seen['slice']} types, RDATA with pointer-like octets kept verbatim)")
    ctx.check(bad["rewrite"] is None, "R26.2", where, "RDATA rewritten only when the predicate is True for the record's type", bad["rewrite"] or "",
              desc=f"rewrite <=> predicate(type) True ({seen['rewrite']} types)")


def expansion_routine(ctx, parser, true_types):
    """names of the domain_names functions that code of mitmproxy/dns.py calls when it parses a response whose only record has a
    predicate-True type, but not when that record has a predicate-False type (observed while interpreting the parser)"""
    cached = getattr(parser, "_routines", None)
    if cached is not None:
        return cached
    q = _wire([b"example", b"com"])

    def calls(rtype, rdata):
        msg = b"\x12\x34\x81\x80\x00\x01\x00\x01\x00\x00\x00\x00" + q + struct.pack("!HH", rtype, 1) + bytes([0xC0, QNAME_AT]) + struct.pack("!HHIH", rtype, 1, 60, len(rdata)) + rdata
        parser.it.reset_counters()
        unpack_from(parser.it, msg)
        return {callee[1] for caller, callee in parser.it.edges if caller and caller[0] == DNS and callee[0] == DN}

    t = set()
    for num in sorted(true_types & {n for ts in LAYOUT_TYPES.values() for n in ts})[:3]:
        fields = [(k, bytes([0xC0, QNAME_AT]) if k == "name" else v) for k, v in _layout_fields(LAYOUTS[_layout_of(num)], VECTORS["typical"], ("ptr-question",))]
        t |= calls(num, b"".join(v for _, v in fields))
    f = set()
    for num in [n for n in (16, 1, 99, 65280) if n not in true_types][:2]:
        f |= calls(num, b"\x05hello" + bytes([0xC0, QNAME_AT]))
    parser._routines = sorted(t - f) if f else []
    return parser._routines


POINTERLIKE = {"u8": lambda i: 0xC0, "u16": lambda i: 0xC000 | QNAME_AT, "u32": lambda i: ((0xC000 | QNAME_AT) << 16) | 0xC000 | QNAME_AT,
               "str": lambda i: bytes([0xC0, QNAME_AT]), "opaque": lambda i: bytes([1, 0xC0, QNAME_AT, 2])}


def check_r264(ctx, parser, true_types):
    """-> True when the expansion respects the per-type layouts (F-C26b repaired)"""
    where = (DNS, "DNSMessage.unpack_from.unpack_rrs", ctx.model.module(DNS).get("DNSMessage.unpack_from.unpack_rrs") or ctx.func(DNS, "DNSMessage.unpack_from"))
    name_first = sorted(true_types & NAME_FIRST)
    mixed = sorted(true_types & HAS_NON_NAME_FIELDS)
    if not (name_first and mixed):
        ctx.ok("R26.4", "table has no two types with conflicting layouts; a type-agnostic routine is admissible")
        return False
    if any(f.rule == "R26.2" for f in ctx.findings):
        ctx.instance("R26.4", "not evaluated: R26.2 reports that the record parser does not expand / window RDATA correctly")
        return False
    witness = None
    n = 0
    for lname, layout in LAYOUTS.items():
        ts = sorted(LAYOUT_TYPES[lname] & true_types)
        if not ts or not any(k != "name" for k in layout):
            continue
        for num in ts[:2]:
            r = parser.parse(num, _layout_fields(layout, POINTERLIKE, ("labels+ptr-question", "ptr-question")))
            n += 1
            if r["outcome"][0] != "ok" or r["data"] is None or bytes(r["data"]) != r["expected"]:
                got = bytes(r["data"]).hex(" ") if r["outcome"][0] == "ok" and r["data"] is not None else f"{r['outcome'][0]} {r['outcome'][1]}"
                witness = witness or f"{NAME_BEARING.get(num, num)} RDATA {r['raw'].hex(' ')} is forwarded as {got} instead of {r['expected'].hex(' ')}"
    routines = expansion_routine(ctx, parser, true_types)
    if witness is None:
        ctx.ok("R26.4", f"RDATA expansion respects the record layouts: numeric / opaque octets that look like compression pointers are left alone ({n} samples)")
        return True
    if len(routines) != 1:
        raise AnalysisError(f"R26.4: cannot name the RDATA expansion routine (functions of domain_names called only for name-bearing records: {routines})")
    callee = routines[0]
    ctx.fail(
        "R26.4", where, f"{callee} is applied to RDATA without the record type",
        f"the table is True for name-first layouts {[NAME_BEARING[t] for t in name_first]} and for layouts with integer/opaque fields "
        f"{[NAME_BEARING[t] for t in mixed]}, but {callee} expands RDATA without regard to the type's layout: bytes >= 0xC0 in MX preference, "
        f"SRV port (49152..65535), SOA counters are read as compression pointers and replaced - interpreted: {witness} (repro: findings/F-C26b/repro.py)",
    )
    return False


# ---------------------------------------------------------------------------------------------------
# R26.5  the expansion routine evaluated (through the message parser) on representative messages


def check_r265(ctx, parser, true_types):
    where_fn = None
    routines = expansion_routine(ctx, parser, true_types)
    callee = routines[0] if len(routines) == 1 else "decompress_from_record_data"
    if ctx.model.has(DN, callee):
        where_fn = ctx.func(DN, callee)
    where = (DN, callee, where_fn or 0)
    thorough = ctx.tier == "thorough"
    form_sets = [("ptr-question", "labels+ptr-into-rdata"), ("labels+ptr-into-rdata", "ptr-question"), ("uncompressed", "labels+ptr-question"), ("punycode+ptr", "labels+ptr-into-rdata")]
    # a pointer to an internationalised name followed by a second pointer: sampled in the SOA layout (zone = IDN), names 1 and 2
    idn_forms = ("ptr-idn-name", "labels+ptr-question")
    root_forms = ("ptr-root", "labels+ptr-question")
    n = 0
    for lname, layout in LAYOUTS.items():
        ts = sorted(LAYOUT_TYPES[lname] & true_types)
        if not ts:
            continue
        reported = set()
        numeric = any(k != "name" for k in layout)
        for vname, vector in VECTORS.items():
            if not thorough and (vname == "zero" or (vname == "mixed" and not numeric)):
                continue
            for forms in form_sets + ([idn_forms, root_forms] if lname.startswith("SOA") and vname == "typical" else []):
                fields = _layout_fields(layout, vector, forms)
                if any(b >= 0xC0 for kind, v in fields if kind == "raw" for b in v):
                    raise AnalysisError("R26.5: a sampled non-name field contains an octet >= 0xC0 (that class belongs to R26.4 / F-C26b)")
                for num in (ts if thorough else ts[:1]):
                    r = parser.parse(num, fields)
                    n += 1
                    o = r["outcome"]
                    ok = o[0] == "ok" and r["data"] is not None and bytes(r["data"]) == r["expected"] and not r["others"] and not r["first"]
                    group = "idn" if forms is idn_forms else "root" if forms is root_forms else "plain"
                    if ok or group in reported:
                        continue
                    reported.add(group)
                    nforms = [f for f, k in zip(forms * 2, [k for k in layout if k == "name"])]
                    shown = (bytes(r["data"]).hex(" ") if r["data"] is not None else r["others"]) if o[0] == "ok" else f"{o[0]}s {o[1]}"
                    lo, hi = r["window"]
                    ctx.fail("R26.5", where, f"{callee} on {lname.split(':')[0].split(' (')[0]} RDATA, {vname} numeric fields, names {'/'.join(nforms)}",
                             f"RDATA {r['raw'].hex(' ')} (message offset {lo}, parsed as {NAME_BEARING.get(num, num)}) is rewritten to {shown}{'; ' + (r['others'] or r['first']) if o[0] == 'ok' and r['data'] is not None and (r['others'] or r['first']) else ''}; "
                             f"every name expanded and everything else unchanged is {r['expected'].hex(' ')}: the record is forwarded with a different meaning",
                             message=r["msg"].hex(), window=[lo, hi], got=shown, expected=r["expected"].hex())
        if not reported:
            ctx.instance("R26.5", f"{lname}: all samples expand exactly the names")
    ctx.note(f"R26.5 interpreted the record parser + {callee} on {n} sample records")
    if not any(f.rule == "R26.1" for f in ctx.findings):  # a table that lost its types is R26.1's verdict
        ctx.require(n >= 20, f"R26.5 evaluated only {n} samples")


# ---------------------------------------------------------------------------------------------------

HANDLERS = ("handle_request", "handle_response", "handle_error")


class LayerSpec(SendSpec):
    """SendSpec + inlining of DNSLayer's private helper methods (`self._name(..)`); the public handlers and unpack_message are the rule's alphabet"""

    max_depth = 5

    def __init__(self, model, **kw):
        SendSpec.__init__(self, **kw)
        self._model = model

    def inline(self, call, st, depth):
        name = attr_chain(call.func)
        if name and name.startswith("self._") and not name.startswith("self.__") and name.count(".") == 1 and name[5:] not in HANDLERS and self._model.has(LAYER, "DNSLayer"):
            r = self._model.method(LAYER, "DNSLayer", name[5:])
            if r is not None and r[0].rel == LAYER and isinstance(r[1], ast.FunctionDef):
                return r[1]
        return None


SAMPLE_MESSAGES = [
    {"id": 0x0102, "query": True, "op_code": 0, "authoritative_answer": False, "truncation": False, "recursion_desired": True, "recursion_available": False,
     "reserved": 0, "response_code": 0, "questions": [("example.com", 16, 1)], "answers": [], "authorities": [], "additionals": []},
    {"id": 0xBEEF, "query": False, "op_code": 0, "authoritative_answer": True, "truncation": False, "recursion_desired": True, "recursion_available": True,
     "reserved": 0, "response_code": 0, "questions": [("example.com", 16, 1)],
     "answers": [("example.com", 16, 1, 300, b"\x05hello\xc0\x0c\xff"), ("example.com", 16, 1, 300, bytes((7 * i + 3) % 256 for i in range(300)))],
     "authorities": [("example.com", 99, 1, 60, b"\xc0\xc0")],
     "additionals": [("ns.example.com", 1, 1, 5, b"\x0a\x00\x00\x01"), ("ns.example.com", 28, 1, 6, bytes(range(16)))]},
]


def check_r263(ctx):
    m = ctx.model
    # (a)/(b) handlers
    for qual, attr, conn, hook in (
        ("DNSLayer.handle_request", "request", "self.context.server", "DnsRequestHook"),
        ("DNSLayer.handle_response", "response", "self.context.client", "DnsResponseHook"),
    ):
        fn = ctx.func(LAYER, qual)
        params = [a.arg for a in fn.args.args]
        ctx.require(len(params) >= 3 and params[0] == "self", f"{qual} signature changed: {params}")
        p_msg = params[2]
        traces, eng = traces_of(fn, LayerSpec(m))
        ctx.paths += len(traces)
        n = 0
        for trace, how, st in traces:
            for i, e in enumerate(trace):
                if e[0] != "send":
                    continue
                n += 1
                if e[1] != sym(conn):
                    continue  # sends to the other side (none today) are not this clause
                pay = e[2]
                args = call_args(pay)
                if args is None or last_attr_name(pay) != "pack_message" or len(args) < 1:
                    raise AnalysisError(f"{qual}: payload sent to {conn} is not pack_message(<message>, ..): {show(pay)}")
                x = args[0]
                hooked_before = any(t == ("hook", hook) for t in trace[:i])
                ok = unhook(x) == sym(p_msg) and (x == sym(p_msg) or hooked_before)
                ctx.check(ok and hooked_before, "R26.3", (LAYER, qual, fn), f"SendData({conn}, pack_message(flow.{attr}, ..))",
                          f"{qual} sends pack_message({show(x)}) to {conn}: not the message that was unpacked and stored in flow.{attr} (after {hook})",
                          desc=f"{qual}: packs the unpacked message after {hook}")
        ctx.require(n >= 1, f"{qual}: no SendData found")
    # (c) state_query hands over the unpacked elements
    sq = ctx.func(LAYER, "DNSLayer.state_query")
    spec = LayerSpec(m, loop_vars=SymSpec.loop_vars_of(sq))
    traces, eng = traces_of(sq, spec)
    ctx.paths += len(traces)
    subs = {}
    for trace, how, st in traces:
        for e in trace:
            if e[0] == "sub" and e[1] in ("self.handle_request", "self.handle_response"):
                subs.setdefault(e[1], set()).add(e[2])
    for name in ("self.handle_request", "self.handle_response"):
        ctx.require(subs.get(name), f"state_query no longer delegates to {name}")
        for args in subs[name]:
            ok = False
            if len(args) == 2 and isinstance(args[1], tuple) and args[1][0] == "elem":
                src = args[1][1]
                a = call_args(src)
                ok = a is not None and src[1] == "self.unpack_message" and len(a) >= 1 and a[0] == sym("event.data")
            ctx.check(ok, "R26.3", (LAYER, "DNSLayer.state_query", sq), f"{name}(flow, <element of unpack_message(event.data, ..)>)",
                      f"state_query passes {show(args[1]) if len(args) > 1 else args} to {name}: not a message unpacked from the received bytes",
                      desc=f"{name} receives each element of unpack_message(event.data)")
    # (e) packed(): rr.data verbatim with its own length, sections in wire order (encoder interpreted, read by the reference decoder)
    pk = ctx.func(DNS, "DNSMessage.packed")
    it = DnsInterp(m, max_steps=3_000_000)
    bad_data = bad_order = None
    for msg in SAMPLE_MESSAGES:
        p = packed(it, msg)
        ctx.cells += 1
        if p[0] != "ok":
            raise AnalysisError(f"DNSMessage.packed {p[0]}s {p[1]} on a sample message")
        p = p[1]
        try:
            back = ref_decode(p)
        except RefError as e:
            bad_data = bad_data or f"DNSMessage.packed emits bytes an RFC 1035 decoder rejects ({e})"
            continue
        recs = [r for s in SECTIONS for r in msg[s]]
        got = [r for s in SECTIONS for r in back[s]]
        if [len(back[s]) for s in SECTIONS] == [len(msg[s]) for s in SECTIONS] and sorted(map(repr, got)) == sorted(map(repr, recs)) and got != recs:
            bad_order = bad_order or f"records are emitted in an order that puts them into other sections than they came from: {[(r[0], r[1]) for r in got]} for {[(r[0], r[1]) for r in recs]}"
        elif public(back) != msg:
            bad_data = bad_data or f"a message packs to bytes that an RFC 1035 decoder reads differently: {diff(back, msg)}: RDATA must follow its header verbatim with its own length"
    ctx.check(bad_order is None, "R26.3", (DNS, "DNSMessage.packed", pk), "record sections in wire order", bad_order or "", desc="sections emitted in wire order")
    ctx.check(bad_data is None, "R26.3", (DNS, "DNSMessage.packed", pk), "header(type, class_, ttl, len(rr.data)) followed by rr.data", bad_data or "",
              desc="packed(): rr.data verbatim after its header (pointer-like octets, 300-octet data)")
    # (d) framing: pack_message and the reader (DNSLayer.unpack_message), both interpreted, against RFC 1035 s.4.2
    pm = ctx.func(LAYER, "pack_message")
    um = ctx.func(LAYER, "DNSLayer.unpack_message")
    ctx.require(len(pm.args.posonlyargs + pm.args.args) >= 2, "pack_message is no longer called as (message, transport protocol)")
    wires, expect = [], []
    bad_udp = bad_tcp = bad_reader = None
    for msg in SAMPLE_MESSAGES:
        p = packed(it, msg)
        if p[0] != "ok":
            raise AnalysisError(f"DNSMessage.packed {p[0]}s {p[1]} on a sample message")
        p = p[1]
        for proto in ("udp", "tcp"):
            o = it.run(LAYER, pm.name, mk_message(msg), proto)
            ctx.cells += 1
            want = p if proto == "udp" else struct.pack("!H", len(p)) + p
            if o != ("ok", want):
                got = o[1][:8].hex(" ") + "..." if o[0] == "ok" and isinstance(o[1], (bytes, bytearray)) else repr(o[1])
                if proto == "udp":
                    bad_udp = bad_udp or f"pack_message(.., 'udp') gives {got} for a message that packs to {p[:8].hex(' ')}... ({len(p)} octets): a datagram carries exactly the packed message"
                else:
                    bad_tcp = bad_tcp or (f"pack_message(.., 'tcp') gives {got} for a message of {len(p)} octets: over TCP the message is preceded by its length as a 2-byte "
                                          f"big-endian integer ({want[:2].hex(' ')} here, RFC 1035 s.4.2.2) and followed by nothing")
            elif proto == "tcp":
                wires.append((o[1], msg))
    ctx.check(bad_udp is None, "R26.3", (LAYER, "pack_message", pm), "datagram payload == message.packed", bad_udp or "", desc="udp: message.packed")
    ctx.check(bad_tcp is None, "R26.3", (LAYER, "pack_message", pm), "tcp payload == struct.pack('!H', len(packed)) + packed", bad_tcp or "",
              desc="tcp: 2-byte big-endian len(packed) + packed")
    if wires:
        # the reader is fed what the writer produced: whole, and split inside the prefix / inside the message
        stream = b"".join(w for w, _ in wires)
        expect = []
        for _, msg in wires:
            u = unpack(it, packed(it, msg)[1])
            if u[0] != "ok":
                if bad_data or bad_order:
                    expect = None  # the encoder is already reported: nothing to compare the reader with
                    break
                raise AnalysisError(f"DNSMessage.unpack {u[0]}s {u[1]} on the packed form of a sample message")
            expect.append(u[1])
        for cuts in ((), (1,), (len(wires[0][0]) + 1, len(stream) - 3)) if expect is not None else ():
            me = layer_self("tcp")
            got, prev = [], 0
            for cut in list(cuts) + [len(stream)]:
                o = layer_unpack(it, me, stream[prev:cut])
                prev = cut
                ctx.cells += 1
                if o[0] != "ok":
                    bad_reader = bad_reader or f"DNSLayer.unpack_message {o[0]}s {o[1]!r} on the bytes pack_message(.., 'tcp') produced (chunk boundaries {cuts})"
                    break
                got += o[1]
            else:
                if got != expect:
                    bad_reader = bad_reader or (f"DNSLayer.unpack_message reads {len(got)} message(s) {[g.get('id') for g in got]} from the stream pack_message(.., 'tcp') wrote for "
                                                f"{[e.get('id') for e in expect]} (chunk boundaries {cuts}): writer and reader disagree about the length prefix")
        if expect is not None:
            o = layer_unpack(it, layer_self("udp"), wires[0][0][2:])
            if o[0] != "ok" or o[1] != expect[:1]:
                bad_reader = bad_reader or f"DNSLayer.unpack_message does not read back the datagram pack_message(.., 'udp') wrote: {o!r}"
    if wires and expect is not None:
        ctx.check(bad_reader is None, "R26.3", (LAYER, "DNSLayer.unpack_message", um), "reader and writer agree on the TCP length prefix", bad_reader or "",
                  desc="reader: the framed stream written by pack_message is read back message by message (whole and split)")
    else:
        ctx.instance("R26.3", "reader not evaluated: the writer's framing is already reported")


def check(ctx):
    roomy(lambda: _check(ctx))


def _check(ctx):
    ctx.rule("R26.1", "compression predicate True only for RR types whose RDATA is defined to contain domain names (finite evaluation)")
    ctx.rule("R26.2", "record parser: raw wire slice <=> predicate(type) False; names expanded on exactly that window <=> True; offsets consistent")
    ctx.rule("R26.3", "DNSLayer repacks the unpacked message object; framing formats agree; packed() emits rr.data verbatim")
    ctx.rule("R26.5", "the RDATA expansion routine, interpreted on representative records of every layout in the table, expands exactly the names and leaves every other octet alone")
    ctx.rule("R26.4", "RDATA name expansion must depend on the record type when the table mixes name-first and integer-first layouts")
    ctx.trust("struct pack/unpack, bytes.decode('idna')")
    require_fields(ctx.model)
    it = DnsInterp(ctx.model)
    numbers, true_types = predicate_table(ctx, it)
    parser = Parser(ctx, true_types)
    ctx.guard(check_r262, ctx, parser, numbers, true_types)
    type_aware = bool(ctx.guard(check_r264, ctx, parser, true_types))
    check_r261(ctx, numbers, true_types, type_aware)
    ctx.guard(check_r263, ctx)
    ctx.guard(check_r265, ctx, parser, true_types)
    for rule, n in (("R26.1", 19 + 12), ("R26.2", 6), ("R26.3", 9), ("R26.4", 1), ("R26.5", 9)):
        if not any(f.rule == rule for f in ctx.findings):  # a violated rule has its verdict; counts guard against vacuous passes
            ctx.expect_instances(rule, n)


MUTANTS = [
    # R26.1 (first two = reverse of the F-C26 repair)
    Mutant("txt-compressible-again", DN, "        types.SOA,\n", "        types.SOA,\n        types.TXT,\n", "R26.1"),
    Mutant("hinfo-compressible-again", DN, "        types.CNAME,\n", "        types.CNAME,\n        types.HINFO,\n", "R26.1"),
    Mutant("unknown-types-compressible", DN, "        return True\n    return False\n", "        return True\n    return record_type >= 256\n", "R26.1"),
    # seed C26a and its class: later types that embed a name which MUST NOT be compressed (RFC 3597 s.4) / table rows lost
    Mutant("rrsig-nsec-scanned-for-pointers", DN, "        types.SRV,\n    ):", "        types.SRV,\n        types.RRSIG,\n        types.NSEC,\n    ):", "R26.1"),
    Mutant("dname-kx-scanned-for-pointers", DN, "        types.SRV,\n    ):", "        types.SRV,\n        types.KX,\n        types.DNAME,\n    ):", "R26.1"),
    Mutant("https-svcb-scanned-for-pointers", DN, "        return True\n    return False\n", "        return True\n    return record_type in (types.HTTPS, types.SVCB)\n", "R26.1"),
    Mutant("mx-no-longer-expanded", DN, "        types.MX,\n", "", "R26.1"),
    Mutant("srv-no-longer-expanded", DN, "        types.SRV,\n", "", "R26.1"),
    Mutant("table-negated", DN, "    if record_type in (\n        types.CNAME,", "    if record_type not in (\n        types.CNAME,", "R26.1"),
    # R26.2
    Mutant("rdata-always-rewritten", DNS, "                    if domain_names.record_data_can_have_compression(type):\n", "                    if True:\n", "R26.2"),
    Mutant("predicate-inverted", DNS, "                    if domain_names.record_data_can_have_compression(type):\n", "                    if not domain_names.record_data_can_have_compression(type):\n", "R26.2"),
    Mutant("predicate-asks-class", DNS, "domain_names.record_data_can_have_compression(type)", "domain_names.record_data_can_have_compression(class_)", "R26.2"),
    Mutant("rdata-slice-one-short", DNS, "                    data = buffer[offset:end_data]\n", "                    data = buffer[offset : end_data - 1]\n", "R26.2"),
    Mutant("rdata-window-includes-header", DNS, "                    offset += ResourceRecord.HEADER.size\n                    end_data = offset + len_data\n",
           "                    end_data = offset + len_data\n", "R26.2"),
    Mutant("never-decompress", DNS, "                        data = domain_names.decompress_from_record_data(\n                            buffer, offset, end_data, cached_names\n                        )\n",
           "                        pass\n", "R26.2"),
    # R26.3
    Mutant("response-echoes-query", LAYER, "packed = pack_message(flow.response, flow.client_conn.transport_protocol)", "packed = pack_message(flow.request, flow.client_conn.transport_protocol)", "R26.3"),
    Mutant("request-sent-before-hook", LAYER, "        flow.request = msg  # if already set, continue and query upstream again\n        yield DnsRequestHook(flow)\n",
           "        flow.request = msg  # if already set, continue and query upstream again\n", "R26.3"),
    Mutant("query-loop-first-only", LAYER, "                        yield from self.handle_response(flow, msg)\n", "                        yield from self.handle_response(flow, msgs[0])\n", "R26.3"),
    Mutant("length-prefix-little-endian", LAYER, 'return struct.pack("!H", len(packed)) + packed', 'return struct.pack("<H", len(packed)) + packed', "R26.3"),
    Mutant("length-prefix-counts-itself", LAYER, 'return struct.pack("!H", len(packed)) + packed', 'return struct.pack("!H", len(packed) + 2) + packed', "R26.3"),
    Mutant("packed-truncates-rdata", DNS, "            data.extend(rr.data)\n", "            data.extend(rr.data[:255])\n", "R26.3"),
    Mutant("packed-sections-swapped", DNS, "for rr in (*self.answers, *self.authorities, *self.additionals):", "for rr in (*self.authorities, *self.answers, *self.additionals):", "R26.3"),
    # R26.5 (first = reverse of the F-C26c repair, second = seed C26b)
    Mutant("F-C26c-reverted", DN, "                decompress_size += len(packed_name) - rr_name_len\n", "                decompress_size += len(rr_name)\n", "R26.5"),
    Mutant("scan-jumps-over-label-lengths", DN, "                pass\n        data_offset += 1\n    return bytes(data)",
           "                pass\n        elif buffer[offset + data_offset] < 64:\n            data_offset += buffer[offset + data_offset]\n        data_offset += 1\n    return bytes(data)", "R26.5"),
    Mutant("scan-stops-two-octets-early", DN, "    while data_offset < end_data - offset:\n", "    while data_offset < end_data - offset - 2:\n", "R26.5"),
    Mutant("splice-keeps-second-pointer-octet", DN, "                    + rr_name_len\n                ] = packed_name\n", "                    + 1\n                ] = packed_name\n", "R26.5"),
    # R26.4 (fires on the unrepaired tree with a known key; the mutant models a renamed routine - old name kept as an alias - that still is type-agnostic)
    Mutant("renamed-scan-still-type-agnostic", DN, "def decompress_from_record_data(\n    buffer: bytes, offset: int, end_data: int, cached_names: Cache\n) -> bytes:\n    # we decompress compression pointers in RDATA by iterating through each byte and checking\n    # if it has a leading 0b11, if so we try to decompress it and update it in the data variable.\n    data = bytearray(buffer[offset:end_data])\n    data_offset = 0\n    decompress_size = 0\n    while data_offset < end_data - offset:\n        if buffer[offset + data_offset] & _POINTER_INDICATOR == _POINTER_INDICATOR:\n            try:\n                (\n                    rr_name,\n                    rr_name_len,\n                ) = unpack_from_with_compression(\n                    buffer, offset + data_offset, cached_names\n                )\n                packed_name = pack(rr_name)\n                data[\n                    data_offset + decompress_size : data_offset\n                    + decompress_size\n                    + rr_name_len\n                ] = packed_name\n                decompress_size += len(packed_name) - rr_name_len\n                data_offset += rr_name_len\n                continue\n            except (struct.error, ValueError):\n                # the byte isn't actually a domain name compression pointer but some other data type\n                pass\n        data_offset += 1\n    return bytes(data)\n", "def expand_pointers_in_record_data(\n    buffer: bytes, offset: int, end_data: int, cached_names: Cache\n) -> bytes:\n    # we decompress compression pointers in RDATA by iterating through each byte and checking\n    # if it has a leading 0b11, if so we try to decompress it and update it in the data variable.\n    data = bytearray(buffer[offset:end_data])\n    data_offset = 0\n    decompress_size = 0\n    while data_offset < end_data - offset:\n        if buffer[offset + data_offset] & _POINTER_INDICATOR == _POINTER_INDICATOR:\n            try:\n                (\n                    rr_name,\n                    rr_name_len,\n                ) = unpack_from_with_compression(\n                    buffer, offset + data_offset, cached_names\n                )\n                packed_name = pack(rr_name)\n                data[\n                    data_offset + decompress_size : data_offset\n                    + decompress_size\n                    + rr_name_len\n                ] = packed_name\n                decompress_size += len(packed_name) - rr_name_len\n                data_offset += rr_name_len\n                continue\n            except (struct.error, ValueError):\n                # the byte isn't actually a domain name compression pointer but some other data type\n                pass\n        data_offset += 1\n    return bytes(data)\n\n\ndecompress_from_record_data = expand_pointers_in_record_data\n", "R26.4"),
]
