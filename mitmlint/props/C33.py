"""C33 - request URL, host, port and authority stay consistent.

Decided:
  R33.1 setter coverage: the ``Request.host`` and ``Request.port`` setters store the new value and THEN call
        ``_update_host_and_authority``; that helper computes ``url.hostport(self.scheme, self.host, self.port)`` and
        writes it to the Host header whenever one is present and to the authority whenever it is non-empty;
        ``url.hostport`` returns the bare host exactly on the ``default_port(scheme) == port`` path and host:port
        otherwise; the ``url`` setter distributes ``url.parse``'s result over scheme/host/port/path in the order
        ``parse`` returns them, and the getter hands them to ``url.unparse`` in the order of its parameters.
  R33.2 default-port table: every place that fills in a missing port agrees with {http: 80, https: 443}:
        ``url.default_port`` (str and bytes keys), ``url.parse``, ``parse_h2_request_headers``,
        ``HttpStream.state_wait_for_request_headers`` (port and scheme chosen by the same test),
        ``har.request_to_flow``; ``_read_request_line`` defaults through ``url.default_port``.
  R33.3 no URL component is lost between ``url.parse`` and ``url.unparse`` (may-dependence, flow-insensitive def-use closure
        inside each function): the *path* element of the tuple ``url.parse`` returns depends on EVERY request-target
        component the stdlib parser it uses splits off - ``urlparse``: path, params, query, fragment; ``urlsplit``: path,
        query, fragment (a use of the whole result object, e.g. ``urlunparse(parsed._replace(...))``, counts for all) -
        and every value ``url.unparse`` returns depends on all four of its parameters.  A component that does not even
        *may*-flow into the rebuilt path is dropped for every URL that carries it: the URL read back (and the request
        sent upstream) names another resource.  The closure over-approximates dependence, so a violation is sound;
        a component that flows only on some paths is NOT detected.
NOT decided: round-trip equality over all URLs (urllib, IDNA), validity checks, HTTP/2 host_header handling; that the
        components are re-joined with the right delimiters.
"""

from __future__ import annotations

import ast

from ..core import AnalysisError
from ..model import attr_chain
from ..model import last_attr
from ..selftest import Mutant
from ._helpers_E import expect
from ._helpers_E import fact
from ._helpers_E import params
from ._helpers_E import paths
from ._helpers_E import prop_parts
from ._helpers_E import show

PROP = "C33"
REG = {
    "strength": "narrow",
    "technique": "path rules on the Request setters and url.hostport + positional agreement parse/unparse/url setter + default-port table agreement across six sites "
    "+ def-use closure: every component the stdlib URL parser splits off may-flows into the path url.parse returns, every parameter of url.unparse into its result",
    "claim": "host/port edits always rewrite an existing Host header and a non-empty authority from the new scheme/host/port; the url "
    "setter/getter agree with url.parse/unparse on component order; every port-defaulting site agrees with {http: 80, https: 443}; "
    "url.parse's path carries path, ;params, ?query and #fragment of the parsed URL and url.unparse uses all four components.",
    "note": "Three necessary conditions only; URL round-trip equality is not decided.",
}

HTTP = "mitmproxy/http.py"
URL = "mitmproxy/net/http/url.py"
READ = "mitmproxy/net/http/http1/read.py"
H2 = "mitmproxy/proxy/layers/http/_http2.py"
HS = "mitmproxy/proxy/layers/http/__init__.py"
HAR = "mitmproxy/io/har.py"
RFC = {"http": 80, "https": 443}


def _s(v):
    return v.decode() if isinstance(v, bytes) else v


def _ifexp_table(ctx, node: ast.IfExp, what: str):
    """{scheme: port} from ``A if X == <scheme literal> else B``."""
    t = node.test
    ok = isinstance(t, ast.Compare) and len(t.ops) == 1 and isinstance(t.ops[0], ast.Eq) and isinstance(t.comparators[0], ast.Constant) \
        and isinstance(node.body, ast.Constant) and isinstance(node.orelse, ast.Constant)
    ctx.require(ok, f"{what}: default-port expression not modelled: {ast.unparse(node)}")
    lit = _s(t.comparators[0].value)
    ctx.require(lit in RFC, f"{what}: compares the scheme with {lit!r}")
    other = "https" if lit == "http" else "http"
    return {lit: node.body.value, other: node.orelse.value}


# ---------------------------------------------------------------------------------------------------
# R33.3 def-use closure

_PARSERS = {
    "urlparse": ("scheme", "netloc", "path", "params", "query", "fragment"),
    "urlsplit": ("scheme", "netloc", "path", "query", "fragment"),
}
_TARGET_PARTS = ("path", "params", "query", "fragment")  # what belongs to the request target
_DERIVE = ("encode", "decode", "_replace")  # methods of a parse result that return a parse result of the same kind
_WHOLE = ("geturl",)


def _bindings(fn):
    """name -> [value expressions] for every binding of a local name in fn (flow-insensitive; nested defs excluded)."""
    out: dict[str, list] = {}

    def names(t):
        if isinstance(t, ast.Name):
            yield t.id
        elif isinstance(t, (ast.Tuple, ast.List)):
            for e in t.elts:
                yield from names(e)
        elif isinstance(t, ast.Starred):
            yield from names(t.value)

    def visit(node):
        for ch in ast.iter_child_nodes(node):
            if isinstance(ch, (ast.FunctionDef, ast.AsyncFunctionDef, ast.Lambda, ast.ClassDef)):
                continue
            if isinstance(ch, ast.Assign):
                for t in ch.targets:
                    for n in names(t):
                        out.setdefault(n, []).append((t, ch.value))
            elif isinstance(ch, (ast.AnnAssign, ast.AugAssign)) and ch.value is not None:
                for n in names(ch.target):
                    out.setdefault(n, []).append((ch.target, ch.value))
            elif isinstance(ch, ast.NamedExpr):
                out.setdefault(ch.target.id, []).append((ch.target, ch.value))
            elif isinstance(ch, (ast.For, ast.AsyncFor)):
                for n in names(ch.target):
                    out.setdefault(n, []).append((ch.target, ch.iter))
            elif isinstance(ch, (ast.With, ast.AsyncWith)):
                for it in ch.items:
                    if it.optional_vars is not None:
                        for n in names(it.optional_vars):
                            out.setdefault(n, []).append((it.optional_vars, it.context_expr))
            visit(ch)

    visit(fn)
    return out


def _parse_components(fn, expr, what):
    """(parser kind, {component names expr may depend on}) through the def-use closure of ``fn``; 'ALL' marks a use of a whole parse result."""
    binds = _bindings(fn)
    # parse-result variables: bound to urlparse()/urlsplit() or to <parse result>.encode()/.decode()/._replace()
    pvars: dict[str, str] = {}
    unpacked: dict[str, tuple[str, str]] = {}  # name -> (kind, component) for 'a, b, c = urlparse(u)'
    changed = True
    while changed:
        changed = False
        for name, bs in binds.items():
            for tgt, v in bs:
                kind = None
                if isinstance(v, ast.Call) and last_attr(v.func) in _PARSERS:
                    kind = last_attr(v.func)
                elif isinstance(v, ast.Call) and isinstance(v.func, ast.Attribute) and v.func.attr in _DERIVE and isinstance(v.func.value, ast.Name) and v.func.value.id in pvars:
                    kind = pvars[v.func.value.id]
                elif isinstance(v, ast.Name) and v.id in pvars:
                    kind = pvars[v.id]
                if kind is None:
                    continue
                if isinstance(tgt, ast.Name):
                    if pvars.get(name) != kind:
                        if name in pvars:
                            raise AnalysisError(f"{what}: {name!r} holds results of different URL parsers (shape not modelled)")
                        pvars[name] = kind
                        changed = True
                elif isinstance(tgt, (ast.Tuple, ast.List)) and len(tgt.elts) == len(_PARSERS[kind]) and all(isinstance(e, ast.Name) for e in tgt.elts):
                    for e, comp in zip(tgt.elts, _PARSERS[kind]):
                        if unpacked.get(e.id) != (kind, comp):
                            unpacked[e.id] = (kind, comp)
                            changed = True
                else:
                    raise AnalysisError(f"{what}: parse result unpacked in a shape that is not modelled: {ast.unparse(tgt)}")
    found: set[tuple[str, str]] = set()
    seen: set[str] = set()

    def deps(e):
        skip = set()
        for n in ast.walk(e):
            if id(n) in skip:
                continue
            if isinstance(n, ast.Attribute) and isinstance(n.value, ast.Name) and n.value.id in pvars:
                kind = pvars[n.value.id]
                skip.add(id(n.value))
                if n.attr in _PARSERS[kind]:
                    found.add((kind, n.attr))
                elif n.attr in _WHOLE + _DERIVE:
                    found.add((kind, "ALL"))  # a (re-encoded / partly replaced) copy of the whole result is handed on: over-approximate
                elif n.attr not in ("hostname", "port", "username", "password"):
                    raise AnalysisError(f"{what}: attribute {n.attr!r} of a parse result is not modelled")
            elif isinstance(n, ast.Subscript) and isinstance(n.value, ast.Name) and n.value.id in pvars:
                kind = pvars[n.value.id]
                skip.add(id(n.value))
                comps = _PARSERS[kind]
                sl = n.slice
                if isinstance(sl, ast.Constant) and isinstance(sl.value, int) and -len(comps) <= sl.value < len(comps):
                    found.add((kind, comps[sl.value]))
                elif isinstance(sl, ast.Slice) and all(x is None or (isinstance(x, ast.Constant) and isinstance(x.value, int)) for x in (sl.lower, sl.upper, sl.step)):
                    for c in comps[slice(*(x.value if x is not None else None for x in (sl.lower, sl.upper, sl.step)))]:
                        found.add((kind, c))
                else:
                    found.add((kind, "ALL"))
            elif isinstance(n, ast.Name) and isinstance(n.ctx, ast.Load):
                if n.id in pvars:
                    found.add((pvars[n.id], "ALL"))  # the whole object is handed on
                elif n.id in unpacked:
                    found.add(unpacked[n.id])
                elif n.id in binds and n.id not in seen:
                    seen.add(n.id)
                    for _, v in binds[n.id]:
                        deps(v)

    deps(expr)
    kinds = {k for k, _ in found}
    if len(kinds) != 1:
        raise AnalysisError(f"{what}: the returned path is derived from {sorted(kinds) or 'no'} stdlib URL parser result(s) (shape not modelled)")
    kind = kinds.pop()
    comps = {c for _, c in found}
    return kind, (set(_PARSERS[kind]) if "ALL" in comps else comps)


def _param_deps(fn, expr):
    """Parameters of fn that ``expr`` may depend on (def-use closure)."""
    binds = _bindings(fn)
    ps = set(params(fn, drop_self=False))
    out, seen = set(), set()

    def deps(e):
        for n in ast.walk(e):
            if isinstance(n, ast.Name) and isinstance(n.ctx, ast.Load):
                if n.id in ps:
                    out.add(n.id)
                if n.id in binds and n.id not in seen:
                    seen.add(n.id)
                    for _, v in binds[n.id]:
                        deps(v)

    deps(expr)
    return out


def check(ctx):
    ctx.rule("R33.1", "host/port setters store then call _update_host_and_authority, which rewrites Host (if present) and authority (if non-empty) from hostport(scheme, host, port); url setter/getter agree with parse/unparse on order")
    ctx.rule("R33.2", "every port-defaulting site agrees with {http: 80, https: 443}")
    ctx.rule("R33.3", "the path url.parse returns may-depends on every request-target component (path, ;params, ?query, #fragment) of the stdlib parse result; every url.unparse result depends on all four parameters")
    m = ctx.model
    req = m.cls(HTTP, "Request")

    # ---- R33.1 (a) setters
    for name, field in (("host", "self.data.host"), ("port", "self.data.port")):
        g, s = prop_parts(req, name)
        ctx.require(s is not None, f"Request.{name} setter vanished")
        ctx.functions.add(f"{HTTP}::Request.{name}.setter")
        trs, eng = paths(s, keep=lambda e: (e[0] == "assign" and e[1].startswith("self.data.")) or (e[0] == "call" and e[1] == "self._update_host_and_authority"))
        ctx.paths += len(trs)
        bad = False
        n = 0
        for t, how in trs:
            if how != "return":
                continue
            n += 1
            st = [i for i, e in enumerate(t) if e[0] == "assign" and e[1] == field]
            up = [i for i, e in enumerate(t) if e[0] == "call"]
            if not st or not up or up[-1] < st[-1]:
                bad = True
                ctx.fail("R33.1", (HTTP, f"Request.{name}.setter", s), f"{name} setter: path [{show(t)}]",
                         f"the {name} setter does not call _update_host_and_authority after storing {field}: Host header / authority keep pointing at the old destination")
        ctx.require(bad or n >= 1, f"Request.{name} setter has no returning path")
        if not bad:
            ctx.ok("R33.1", f"Request.{name} setter: {field} := value, then _update_host_and_authority()")

    # ---- R33.1 (b) the helper
    up = ctx.func(HTTP, "Request._update_host_and_authority")
    want_val = "url.hostport(self.scheme, self.host, self.port)"

    def q(x):
        return x.replace('"', "'")

    trs, eng = paths(up, keep=lambda e: e[0] == "assign")
    ctx.paths += len(trs)
    bad = False
    for t, how in trs:
        if how != "return":
            continue
        probs = []

        def derived(txt):
            if txt == want_val:
                return True
            src = [e for e in t if e[0] == "assign" and e[1] == txt]
            return bool(src) and src[-1][2] == want_val

        hp = [e[2] for e in t if e[0] == "cond" and q(e[1]).lower() in ("'host' in self.data.headers", "'host' in self.headers")]
        hset = [e for e in t if e[0] == "assign" and q(e[1]).lower() in ("self.data.headers['host']", "self.headers['host']")]
        if (not hp or hp[-1]) and not (hset and derived(hset[-1][2])):
            probs.append("an existing Host header is not rewritten with hostport(scheme, host, port)")
        au = fact(t, "self.data.authority")
        if au is None:
            au = fact(t, "self.authority")
        aset = [e for e in t if e[0] == "assign" and e[1] in ("self.authority", "self.data.authority")]
        if au is not False and not (aset and derived(aset[-1][2])):
            probs.append("a non-empty authority is not rewritten with hostport(scheme, host, port)")
        for p in probs:
            bad = True
            ctx.fail("R33.1", (HTTP, "Request._update_host_and_authority", up), f"_update_host_and_authority: path [{show(t)}]", p)
    ctx.require(bad or len(trs) >= 4, f"_update_host_and_authority: expected >= 4 paths (Host present/absent x authority set/empty), found {len(trs)}")
    if not bad:
        ctx.ok("R33.1", f"_update_host_and_authority: {len(trs)} paths; Host (if present) and authority (if non-empty) := hostport(scheme, host, port)")

    # ---- R33.1 (c) url.hostport
    hpf = ctx.func(URL, "hostport")
    sp, hp_, pp = params(hpf, drop_self=False)
    trs, eng = paths(hpf, keep=lambda e: e[0] == "return")
    ctx.paths += len(trs)
    bad = False
    seen = set()
    for t, how in trs:
        if how != "return":
            continue
        dflt = [e[2] for e in t if e[0] == "cond" and e[1].replace(" ", "") in (f"default_port({sp})=={pp}", f"{pp}==default_port({sp})")]
        ndf = [not e[2] for e in t if e[0] == "cond" and e[1].replace(" ", "") in (f"default_port({sp})!={pp}", f"{pp}!=default_port({sp})")]
        d = (dflt + ndf)[-1] if (dflt + ndf) else None
        ret = [e for e in t if e[0] == "return"][-1][1]
        with_port = ret in (f"'%s:%d' % ({hp_}, {pp})", f"b'%s:%d' % ({hp_}, {pp})", f"f'{{{hp_}}}:{{{pp}}}'")
        seen.add(d)
        if d is None or (d and ret != hp_) or (not d and not with_port):
            bad = True
            ctx.fail("R33.1", (URL, "hostport", hpf), f"hostport: path [{show(t)}]",
                     "hostport must return the bare host exactly when the port is the scheme's default and host:port otherwise (url/Host/authority would not be idempotent)")
    ctx.require(bad or seen == {True, False}, "url.hostport: default / non-default paths not recognised")
    if not bad:
        ctx.ok("R33.1", "url.hostport: bare host iff default_port(scheme) == port")

    # ---- R33.1 (d) component order: parse -> url setter, url getter -> unparse
    parse = ctx.func(URL, "parse")
    rets = [n for n in ast.walk(parse) if isinstance(n, ast.Return) and n.value is not None and n._parent is parse]
    ctx.require(len(rets) == 1 and isinstance(rets[0].value, ast.Tuple) and len(rets[0].value.elts) == 4, "url.parse no longer ends in 'return a, b, c, d'")

    def role(e, depth=0):
        attrs = {n.attr for n in ast.walk(e) if isinstance(n, ast.Attribute)}
        if depth < 2:
            for nm in {n.id for n in ast.walk(e) if isinstance(n, ast.Name)}:
                for s in ast.walk(parse):
                    if isinstance(s, (ast.Assign, ast.AnnAssign)) and s.value is not None:
                        tg = s.targets[0] if isinstance(s, ast.Assign) else s.target
                        if isinstance(tg, ast.Name) and tg.id == nm and nm not in ("parsed", "parsed_b", "url"):
                            attrs |= {n.attr for n in ast.walk(s.value) if isinstance(n, ast.Attribute)}
        for r, key in (("port", "port"), ("host", "hostname"), ("path", "path"), ("scheme", "scheme")):
            if key in attrs:
                return r
        return None

    order = [role(e) for e in rets[0].value.elts]
    if order.count(None) == 1 and len(set(order)) == 4:
        # three elements are recognised by the parse-result attribute they read; the fourth is the remaining component (R33.3 then decides what it is built from)
        order[order.index(None)] = ({"host", "path", "port", "scheme"} - set(order)).pop()
    ctx.require(sorted(x or "?" for x in order) == ["host", "path", "port", "scheme"], f"url.parse: component roles of the returned tuple not recognised: {order}")
    g, s = prop_parts(req, "url")
    ctx.require(g is not None and s is not None, "Request.url property vanished")
    asg = [n for n in ast.walk(s) if isinstance(n, ast.Assign) and isinstance(n.value, ast.Call) and ast.unparse(n.value.func) == "url.parse"]
    ctx.require(len(asg) == 1 and isinstance(asg[0].targets[0], ast.Tuple), "Request.url setter is no longer 'a, b, c, d = url.parse(val)'")
    tgts = [attr_chain(t) for t in asg[0].targets[0].elts]
    ctx.check(tgts == [f"self.{r}" for r in order], "R33.1", (HTTP, "Request.url.setter", asg[0]), f"url setter: {', '.join(tgts)} = url.parse(...) returning ({', '.join(order)})",
              "the url setter assigns url.parse's components to the wrong attributes (or not all four)", desc=f"url setter order = parse order {order}")
    unp = ctx.func(URL, "unparse")
    up_params = params(unp, drop_self=False)
    calls_ = [n for n in ast.walk(g) if isinstance(n, ast.Call) and ast.unparse(n.func) == "url.unparse"]
    ctx.require(len(calls_) == 1 and len(calls_[0].args) == 4 and len(up_params) == 4, "Request.url getter no longer calls url.unparse(a, b, c, d)")

    def arg_role(a):
        ch = attr_chain(a)
        if ch.startswith("self."):
            return ch[5:]
        if isinstance(a, ast.Name):
            src = [n.value for n in ast.walk(g) if isinstance(n, ast.Assign) and isinstance(n.targets[0], ast.Name) and n.targets[0].id == a.id]
            attrs = {attr_chain(x)[5:] for v in src for x in ast.walk(v) if attr_chain(x).startswith("self.")}
            return attrs.pop() if len(attrs) == 1 else None
        return None

    got = [arg_role(a) for a in calls_[0].args]
    ctx.check(got == up_params, "R33.1", (HTTP, "Request.url", calls_[0]), f"url getter: url.unparse({', '.join(str(x) for x in got)}) vs parameters ({', '.join(up_params)})",
              "the url getter passes the request's components to url.unparse in the wrong order", desc=f"url getter order = unparse parameters {up_params}")

    # ---- R33.3 no component is lost
    path_e = rets[0].value.elts[order.index("path")]
    kind, comps = _parse_components(parse, path_e, "url.parse")
    need = [c for c in _PARSERS[kind] if c in _TARGET_PARTS]
    for c in need:
        ctx.check(c in comps, "R33.3", (URL, "parse", rets[0]), f"url.parse: returned path does not depend on {kind}().{c}",
                  f"url.parse splits the URL with urllib.parse.{kind}, which moves the {c!r} piece out of the other components, but the path it returns is computed only from {sorted(comps)}: "
                  f"every URL that carries a {c} component reads back (and is sent upstream) without it",
                  desc=f"url.parse: path <- {kind}().{c}")
    u_rets = [n for n in ast.walk(unp) if isinstance(n, ast.Return) and n.value is not None]
    ctx.require(len(u_rets) >= 1, "url.unparse returns nothing")
    lost = sorted({p for r in u_rets for p in set(up_params) - _param_deps(unp, r.value)})
    ctx.check(not lost, "R33.3", (URL, "unparse", unp), f"url.unparse: a returned URL does not depend on {lost}",
              f"url.unparse builds a URL (on at least one return) without its {lost} component: Request.url no longer reflects the request", desc=f"url.unparse: every return <- {up_params}")

    # ---- R33.2 default-port tables
    def table(site, where, tab, node):
        ctx.cells += len(tab)
        complete = {_s(k) for k in tab} == set(RFC) and (site != "url.default_port" or {type(k) for k in tab if _s(k) == "http"} == {type(k) for k in tab if _s(k) == "https"} == {str, bytes})
        ctx.check(complete and all(RFC.get(_s(k)) == v for k, v in tab.items()),
                  "R33.2", where + (node,), f"{site}: {dict(sorted((repr(k), v) for k, v in tab.items()))}",
                  f"{site} defaults ports differently from {RFC}: a URL without an explicit port and its re-rendered form denote different destinations",
                  desc=f"{site}: {sorted((_s(k), v) for k, v in tab.items())}")

    dp = ctx.func(URL, "default_port")
    ds = [n for n in ast.walk(dp) if isinstance(n, ast.Dict)]
    ctx.require(len(ds) == 1 and all(isinstance(k, ast.Constant) and isinstance(v, ast.Constant) for k, v in zip(ds[0].keys, ds[0].values)), "url.default_port: table literal not found")
    table("url.default_port", (URL, "default_port"), {k.value: v.value for k, v in zip(ds[0].keys, ds[0].values)}, ds[0])

    def port_ifexps(fn):
        out = []
        for n in ast.walk(fn):
            if isinstance(n, ast.Assign) and isinstance(n.value, ast.IfExp) and isinstance(n.targets[0], ast.Name) and n.targets[0].id == "port":
                out.append(n.value)
        return out

    pe = port_ifexps(parse)
    ctx.require(len(pe) == 1, f"url.parse: {len(pe)} default-port expressions")
    table("url.parse", (URL, "parse"), _ifexp_table(ctx, pe[0], "url.parse"), pe[0])

    h2 = ctx.func(H2, "parse_h2_request_headers")
    pe = port_ifexps(h2)
    ctx.require(len(pe) == 1, f"parse_h2_request_headers: {len(pe)} default-port expressions")
    table("parse_h2_request_headers", (H2, "parse_h2_request_headers"), _ifexp_table(ctx, pe[0], "parse_h2_request_headers"), pe[0])

    hs = ctx.func(HS, "HttpStream.state_wait_for_request_headers")
    pe = port_ifexps(hs)
    ctx.require(len(pe) == 1 and isinstance(pe[0].body, ast.Constant) and isinstance(pe[0].orelse, ast.Constant), f"HttpStream.state_wait_for_request_headers: {len(pe)} default-port expressions")
    test = ast.unparse(pe[0].test)
    se = [n.value for n in ast.walk(hs) if isinstance(n, ast.Assign) and attr_chain(n.targets[0]).endswith("request.scheme") and isinstance(n.value, ast.IfExp) and ast.unparse(n.value.test) == test]
    ctx.require(len(se) == 1 and isinstance(se[0].body, ast.Constant) and isinstance(se[0].orelse, ast.Constant), "HttpStream.state_wait_for_request_headers: scheme chosen by the same test not found")
    table("HttpStream.state_wait_for_request_headers", (HS, "HttpStream.state_wait_for_request_headers"), {se[0].body.value: pe[0].body.value, se[0].orelse.value: pe[0].orelse.value}, pe[0])

    rtf = ctx.func(HAR, "request_to_flow")
    ifs = [n for n in ast.walk(rtf) if isinstance(n, ast.If) and isinstance(n.test, ast.Call) and last_attr(n.test.func) == "startswith" and n.test.args
           and isinstance(n.test.args[0], ast.Constant) and str(n.test.args[0].value).endswith("://")]
    ctx.require(len(ifs) == 1, "har.request_to_flow: scheme test (url.startswith('<scheme>://')) not found")

    def const_port(block):
        a = [s for s in block if isinstance(s, ast.Assign) and isinstance(s.targets[0], ast.Name) and s.targets[0].id == "port" and isinstance(s.value, ast.Constant)]
        ctx.require(len(a) == 1 and len(block) == 1, "har.request_to_flow: port branch not modelled")
        return a[0].value.value

    lit = str(ifs[0].test.args[0].value)[:-3]
    ctx.require(lit in RFC, f"har.request_to_flow tests scheme {lit!r}")
    table("har.request_to_flow", (HAR, "request_to_flow"), {lit: const_port(ifs[0].body), ("https" if lit == "http" else "http"): const_port(ifs[0].orelse)}, ifs[0])

    rl = ctx.func(READ, "_read_request_line")
    dflt = [n for n in ast.walk(rl) if isinstance(n, ast.Assign) and isinstance(n.targets[0], ast.Name) and n.targets[0].id == "port" and isinstance(n.value, ast.BoolOp)]
    okd = len(dflt) == 1 and isinstance(dflt[0].value.op, ast.Or) and ast.unparse(dflt[0].value.values[0]) == "port" and ast.unparse(dflt[0].value.values[1]) == "url.default_port(scheme)"
    consts = [n.value for n in ast.walk(rl) if isinstance(n, ast.Constant) and n.value in (80, 443, 8080, 8443)]
    ctx.require(okd or consts or not dflt, "_read_request_line: port defaulting shape not modelled")
    ctx.check(okd and not consts, "R33.2", (READ, "_read_request_line", rl), "_read_request_line: port = port or url.default_port(scheme)",
              "absolute-form request lines default the port with their own table instead of url.default_port", desc="_read_request_line defaults through url.default_port")

    expect(ctx, "R33.1", 6)
    expect(ctx, "R33.2", 6)
    expect(ctx, "R33.3", len(need) + 1)


MUTANTS = [
    Mutant("host-setter-no-update", HTTP, "        self.data.host = always_str(val, \"idna\", \"strict\")\n        self._update_host_and_authority()\n", "        self.data.host = always_str(val, \"idna\", \"strict\")\n", "R33.1"),
    Mutant("port-setter-updates-before-storing", HTTP, "        self.data.port = port\n        self._update_host_and_authority()\n", "        self._update_host_and_authority()\n        self.data.port = port\n", "R33.1"),
    Mutant("host-header-not-rewritten", HTTP, "        if \"Host\" in self.data.headers:\n            self.data.headers[\"Host\"] = val\n", "", "R33.1"),
    Mutant("authority-guard-inverted", HTTP, "        if self.data.authority:\n            self.authority = val\n", "        if not self.data.authority:\n            self.authority = val\n", "R33.1"),
    Mutant("hostport-from-pretty-host", HTTP, "val = url.hostport(self.scheme, self.host, self.port)", "val = url.hostport(self.scheme, self.pretty_host, self.port)", "R33.1"),
    Mutant("url-setter-swaps-host-port", HTTP, "self.scheme, self.host, self.port, self.path = url.parse(val)", "self.scheme, self.port, self.host, self.path = url.parse(val)", "R33.1"),
    Mutant("url-getter-swaps-args", HTTP, "        return url.unparse(self.scheme, self.host, self.port, path)\n\n    @url.setter", "        return url.unparse(self.scheme, self.port, self.host, path)\n\n    @url.setter", "R33.1"),
    Mutant("hostport-inverted", URL, "    if default_port(scheme) == port:\n        return host\n", "    if default_port(scheme) != port:\n        return host\n", "R33.1"),
    Mutant("hostport-always-with-port", URL, "    if default_port(scheme) == port:\n        return host\n    else:\n        if isinstance(host, bytes):", "    if True:\n        if isinstance(host, bytes):", "R33.1"),
    Mutant("default-port-table-https-8443", URL, "        \"https\": 443,\n", "        \"https\": 8443,\n", "R33.2"),
    Mutant("default-port-table-bytes-key-missing", URL, "        b\"https\": 443,\n", "", "R33.2"),
    Mutant("parse-defaults-swapped", URL, "port = 443 if parsed_b.scheme == b\"https\" else 80", "port = 443 if parsed_b.scheme == b\"http\" else 80", "R33.2"),
    Mutant("h2-default-port-swapped", H2, "port = 80 if scheme == b\"http\" else 443", "port = 80 if scheme == b\"https\" else 443", "R33.2"),
    Mutant("httpstream-default-port-swapped", HS, "port = 443 if self.context.client.tls else 80", "port = 80 if self.context.client.tls else 443", "R33.2"),
    Mutant("har-default-port-wrong", HAR, "    if request_url.startswith(\"http://\"):\n        port = 80\n    else:\n        port = 443\n", "    if request_url.startswith(\"http://\"):\n        port = 80\n    else:\n        port = 80\n", "R33.2"),
    Mutant("parse-drops-params", URL, "    full_path: bytes = urllib.parse.urlunparse(\n        (b\"\", b\"\", parsed_b.path, parsed_b.params, parsed_b.query, parsed_b.fragment)  # type: ignore\n    )\n",
           "    full_path: bytes = parsed_b.path or b\"/\"\n    if parsed_b.query:\n        full_path += b\"?\" + parsed_b.query\n    if parsed_b.fragment:\n        full_path += b\"#\" + parsed_b.fragment\n", "R33.3"),
    Mutant("parse-drops-query", URL, "(b\"\", b\"\", parsed_b.path, parsed_b.params, parsed_b.query, parsed_b.fragment)", "(b\"\", b\"\", parsed_b.path, parsed_b.params, b\"\", parsed_b.fragment)", "R33.3"),
    Mutant("parse-returns-bare-path", URL, "    return parsed_b.scheme, host, port, full_path\n", "    return parsed_b.scheme, host, port, parsed_b.path or b\"/\"\n", "R33.3"),
    Mutant("unparse-bytes-drops-path", URL, "        return b\"%s://%s%s\" % (scheme, authority, path)\n", "        return b\"%s://%s/\" % (scheme, authority)\n", "R33.3"),
    Mutant("unparse-ignores-port", URL, "    authority = hostport(scheme, host, port)\n\n    if isinstance(scheme, str):", "    authority = host\n\n    if isinstance(scheme, str):", "R33.3"),
    Mutant("request-line-own-default", READ, "            port = port or url.default_port(scheme)\n", "            port = port or 80\n", "R33.2"),
]
