"""C33 - request URL, host, port and authority stay consistent.

The accessors are *interpreted* (mitmlint.pyint over the ASTs of http.Request's properties and of net/http/url.py; nothing from
the repository is imported or run) on a finite domain of requests and URLs, and what comes out is compared with independent
references written from the RFCs ({http: 80, https: 443}; "host[:port]" names host and port, the port defaulting by scheme).
Local names, statement shape, helper extraction, conditional expression vs. if-statement, inverted tests do not matter.

Decided:
  R33.1 edits keep Host / authority on target: for requests with / without a Host header and with / without an authority
        (old scheme x old port), ``request.host = h``, ``request.port = p`` and ``request.url = u`` store the new components
        (scheme, host, port, path read back as assigned) and leave an existing Host header and a non-empty authority naming
        exactly the new (host, port) under the request's scheme; ``request.url`` read back denotes the assigned URL and
        assigning it again changes nothing; ``url.hostport`` names (host, port) for str and bytes.
  R33.2 default-port table: every place that fills in a missing port agrees with {http: 80, https: 443}:
        ``url.default_port`` (str and bytes keys), ``url.parse``, ``parse_h2_request_headers``, ``_read_request_line``
        (these four by interpretation), ``HttpStream.state_wait_for_request_headers`` and ``har.request_to_flow`` (path
        enumeration with the deciding test pinned both ways: the constant port that reaches the request / server address
        belongs to the scheme chosen on the same path).
  R33.3 no URL component is lost between ``url.parse`` and ``url.unparse``: on URLs carrying every combination of explicit /
        default port, ;params, ?query, #fragment, IDN and IP-literal hosts, ``url.parse`` (str and bytes input) returns
        exactly (scheme, IDNA host, port, path;params?query#fragment), ``url.unparse`` rebuilds a URL that denotes its four
        arguments, and unparse(parse(u)) denotes u.  Supplementary (sound, skipped with a note when the shape is not the
        modelled one): def-use closure - the path element ``url.parse`` returns may-depends on every request-target component
        of the stdlib parse result, every ``url.unparse`` result on all four parameters.
NOT decided: round-trip equality over ALL URLs (finite samples + may-dependence only), validity checks (check.is_valid_host),
        HTTP/2 host_header handling.
"""

from __future__ import annotations

import ast
import ipaddress as _ipaddress
import re as _re
import urllib.parse as _up
from types import SimpleNamespace

import urllib as _urllib

from ..core import AnalysisError
from ..core import norm
from ..model import attr_chain
from ..model import last_attr
from ..paths import is_const
from ..pyint import DictRec
from ..pyint import Interp
from ..pyint import NullLog
from ..pyint import Raised
from ..pyint import Rec
from ..selftest import Mutant
from ._helpers_A import ASpec
from ._helpers_A import SeqPatterns
from ._helpers_A import run_block
from ._helpers_E import expect
from ._helpers_E import params

PROP = "C33"
REG = {
    "strength": "narrow",
    "technique": "abstract interpretation (pyint) of the Request accessors and net/http/url.py on a finite request / URL domain against RFC references "
    "+ default-port table agreement across six sites (four interpreted, two by path enumeration) + def-use closure over url.parse / url.unparse",
    "claim": "host / port / url edits always leave an existing Host header and a non-empty authority naming the new destination and read back as assigned "
    "(url get/set idempotent); every port-defaulting site agrees with {http: 80, https: 443}; "
    "url.parse's path carries path, ;params, ?query and #fragment of the parsed URL and url.unparse uses all four components.",
    "note": "Necessary conditions over finite samples; URL round-trip equality over all URLs is not decided.",
}

HTTP = "mitmproxy/http.py"
URL = "mitmproxy/net/http/url.py"
READ = "mitmproxy/net/http/http1/read.py"
H2 = "mitmproxy/proxy/layers/http/_http2.py"
HS = "mitmproxy/proxy/layers/http/__init__.py"
HAR = "mitmproxy/io/har.py"
RFC = {"http": 80, "https": 443}


def _s(v):
    return v.decode() if isinstance(v, bytes) else v


def _text(v):
    """str form of a Host header / authority value (bytes are IDNA or UTF-8)."""
    if isinstance(v, bytes):
        try:
            return v.decode("idna")
        except UnicodeError:
            return v.decode("utf-8", "surrogateescape")
    return v


_HOSTPORT = _re.compile(r"^(?P<host>[^:]+|\[.+\])(?::(?P<port>\d+))?$")


def _destination(scheme, value):
    """(host, port) a Host header / authority value names under ``scheme`` (RFC 9110 7.2 / 4.2: a missing port is the scheme's default)."""
    t = _text(value)
    m = _HOSTPORT.match(t) if isinstance(t, str) else None
    if not m:
        return None
    host = m["host"]
    if host.startswith("[") and host.endswith("]"):
        host = host[1:-1]
    return host.lower(), int(m["port"]) if m["port"] else RFC.get(_s(scheme))


_SCOPES = (ast.FunctionDef, ast.AsyncFunctionDef, ast.ClassDef, ast.Lambda)


def _own(st):
    """Nodes of a module-level statement that run when the module is imported (bodies of nested defs / classes / lambdas excluded)."""
    stack = [st]
    while stack:
        n = stack.pop()
        yield n
        for ch in ast.iter_child_nodes(n):
            if not isinstance(ch, _SCOPES):
                stack.append(ch)


def _root(e):
    """Name at the bottom of an attribute / subscript / call-receiver chain (``T.setdefault(k, []).append`` -> ``T``)."""
    while True:
        if isinstance(e, (ast.Attribute, ast.Subscript, ast.Starred)):
            e = e.value
        elif isinstance(e, ast.Call):
            e = e.func
        else:
            return e.id if isinstance(e, ast.Name) else None


def _touched(st):
    """Module-level names a top-level statement binds, rebinds, deletes or may mutate in place: plain / tuple / for / with / walrus
    targets, ``N[k] = v``, ``N.a = v``, ``del N[k]``, ``N += ..``, and - in expression statements, also nested in loops and branches -
    method calls on N (``N.update(..)``, ``N.setdefault(k, []).append(v)``) and calls that receive N as an argument (``_fill(N)``)."""
    out = set()
    for n in _own(st):
        if isinstance(n, ast.Name) and isinstance(n.ctx, (ast.Store, ast.Del)):
            out.add(n.id)
        elif isinstance(n, (ast.Attribute, ast.Subscript)) and isinstance(n.ctx, (ast.Store, ast.Del)):
            r = _root(n)
            if r:
                out.add(r)
        elif isinstance(n, ast.Expr) and isinstance(n.value, (ast.Call, ast.Await)):
            for c in ast.walk(n.value):
                if isinstance(c, ast.Call):
                    if isinstance(c.func, ast.Attribute):
                        r = _root(c.func)
                        if r:
                            out.add(r)
                    for a in list(c.args) + [k.value for k in c.keywords]:
                        if isinstance(a, ast.Name):
                            out.add(a.id)
    return out


class ModuleBuild:
    """pyint mix-in: a module-level name is what the module's top-level statements leave in it, not the value of its last
    assignment.  ``T = {}`` followed by a ``for`` loop that fills it, ``T.update(..)``, ``T[k] = v``, ``T += [..]``, a table built
    under ``if`` / ``try`` ... are evaluated by interpreting the backward slice of the module body for the name: in source order, every
    top-level statement that binds or may mutate the name, plus (transitively) the statements that build the other module-level names
    those statements read whenever these are not plain single assignments themselves.  Names bound exactly once by a plain
    ``NAME = expr`` / ``NAME: T = expr`` keep the interpreter's lazy evaluation."""

    def _touch_index(self, mod):
        per = mod.__dict__.get("_c33_touch_index")  # (a parsed module never changes: computed once per module object)
        if per is None:
            per = {}
            for i, st in enumerate(mod.tree.body):
                if isinstance(st, (ast.FunctionDef, ast.AsyncFunctionDef, ast.ClassDef, ast.Import, ast.ImportFrom)):
                    continue
                for n in _touched(st):
                    per.setdefault(n, []).append(i)
            mod.__dict__["_c33_touch_index"] = per
        return per

    @staticmethod
    def _plain(st, name):
        if isinstance(st, ast.Assign):
            return len(st.targets) == 1 and isinstance(st.targets[0], ast.Name) and st.targets[0].id == name
        return isinstance(st, ast.AnnAssign) and isinstance(st.target, ast.Name) and st.target.id == name and st.value is not None

    def _slice_of(self, mod, name):
        """Indices of the top-level statements to interpret for ``name`` (None: a plain single assignment - nothing to do)."""
        per = self._touch_index(mod)
        body = mod.tree.body
        mine = per.get(name, [])
        if len(mine) == 1 and self._plain(body[mine[0]], name):
            return None
        if not mine:
            return None
        last = max(mine)
        chosen, todo, seen = set(), [name], {name}
        while todo:
            n = todo.pop()
            for i in per.get(n, []):
                if i > last or i in chosen:
                    continue
                chosen.add(i)
                for x in _own(body[i]):
                    if isinstance(x, ast.Name) and isinstance(x.ctx, ast.Load) and x.id not in seen and (mod.rel, x.id) not in self.overrides:
                        where = per.get(x.id, [])
                        if where and not (len(where) == 1 and self._plain(body[where[0]], x.id)):
                            seen.add(x.id)
                            todo.append(x.id)
        return sorted(chosen)

    def modconst(self, mod, name, depth):
        key = (mod.rel, name)
        if key in self._modconst:
            return self._modconst[key]
        sl = self._slice_of(mod, name)
        if sl is None:
            return super().modconst(mod, name, depth)
        building = getattr(self, "_building", None)
        if building is None:
            building = self._building = set()
        if key in building:
            raise AnalysisError(f"pyint: module-level name {name} of {mod.rel} is read while the statements that build it are interpreted (shape not modelled)")
        building.add(key)
        try:
            env: dict = {}
            for i in sl:
                self.stmt(mod.tree.body[i], env, mod, depth)
        finally:
            building.discard(key)
        if name not in env:
            raise AnalysisError(f"pyint: module-level name {name} of {mod.rel} is unbound after the statements that build it")
        self._modconst[key] = env[name]
        return env[name]

    def name(self, ident, env, mod, depth, node):
        # names bound only by compound module-level statements (no plain assignment at all: `for K in ..: T[K] = ..` leaves K; `try: X = a
        # except: X = b`) are module constants too
        if ident not in env and "$closure" not in env and (mod.rel, ident) not in self.overrides and mod.get(ident) is None and ident not in mod.imports \
                and not mod.assigns(ident) and ident in self._touch_index(mod) and any(
                    isinstance(n, ast.Name) and n.id == ident and isinstance(n.ctx, ast.Store) for i in self._touch_index(mod)[ident] for n in _own(mod.tree.body[i])):
            if not any(isinstance(t, (ast.Tuple, ast.List)) and any(isinstance(e, ast.Name) and e.id == ident for e in t.elts)
                       for st in mod.tree.body if isinstance(st, ast.Assign) for t in st.targets):  # (flat tuple assignment: the interpreter's own rule)
                return self.modconst(mod, ident, depth)
        return super().name(ident, env, mod, depth, node)


class _Interp(ModuleBuild, SeqPatterns, Interp):
    pass


def _interp(ctx):
    # logging added to the accessors is transparent: the logging module and every logger are the interpreter's null logger
    return _Interp(ctx.model, trusted_modules={"re": _re, "urllib": _urllib, "ipaddress": _ipaddress, "logging": NullLog()})


# ---------------------------------------------------------------------------------------------------
# R33.3 def-use closure

_PARSERS = {
    "urlparse": ("scheme", "netloc", "path", "params", "query", "fragment"),
    "urlsplit": ("scheme", "netloc", "path", "query", "fragment"),
}
_TARGET_PARTS = ("path", "params", "query", "fragment")  # what belongs to the request target
_DERIVE = ("encode", "decode", "_replace")  # methods of a parse result that return a parse result of the same kind
_WHOLE = ("geturl",)


def _bindings(fn):
    """name -> [value expressions] for every binding of a local name in fn (flow-insensitive; nested defs excluded)."""
    out: dict[str, list] = {}

    def names(t):
        if isinstance(t, ast.Name):
            yield t.id
        elif isinstance(t, (ast.Tuple, ast.List)):
            for e in t.elts:
                yield from names(e)
        elif isinstance(t, ast.Starred):
            yield from names(t.value)

    def visit(node):
        for ch in ast.iter_child_nodes(node):
            if isinstance(ch, (ast.FunctionDef, ast.AsyncFunctionDef, ast.Lambda, ast.ClassDef)):
                continue
            if isinstance(ch, ast.Assign):
                for t in ch.targets:
                    for n in names(t):
                        out.setdefault(n, []).append((t, ch.value))
            elif isinstance(ch, (ast.AnnAssign, ast.AugAssign)) and ch.value is not None:
                for n in names(ch.target):
                    out.setdefault(n, []).append((ch.target, ch.value))
            elif isinstance(ch, ast.NamedExpr):
                out.setdefault(ch.target.id, []).append((ch.target, ch.value))
            elif isinstance(ch, (ast.For, ast.AsyncFor)):
                for n in names(ch.target):
                    out.setdefault(n, []).append((ch.target, ch.iter))
            elif isinstance(ch, (ast.With, ast.AsyncWith)):
                for it in ch.items:
                    if it.optional_vars is not None:
                        for n in names(it.optional_vars):
                            out.setdefault(n, []).append((it.optional_vars, it.context_expr))
            visit(ch)

    visit(fn)
    return out


def _parse_components(fn, expr, what):
    """(parser kind, {component names expr may depend on}) through the def-use closure of ``fn``; 'ALL' marks a use of a whole parse result."""
    binds = _bindings(fn)
    # parse-result variables: bound to urlparse()/urlsplit() or to <parse result>.encode()/.decode()/._replace()
    pvars: dict[str, str] = {}
    unpacked: dict[str, tuple[str, str]] = {}  # name -> (kind, component) for 'a, b, c = urlparse(u)'
    changed = True
    while changed:
        changed = False
        for name, bs in binds.items():
            for tgt, v in bs:
                kind = None
                if isinstance(v, ast.Call) and last_attr(v.func) in _PARSERS:
                    kind = last_attr(v.func)
                elif isinstance(v, ast.Call) and isinstance(v.func, ast.Attribute) and v.func.attr in _DERIVE and isinstance(v.func.value, ast.Name) and v.func.value.id in pvars:
                    kind = pvars[v.func.value.id]
                elif isinstance(v, ast.Name) and v.id in pvars:
                    kind = pvars[v.id]
                if kind is None:
                    continue
                if isinstance(tgt, ast.Name):
                    if pvars.get(name) != kind:
                        if name in pvars:
                            raise AnalysisError(f"{what}: {name!r} holds results of different URL parsers (shape not modelled)")
                        pvars[name] = kind
                        changed = True
                elif isinstance(tgt, (ast.Tuple, ast.List)) and len(tgt.elts) == len(_PARSERS[kind]) and all(isinstance(e, ast.Name) for e in tgt.elts):
                    for e, comp in zip(tgt.elts, _PARSERS[kind]):
                        if unpacked.get(e.id) != (kind, comp):
                            unpacked[e.id] = (kind, comp)
                            changed = True
                else:
                    raise AnalysisError(f"{what}: parse result unpacked in a shape that is not modelled: {ast.unparse(tgt)}")
    found: set[tuple[str, str]] = set()
    seen: set[str] = set()

    def deps(e):
        skip = set()
        for n in ast.walk(e):
            if id(n) in skip:
                continue
            if isinstance(n, ast.Attribute) and isinstance(n.value, ast.Name) and n.value.id in pvars:
                kind = pvars[n.value.id]
                skip.add(id(n.value))
                if n.attr in _PARSERS[kind]:
                    found.add((kind, n.attr))
                elif n.attr in _WHOLE + _DERIVE:
                    found.add((kind, "ALL"))  # a (re-encoded / partly replaced) copy of the whole result is handed on: over-approximate
                elif n.attr not in ("hostname", "port", "username", "password"):
                    raise AnalysisError(f"{what}: attribute {n.attr!r} of a parse result is not modelled")
            elif isinstance(n, ast.Subscript) and isinstance(n.value, ast.Name) and n.value.id in pvars:
                kind = pvars[n.value.id]
                skip.add(id(n.value))
                comps = _PARSERS[kind]
                sl = n.slice
                if isinstance(sl, ast.Constant) and isinstance(sl.value, int) and -len(comps) <= sl.value < len(comps):
                    found.add((kind, comps[sl.value]))
                elif isinstance(sl, ast.Slice) and all(x is None or (isinstance(x, ast.Constant) and isinstance(x.value, int)) for x in (sl.lower, sl.upper, sl.step)):
                    for c in comps[slice(*(x.value if x is not None else None for x in (sl.lower, sl.upper, sl.step)))]:
                        found.add((kind, c))
                else:
                    found.add((kind, "ALL"))
            elif isinstance(n, ast.Name) and isinstance(n.ctx, ast.Load):
                if n.id in pvars:
                    found.add((pvars[n.id], "ALL"))  # the whole object is handed on
                elif n.id in unpacked:
                    found.add(unpacked[n.id])
                elif n.id in binds and n.id not in seen:
                    seen.add(n.id)
                    for _, v in binds[n.id]:
                        deps(v)

    deps(expr)
    kinds = {k for k, _ in found}
    if len(kinds) != 1:
        raise AnalysisError(f"{what}: the returned path is derived from {sorted(kinds) or 'no'} stdlib URL parser result(s) (shape not modelled)")
    kind = kinds.pop()
    comps = {c for _, c in found}
    return kind, (set(_PARSERS[kind]) if "ALL" in comps else comps)


def _param_deps(fn, expr):
    """Parameters of fn that ``expr`` may depend on (def-use closure)."""
    binds = _bindings(fn)
    ps = set(params(fn, drop_self=False))
    out, seen = set(), set()

    def deps(e):
        for n in ast.walk(e):
            if isinstance(n, ast.Name) and isinstance(n.ctx, ast.Load):
                if n.id in ps:
                    out.add(n.id)
                if n.id in binds and n.id not in seen:
                    seen.add(n.id)
                    for _, v in binds[n.id]:
                        deps(v)

    deps(expr)
    return out


# ---------------------------------------------------------------------------------------------------
# R33.1 edits, interpreted

OLD_HOST = "old.example"
KINDS = ("host-header", "authority", "both", "neither")
TARGET = "/p;x?q=1"
URL_EDITS = [(ns, np, OLD_HOST, True) for ns in RFC for np in (80, 443, 8081)] + [(ns, RFC[ns], OLD_HOST, False) for ns in RFC] + [
    ("http", 80, "new.example", False), ("https", 8081, "new.example", True), ("https", 443, "192.0.2.7", True)]


def _ref_hostport(scheme, host, port):
    return host if RFC[scheme] == port else f"{host}:{port}"


def _make_request(scheme, host, port, kind):
    hp = _ref_hostport(scheme, host, port)
    items = {"Accept": "*/*"}
    if kind in ("host-header", "both"):
        items["Host"] = hp
    hdr = DictRec("Headers", items=items, case_insensitive=True, _name="request.headers")
    mux = kind in ("authority", "both")
    data = Rec("RequestData", _bases=("MessageData",), _name="request.data", host=host, port=port, method=b"GET", scheme=scheme.encode(), authority=hp.encode() if mux else b"",
               path=b"/old", http_version=b"HTTP/2.0" if mux else b"HTTP/1.1", headers=hdr, content=None, trailers=None, timestamp_start=1.0, timestamp_end=None)
    return Rec("Request", _bases=("Message",), _impl=(HTTP, "Request"), _name="request", data=data)


def _host_header(req):
    h = req.data.headers
    if not isinstance(h, DictRec):
        return None
    for k, v in h._items.items():
        if _text(k).lower() == "host":
            return v
    return None


def _snapshot(req):
    d = {k: v for k, v in vars(req.data).items() if not k.startswith("_") and k != "headers"}
    h = req.data.headers
    d["headers"] = tuple(sorted((_text(k).lower(), _text(v)) for k, v in h._items.items())) if isinstance(h, DictRec) else repr(h)
    return d


def _set(it, ctx, req, attr, value):
    tgt = ast.Attribute(value=ast.Name(id="$o", ctx=ast.Load()), attr=attr, ctx=ast.Store())
    it.assign(tgt, value, {"$o": req}, ctx.model.module(HTTP), 0)


def _on_target(req, kind, scheme, host, port):
    """What is wrong with Host / authority of a request that should now point at (host, port)."""
    out = []
    want = (host.lower(), port)
    hv = _host_header(req)
    if hv is None:
        if kind in ("host-header", "both"):
            out.append("the existing Host header is gone")
    elif _destination(scheme, hv) != want:
        out.append(f"the Host header is {_text(hv)!r}, which under {scheme} names {_destination(scheme, hv)} instead of {want}")
    au = req.data.authority
    if not au:
        if kind in ("authority", "both"):
            out.append("the authority was cleared")
    elif _destination(scheme, au) != want:
        out.append(f"the authority is {_text(au)!r}, which under {scheme} names {_destination(scheme, au)} instead of {want}")
    return out


def _ref_parse(u):
    """(scheme, host, port, request target) a URL denotes, by the stdlib splitter and the RFC default ports."""
    sp = _up.urlsplit(u)
    rest = u.split("://", 1)[1] if "://" in u else ""
    target = rest[len(sp.netloc):]
    if not target.startswith("/"):
        target = "/" + target
    try:
        port = sp.port
    except ValueError:
        return None
    return sp.scheme, (sp.hostname or "").lower(), port or RFC.get(sp.scheme), target


def _edits(ctx):
    req_cls = ctx.model.cls(HTTP, "Request")
    for n in ("_update_host_and_authority",):
        if ctx.model.has(HTTP, f"Request.{n}"):
            ctx.func(HTTP, f"Request.{n}")
    ctx.functions.update({f"{HTTP}::Request.host.setter", f"{HTTP}::Request.port.setter", f"{HTTP}::Request.url", f"{HTTP}::Request.url.setter"})
    bad = {"host": [], "port": [], "url-set": [], "url-get": []}
    runs = 0
    shared = _interp(ctx)

    def fresh():
        shared.steps = 0  # the step bound guards one interpreted edit, not the whole table
        return shared

    def attempt(key, what, fn):
        try:
            return fn()
        except Raised as r:
            bad[key].append(f"{what}: raises {r.name}")
            return None

    for old_scheme in RFC:
        for old_port in (80, 443, 8080):
            for kind in KINDS:
                state = f"{old_scheme}://{OLD_HOST}:{old_port} [{kind}]"
                # host edits
                for new_host in ("new.example",):
                    it, req = fresh(), _make_request(old_scheme, OLD_HOST, old_port, kind)
                    runs += 1
                    if attempt("host", f"{state} host = {new_host!r}", lambda: (_set(it, ctx, req, "host", new_host), True)[1]):
                        probs = ([] if req.data.host == new_host else [f"host reads back as {req.data.host!r}"]) + _on_target(req, kind, old_scheme, new_host, old_port)
                        bad["host"] += [f"{state} host = {new_host!r}: {p}" for p in probs]
                # port edits
                for new_port in (80, 443, 8081):
                    it, req = fresh(), _make_request(old_scheme, OLD_HOST, old_port, kind)
                    runs += 1
                    if attempt("port", f"{state} port = {new_port}", lambda: (_set(it, ctx, req, "port", new_port), True)[1]):
                        probs = ([] if req.data.port == new_port else [f"port reads back as {req.data.port!r}"]) + _on_target(req, kind, old_scheme, OLD_HOST, new_port)
                        bad["port"] += [f"{state} port = {new_port}: {p}" for p in probs]
                # url edits (requests that carry both or neither of Host header / authority; same and new host, explicit and implied port)
                if kind not in ("both", "neither"):
                    continue
                for ns, np, nh, explicit in URL_EDITS:
                    u = f"{ns}://{nh}:{np}{TARGET}" if explicit else f"{ns}://{nh}{TARGET}"
                    it, req = fresh(), _make_request(old_scheme, OLD_HOST, old_port, kind)
                    runs += 1
                    what = f"{state} url = {u!r}"
                    if not attempt("url-set", what, lambda: (_set(it, ctx, req, "url", u), True)[1]):
                        continue
                    d = req.data
                    probs = []
                    if (_s(d.scheme), d.host, d.port, _s(d.path)) != (ns, nh, np, TARGET):
                        probs.append(f"components read back as {(_s(d.scheme), d.host, d.port, _s(d.path))}, assigned {(ns, nh, np, TARGET)}")
                    probs += _on_target(req, kind, ns, nh, np)
                    bad["url-set"] += [f"{what}: {p}" for p in probs]
                    if probs:
                        continue
                    got = attempt("url-get", what + "; reading url", lambda: it.getattr(req, "url", None, 0))
                    if got is None:
                        continue
                    if not isinstance(got, str) or _ref_parse(got) != (ns, nh, np, TARGET):
                        bad["url-get"].append(f"{what}: url reads back as {got!r}, which denotes {_ref_parse(got) if isinstance(got, str) else None} instead of {(ns, nh, np, TARGET)}")
                        continue
                    before = _snapshot(req)
                    if attempt("url-get", what + "; url = url", lambda: (_set(it, ctx, req, "url", got), True)[1]) and _snapshot(req) != before:
                        after = _snapshot(req)
                        bad["url-get"].append(f"{what}: assigning the URL read back ({got!r}) changes {sorted(k for k in before if before[k] != after.get(k))}")
    ctx.cells += runs
    from ._helpers_E import prop_parts

    parts = {n: prop_parts(req_cls, n) for n in ("host", "port", "url")}
    ctx.require(all(g is not None and s is not None for g, s in parts.values()), "Request.host / port / url property vanished")
    for key, name, node, text, why in (
        ("host", "Request.host.setter", parts["host"][1], "host edit keeps Host / authority on target", "after request.host = h the new host must read back and an existing Host header / non-empty authority must name (h, port)"),
        ("port", "Request.port.setter", parts["port"][1], "port edit keeps Host / authority on target", "after request.port = p the new port must read back and an existing Host header / non-empty authority must name (host, p)"),
        ("url-set", "Request.url.setter", parts["url"][1], "url assignment stores all components and keeps Host / authority on target",
         "after request.url = u scheme, host, port and path must read back as u's components and an existing Host header / non-empty authority must name u's destination"),
        ("url-get", "Request.url", parts["url"][0], "url reads back as assigned, re-assigning it changes nothing", "request.url must denote the URL that was assigned and assigning it again must change nothing"),
    ):
        ctx.check(not bad[key], "R33.1", (HTTP, name, node), text, why + ": " + " | ".join(bad[key][:3]) + (f" (+{len(bad[key]) - 3} more)" if len(bad[key]) > 3 else ""),
                  desc=f"{name}: {text} ({runs} interpreted edits over scheme x port x Host/authority present)")

    # url.hostport names (host, port), for str and bytes
    hpf = ctx.func(URL, "hostport")
    probs = []
    for scheme in ("http", "https"):
        for port in (80, 443, 8080):
            for as_bytes in (False, True):
                host = "h.example"
                a = (scheme.encode(), host.encode(), port) if as_bytes else (scheme, host, port)
                ctx.cells += 1
                try:
                    r = _interp(ctx).call(URL, "hostport", *a)
                except Raised as e:
                    probs.append(f"hostport{a} raises {e.name}")
                    continue
                if type(r) is not type(a[1]) or _destination(scheme, r) != (host, port):
                    probs.append(f"hostport{a} = {r!r}, which names {_destination(scheme, r) if isinstance(r, (str, bytes)) else None}")
    ctx.check(not probs, "R33.1", (URL, "hostport", hpf), "hostport names (host, port) under the scheme", "url.hostport must render host and port so that, with the scheme's default port filled in, exactly (host, port) is named "
              "(the Host header / authority / URL written from it would point elsewhere): " + " | ".join(probs[:3]), desc="url.hostport: names (host, port) for str and bytes, 12 cells")


# ---------------------------------------------------------------------------------------------------
# R33.3 parse / unparse on samples

PUNY = "xn--bcher-kva.example"
SAMPLES = [  # url, scheme, host, port, path
    ("http://example.com", "http", "example.com", 80, "/"),
    ("https://example.com/", "https", "example.com", 443, "/"),
    ("http://example.com:8080/a/b", "http", "example.com", 8080, "/a/b"),
    ("https://example.com:444/shop/cart;jsessionid=0A1B?item=42#frag", "https", "example.com", 444, "/shop/cart;jsessionid=0A1B?item=42#frag"),
    ("http://example.com/list;page=2", "http", "example.com", 80, "/list;page=2"),
    ("http://example.com/a;v=1/b?sort=asc", "http", "example.com", 80, "/a;v=1/b?sort=asc"),
    ("http://example.com/?q=1&r=2", "http", "example.com", 80, "/?q=1&r=2"),
    ("https://example.com/p#frag", "https", "example.com", 443, "/p#frag"),
    ("http://example.com?q=1", "http", "example.com", 80, "/?q=1"),
    (f"https://{PUNY}:8443/p?q", "https", PUNY, 8443, "/p?q"),
    ("http://192.0.2.7:8080/x", "http", "192.0.2.7", 8080, "/x"),
    ("https://192.0.2.7/x", "https", "192.0.2.7", 443, "/x"),
]


def _parse_unparse(ctx):
    parse = ctx.func(URL, "parse")
    unp = ctx.func(URL, "unparse")
    pb, ub, rb = [], [], []
    for u, scheme, host, port, path in SAMPLES:
        want = (scheme.encode(), host.encode(), port, path.encode())
        for arg in (u, u.encode()):
            ctx.cells += 1
            try:
                got = _interp(ctx).call(URL, "parse", arg)
            except Raised as e:
                pb.append(f"parse({arg!r}) raises {e.name}")
                continue
            if got != want:
                pb.append(f"parse({arg!r}) = {got!r}, expected {want!r}")
        for a in ((scheme, host, port, path), want):
            ctx.cells += 1
            try:
                got = _interp(ctx).call(URL, "unparse", *a)
            except Raised as e:
                ub.append(f"unparse{a} raises {e.name}")
                continue
            if type(got) is not type(a[0]) or _ref_parse(_s(got)) != (scheme, host, port, path):
                ub.append(f"unparse{a} = {got!r}, which denotes {_ref_parse(_s(got)) if isinstance(got, (str, bytes)) else None}")
        ctx.cells += 1
        try:
            it = _interp(ctx)
            back = it.call(URL, "unparse", *it.call(URL, "parse", u))
        except Raised as e:
            rb.append(f"unparse(*parse({u!r})) raises {e.name}")
            continue
        if not isinstance(back, (str, bytes)) or _ref_parse(_s(back)) != (scheme, host, port, path):
            rb.append(f"unparse(*parse({u!r})) = {back!r}")
    ctx.check(not pb, "R33.3", (URL, "parse", parse), "url.parse returns (scheme, host, port, path;params?query#fragment)",
              "url.parse loses or alters a URL component - the URL read back (and the request sent upstream) names another resource: " + " | ".join(pb[:3]) + (f" (+{len(pb) - 3} more)" if len(pb) > 3 else ""),
              desc=f"url.parse: {len(SAMPLES)} sample URLs (str and bytes) parse into exactly their components")
    ctx.check(not ub, "R33.3", (URL, "unparse", unp), "url.unparse denotes its four arguments", "url.unparse builds a URL that does not denote (scheme, host, port, path): " + " | ".join(ub[:3]),
              desc=f"url.unparse: {len(SAMPLES)} component tuples (str and bytes) are rebuilt into a URL that denotes them")
    ctx.check(not rb, "R33.3", (URL, "unparse", unp), "unparse(parse(u)) denotes u", "a URL does not survive url.parse followed by url.unparse: " + " | ".join(rb[:3]), desc="unparse(*parse(u)) denotes u on all samples")

    # supplementary: may-dependence over ALL urls (sound when it fires; skipped when the function does not have the modelled shape)
    try:
        rets = [n for n in ast.walk(parse) if isinstance(n, ast.Return) and n.value is not None and n._parent is parse]
        if len(rets) != 1 or not isinstance(rets[0].value, ast.Tuple) or len(rets[0].value.elts) != 4:
            raise AnalysisError("url.parse does not end in a single 'return a, b, c, d'")
        kind, comps = _parse_components(parse, rets[0].value.elts[3], "url.parse")
        for c in [c for c in _PARSERS[kind] if c in _TARGET_PARTS]:
            ctx.check(c in comps, "R33.3", (URL, "parse", rets[0]), f"url.parse: returned path does not depend on {kind}().{c}",
                      f"url.parse splits the URL with urllib.parse.{kind}, which moves the {c!r} piece out of the other components, but the path it returns is computed only from {sorted(comps)}: "
                      f"every URL that carries a {c} component reads back (and is sent upstream) without it", desc=f"url.parse: path <- {kind}().{c}")
        up_params = params(unp, drop_self=False)
        u_rets = [n for n in ast.walk(unp) if isinstance(n, ast.Return) and n.value is not None]
        lost = sorted({p for r in u_rets for p in set(up_params) - _param_deps(unp, r.value)})
        ctx.check(not lost, "R33.3", (URL, "unparse", unp), f"url.unparse: a returned URL does not depend on {lost}",
                  f"url.unparse builds a URL (on at least one return) without its {lost} component: Request.url no longer reflects the request", desc=f"url.unparse: every return <- {up_params}")
    except AnalysisError as e:
        ctx.note(f"R33.3 supplementary def-use closure skipped: {e}")


# ---------------------------------------------------------------------------------------------------
# R33.2 default-port tables


def _fold(expr, st, sp):
    """Constant folding for the table idioms a default-port site may use: tuple / list literals and constant subscripts."""
    from ..paths import C

    if isinstance(expr, (ast.Tuple, ast.List)) and expr.elts:
        vals = [sp.v(e, st) for e in expr.elts]
        if all(is_const(v) for v in vals):
            return C(tuple(v[1] for v in vals))
    if isinstance(expr, ast.BoolOp) and not all(isinstance(v, (ast.Compare, ast.BoolOp)) or (isinstance(v, ast.UnaryOp) and isinstance(v.op, ast.Not)) for v in expr.values):
        return ("u",)  # ``a or b`` yields one of its operands, not a truth value
    if isinstance(expr, ast.Subscript):
        base, idx = sp.v(expr.value, st), sp.v(expr.slice, st)
        if is_const(base) and is_const(idx) and isinstance(base[1], tuple) and isinstance(idx[1], int) and -len(base[1]) <= idx[1] < len(base[1]):
            return C(base[1][idx[1]])
    return None


class _SinkSpec(ASpec):
    """ASpec that reports constant-carrying writes to chosen attribute sinks (('port'|'scheme', value) events), also for
    ``x.attr = A if c else B`` (the engine binds the arms itself), with local aliases of the target's root expanded."""

    def __init__(self, sinks, **kw):
        super().__init__(**kw)
        self._sinks = sinks  # [(kind, (suffixes...))]
        self.atoms_seen = set()

    def chain(self, e, st):
        parts = []
        while isinstance(e, ast.Attribute):
            parts.append(e.attr)
            e = e.value
        if not isinstance(e, ast.Name):
            return None
        root = e.id
        v = st.get(f"0:{root}") if root != "self" else None
        if isinstance(v, tuple) and len(v) == 2 and v[0] == "r":
            root = v[1]
        return ".".join([root] + parts[::-1])

    def bind(self, target, value_expr, st, depth, value=None):
        v = value if value is not None else self.value(value_expr, st, depth)
        st = super().bind(target, value_expr, st, depth, value=v)
        if isinstance(target, ast.Attribute):
            ch = self.chain(target, st) or ""
            for kind, suffixes in self._sinks:
                if any(ch == s or ch.endswith("." + s) for s in suffixes):
                    st = st.emit((kind, v))
        return st


def _default_ports(ctx):
    def table(site, where, tab, node):
        ctx.cells += len(tab)
        complete = {_s(k) for k in tab} == set(RFC) and (site != "url.default_port" or {type(k) for k in tab if _s(k) == "http"} == {type(k) for k in tab if _s(k) == "https"} == {str, bytes})
        ctx.check(complete and all(RFC.get(_s(k)) == v for k, v in tab.items()),
                  "R33.2", where + (node,), f"{site}: {dict(sorted(((repr(k), v) for k, v in tab.items()), key=repr))}",
                  f"{site} defaults ports differently from {RFC}: a URL without an explicit port and its re-rendered form denote different destinations",
                  desc=f"{site}: {sorted(((_s(k), v) for k, v in tab.items()), key=repr)}")

    def run(it, rel, qual, *args):
        try:
            return it.call(rel, qual, *args)
        except Raised as e:
            return f"<raises {e.name}>"

    def port_of(site, run_with):
        """{scheme: defaulted port}: the position of the port in the result is found with an explicit sentinel port."""
        probe = run_with("http", 8444)
        idx = [i for i, v in enumerate(probe) if v == 8444 and isinstance(v, int)] if isinstance(probe, (tuple, list)) else []
        ctx.require(len(idx) == 1, f"{site}: position of the port in the result not found ({probe!r})")
        out = {}
        for scheme in RFC:
            r = run_with(scheme, None)
            out[scheme] = r[idx[0]] if isinstance(r, (tuple, list)) and len(r) == len(probe) else r
        return out

    dp = ctx.func(URL, "default_port")
    table("url.default_port", (URL, "default_port"), {k: run(_interp(ctx), URL, "default_port", k) for k in ("http", b"http", "https", b"https")}, dp)

    parse = ctx.func(URL, "parse")
    table("url.parse", (URL, "parse"), port_of("url.parse", lambda s, p: run(_interp(ctx), URL, "parse", f"{s}://example.com{':%d' % p if p else ''}/x")), parse)

    h2 = ctx.func(H2, "parse_h2_request_headers")

    def h2_run(s, p):
        it = _interp(ctx)
        for rel in (HTTP, H2):
            it.overrides[(rel, "Headers")] = lambda fields=(), **kw: ("Headers", tuple(fields))
        return run(it, H2, "parse_h2_request_headers", [(b":method", b"GET"), (b":scheme", s.encode()), (b":path", b"/x"), (b":authority", b"example.com" + (b":%d" % p if p else b""))])

    table("parse_h2_request_headers", (H2, "parse_h2_request_headers"), port_of("parse_h2_request_headers", h2_run), h2)

    rl = ctx.func(READ, "_read_request_line")
    table("_read_request_line", (READ, "_read_request_line"), port_of("_read_request_line", lambda s, p: run(_interp(ctx), READ, "_read_request_line", b"GET %s://example.com%s/x HTTP/1.1" % (s.encode(), b":%d" % p if p else b""))), rl)

    # HttpStream.state_wait_for_request_headers: the constant port written to the request belongs to the scheme written on the same path
    hs = ctx.func(HS, "HttpStream.state_wait_for_request_headers")

    def tls_atom(expr, st, sp):
        ch = sp.chain(expr, st) if isinstance(expr, ast.Attribute) else None
        if ch is None and isinstance(expr, ast.Name):
            v = st.get(f"0:{expr.id}")
            ch = v[1] if isinstance(v, tuple) and len(v) == 2 and v[0] == "r" else None
        if ch and ch.split(".")[-1] == "tls":
            sp.atoms_seen.add("TLS:" + ch)
            return ("TLS:" + ch, True)
        return None

    sinks = [("port", ("request.data.port", "request.port")), ("scheme", ("request.data.scheme", "request.scheme"))]
    probe = _SinkSpec(sinks, atom=tls_atom, val=_fold, unroll=1)
    run_block(hs.body, probe, {p: ("param", p) for p in params(hs)})
    pairs = set()
    atoms = sorted(probe.atoms_seen)
    ctx.require(len(atoms) <= 4, f"HttpStream.state_wait_for_request_headers: {len(atoms)} different .tls tests (shape not modelled)")
    for mask in range(2 ** len(atoms)):
        scenario = {a: bool(mask >> i & 1) for i, a in enumerate(atoms)}  # every test pinned: the port and the scheme it decides are taken on the same side
        if True:
            traces, _ = run_block(hs.body, _SinkSpec(sinks, atom=tls_atom, scenario=scenario, val=_fold, unroll=1), {p: ("param", p) for p in params(hs)})
            ctx.paths += len(traces)
            for tr, how, _ in traces:
                evs = [e for e in tr if e[0] in ("port", "scheme")]
                for i, e in enumerate(evs):
                    if e[0] == "port" and is_const(e[1]) and isinstance(e[1][1], int) and not isinstance(e[1][1], bool):
                        sch = [x for x in evs[i + 1:] if x[0] == "scheme"][:1] or [x for x in evs[:i] if x[0] == "scheme"][-1:]
                        ctx.require(sch and is_const(sch[0][1]) and isinstance(sch[0][1][1], (str, bytes)), "HttpStream.state_wait_for_request_headers: a constant default port is written without a constant scheme on the same path (shape not modelled)")
                        pairs.add((_s(sch[0][1][1]), e[1][1]))
    def via_default_port(fn):
        return any(isinstance(n, ast.Call) and last_attr(n.func) == "default_port" for n in ast.walk(fn))

    if not pairs and via_default_port(hs):
        ctx.ok("R33.2", "HttpStream.state_wait_for_request_headers: no port constants, defaults through url.default_port")
    else:
        ctx.require(pairs, "HttpStream.state_wait_for_request_headers: no defaulted port found (shape not modelled)")
        wrong = sorted(p for p in pairs if RFC.get(p[0]) != p[1])
        ctx.cells += len(pairs)
        ctx.check(not wrong and {s for s, _ in pairs} == set(RFC), "R33.2", (HS, "HttpStream.state_wait_for_request_headers", hs), f"HttpStream.state_wait_for_request_headers: {sorted(pairs)}",
                  f"the port filled in for a request without one does not belong to the scheme chosen by the same test ({RFC}): {wrong or sorted(pairs)}", desc=f"HttpStream.state_wait_for_request_headers: {sorted(pairs)}")

    # har.request_to_flow: the port of the server address follows the URL's scheme
    rtf = ctx.func(HAR, "request_to_flow")

    def url_atom(expr, st, sp):
        if isinstance(expr, ast.Call) and isinstance(expr.func, ast.Attribute) and expr.func.attr == "startswith" and len(expr.args) == 1 and isinstance(expr.args[0], ast.Constant) \
                and str(_s(expr.args[0].value)).lower() in ("http://", "https://", "http:", "https:"):
            return ("URL:" + str(_s(expr.args[0].value)).lower().split(":")[0], True)
        if isinstance(expr, ast.Compare) and len(expr.ops) == 1 and isinstance(expr.ops[0], (ast.Eq, ast.NotEq)):
            for a, b in ((expr.left, expr.comparators[0]), (expr.comparators[0], expr.left)):
                if isinstance(b, ast.Constant) and isinstance(b.value, (str, bytes)) and _s(b.value).lower().rstrip(":/") in RFC and not isinstance(a, ast.Constant):
                    return ("URL:" + _s(b.value).lower().rstrip(":/"), isinstance(expr.ops[0], ast.Eq))
        return None

    def har_label(node, st, sp):
        out = []
        for n in ast.walk(node):
            if isinstance(n, ast.Call) and last_attr(n.func) == "Server":
                addr = next((k.value for k in n.keywords if k.arg == "address"), None)
                if isinstance(addr, ast.Tuple) and len(addr.elts) == 2:
                    out.append(("port", sp.v(addr.elts[1], st), norm(addr.elts[1])))
        return out

    tab = {}
    for scheme in RFC:
        other = "https" if scheme == "http" else "http"
        traces, _ = run_block(rtf.body, ASpec(label=har_label, atom=url_atom, scenario={"URL:" + scheme: True, "URL:" + other: False}, val=_fold, unroll=1), {p: ("param", p) for p in params(rtf, drop_self=False)})
        ctx.paths += len(traces)
        seen = {e[1:] for tr, how, _ in traces for e in tr if e[0] == "port"}
        ctx.require(seen, "har.request_to_flow: no connection.Server(address=(host, port)) found (shape not modelled)")
        vals = set()
        for v, text in seen:
            if not (is_const(v) and isinstance(v[1], int) and not isinstance(v[1], bool)):
                ctx.require(via_default_port(rtf), f"har.request_to_flow: the server port {text} is not a constant decided by the URL's scheme (shape not modelled)")
                continue
            vals.add(v[1])
        if vals:
            tab[scheme] = vals.pop() if len(vals) == 1 else sorted(vals)
    if tab:
        table("har.request_to_flow", (HAR, "request_to_flow"), tab, rtf)
    else:
        ctx.ok("R33.2", "har.request_to_flow: no port constants, defaults through url.default_port")


def check(ctx):
    ctx.rule("R33.1", "host / port / url edits store the new components and leave an existing Host header and a non-empty authority naming the new destination; url reads back as assigned, idempotently; hostport names (host, port)")
    ctx.rule("R33.2", "every port-defaulting site agrees with {http: 80, https: 443}")
    ctx.rule("R33.3", "url.parse returns every component (path, ;params, ?query, #fragment) of the URL, url.unparse uses all four components, unparse(parse(u)) denotes u")
    ctx.trust("urllib.parse / re / str.encode('idna') (stdlib, executed as trusted library code by the interpreter); model of http.Headers as a case-insensitive mapping")
    ctx.bounds.append("Request accessors interpreted for old scheme {http, https} x old port {80, 443, 8080} x {Host header, authority, both, neither} x new host / port / URL samples")
    _edits(ctx)
    _parse_unparse(ctx)
    _default_ports(ctx)
    expect(ctx, "R33.1", 5)
    expect(ctx, "R33.2", 6)
    expect(ctx, "R33.3", 3)


MUTANTS = [
    Mutant("host-setter-no-update", HTTP, "        self.data.host = always_str(val, \"idna\", \"strict\")\n        self._update_host_and_authority()\n", "        self.data.host = always_str(val, \"idna\", \"strict\")\n", "R33.1"),
    Mutant("port-setter-updates-before-storing", HTTP, "        self.data.port = port\n        self._update_host_and_authority()\n", "        self._update_host_and_authority()\n        self.data.port = port\n", "R33.1"),
    Mutant("host-header-not-rewritten", HTTP, "        if \"Host\" in self.data.headers:\n            self.data.headers[\"Host\"] = val\n", "", "R33.1"),
    Mutant("authority-guard-inverted", HTTP, "        if self.data.authority:\n            self.authority = val\n", "        if not self.data.authority:\n            self.authority = val\n", "R33.1"),
    Mutant("hostport-from-pretty-host", HTTP, "val = url.hostport(self.scheme, self.host, self.port)", "val = url.hostport(self.scheme, self.pretty_host, self.port)", "R33.1"),
    Mutant("url-setter-swaps-host-port", HTTP, "self.scheme, self.host, self.port, self.path = url.parse(val)", "self.scheme, self.port, self.host, self.path = url.parse(val)", "R33.1"),
    Mutant("url-setter-scheme-last", HTTP, "        self.scheme, self.host, self.port, self.path = url.parse(val)  # type: ignore\n", "        scheme, self.host, self.port, self.path = url.parse(val)  # type: ignore\n        self.scheme = scheme\n", "R33.1"),
    Mutant("url-setter-skips-unchanged-host-port", HTTP, "        self.scheme, self.host, self.port, self.path = url.parse(val)  # type: ignore\n",
           "        scheme, host, port, path = url.parse(val)\n        self.scheme, self.path = scheme, path\n        if (self.host, self.port) != (host.decode(\"idna\"), port):\n            self.host, self.port = host, port\n", "R33.1"),
    Mutant("url-getter-swaps-args", HTTP, "        return url.unparse(self.scheme, self.host, self.port, path)\n\n    @url.setter", "        return url.unparse(self.scheme, self.port, self.host, path)\n\n    @url.setter", "R33.1"),
    Mutant("hostport-inverted", URL, "    if default_port(scheme) == port:\n        return host\n", "    if default_port(scheme) != port:\n        return host\n", "R33.1"),
    Mutant("hostport-never-with-port", URL, "    if default_port(scheme) == port:\n        return host\n    else:\n        if isinstance(host, bytes):", "    if port:\n        return host\n    else:\n        if isinstance(host, bytes):", "R33.1"),
    Mutant("default-port-table-https-8443", URL, "        \"https\": 443,\n", "        \"https\": 8443,\n", "R33.2"),
    Mutant("default-port-table-bytes-key-missing", URL, "        b\"https\": 443,\n", "", "R33.2"),
    Mutant("parse-defaults-swapped", URL, "port = 443 if parsed_b.scheme == b\"https\" else 80", "port = 443 if parsed_b.scheme == b\"http\" else 80", "R33.2"),
    Mutant("h2-default-port-swapped", H2, "port = 80 if scheme == b\"http\" else 443", "port = 80 if scheme == b\"https\" else 443", "R33.2"),
    Mutant("httpstream-default-port-swapped", HS, "port = 443 if self.context.client.tls else 80", "port = 80 if self.context.client.tls else 443", "R33.2"),
    Mutant("httpstream-scheme-by-other-test", HS, "                self.flow.request.scheme = (\n                    \"https\" if self.context.client.tls else \"http\"\n                )\n",
           "                self.flow.request.scheme = (\n                    \"http\" if self.context.client.tls else \"https\"\n                )\n", "R33.2"),
    Mutant("har-default-port-wrong", HAR, "    if request_url.startswith(\"http://\"):\n        port = 80\n    else:\n        port = 443\n", "    if request_url.startswith(\"http://\"):\n        port = 80\n    else:\n        port = 80\n", "R33.2"),
    Mutant("request-line-own-default", READ, "            port = port or url.default_port(scheme)\n", "            port = port or 80\n", "R33.2"),
    Mutant("parse-drops-params", URL, "    full_path: bytes = urllib.parse.urlunparse(\n        (b\"\", b\"\", parsed_b.path, parsed_b.params, parsed_b.query, parsed_b.fragment)  # type: ignore\n    )\n",
           "    full_path: bytes = parsed_b.path or b\"/\"\n    if parsed_b.query:\n        full_path += b\"?\" + parsed_b.query\n    if parsed_b.fragment:\n        full_path += b\"#\" + parsed_b.fragment\n", "R33.3"),
    Mutant("parse-drops-query", URL, "(b\"\", b\"\", parsed_b.path, parsed_b.params, parsed_b.query, parsed_b.fragment)", "(b\"\", b\"\", parsed_b.path, parsed_b.params, b\"\", parsed_b.fragment)", "R33.3"),
    Mutant("parse-returns-bare-path", URL, "    return parsed_b.scheme, host, port, full_path\n", "    return parsed_b.scheme, host, port, parsed_b.path or b\"/\"\n", "R33.3"),
    Mutant("unparse-bytes-drops-path", URL, "        return b\"%s://%s%s\" % (scheme, authority, path)\n", "        return b\"%s://%s/\" % (scheme, authority)\n", "R33.3"),
    Mutant("unparse-ignores-port", URL, "    authority = hostport(scheme, host, port)\n\n    if isinstance(scheme, str):", "    authority = host\n\n    if isinstance(scheme, str):", "R33.3"),
]
