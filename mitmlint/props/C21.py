"""C21 - SOCKS5 handshakes are parsed exactly and relay subsequent data.

Everything is decided on the model extracted from ``Socks5Proxy`` (+ ``DestinationKnown.finish_start``) on every run:
all paths of every state function, for every event the layer accepts, from every reachable abstract state (typestate
exploration, helper calls inlined, buffer lengths / indices as symbolic linear forms over the bytes of ``self.buf``).

  R21.1 buffer discipline (=> the outcome cannot depend on the segmentation):
        a  every DataReceived is appended to ``self.buf`` (``+=``) and then the current state function runs;
        b  a failed length test (``len(self.buf) < need``) returns immediately, and nothing but tests/reads happened since
           the state function was entered (re-running it on more data is equivalent);
        c  every ``self.buf[i]`` and every bounded slice ``self.buf[a:b]`` lies inside a length that was tested before on
           the same path (no IndexError, no silently truncated field);
        d  ``self.buf`` is only ever re-assigned to its own suffix ``self.buf[n:]`` with n == the length tested last
           (exactly the parsed message is consumed);
        e  after the request the leftover is forwarded to the child exactly once as DataReceived(client, self.buf), after
           the child's Start, and ``self.buf`` is deleted; nothing is forwarded when it is empty.
        f  the layer only ever *waits* (a DataReceived transition ends with the layer's own handler still installed)
           because the state function that is current at the end (``self.state``) was run on the final buffer and found it
           too short: it was entered after the last consumption / state change and the path ends in its failed length
           test.  Otherwise bytes that arrived in the same segment as the end of the previous message (greeting + auth +
           request pipelined) sit unparsed until some later segment arrives - the same bytes split differently work,
           so the outcome depends on the segmentation (and a client that waits for the reply hangs).
  R21.2 RFC 1928 / 1929 tables (cells evaluated by binding the relevant bytes):
        version byte 5 / other; method selection 05 00 (no auth) / 05 02 (proxyauth) / 05 FF.. (not offered) + next state;
        auth replies 01 00 / 01 01; request prefix 05 01 00 else reply 07; ATYP 1/3/4 message lengths 10 / 7+n / 22 else
        reply 08; host = inet_ntop(AF_INET, 4 bytes at 4) / inet_ntop(AF_INET6, 16 bytes at 4) / n bytes at 5; port = the
        last two bytes unpacked with "!H"; success reply 05 00 00 01 0*6; connect failure reply 05 04 00 01 0*6.
  R21.3 typestate: reachable (state, handler) pairs; a parse error ends in ``done`` after closing the client and nothing
        follows; ``context.server.address`` is written once, with the parsed (host, port), before the child exists;
        ``_handle_event`` is rebound to the child only inside ``finish_start``; connect failure => reply 04, close, done;
        ConnectionClosed closes; no exception escapes.
NOT decided: byte-level decoding by ``socket.inet_ntop`` / ``struct`` / ``bytes.decode`` (trusted), the event queueing of
``Layer`` while OpenConnection is pending (C04), the version byte of the RFC 1929 sub-negotiation (not checked by the code,
not demanded by the property).
"""

from __future__ import annotations

from ..core import AnalysisError
from ..paths import C
from ..paths import is_const
from ..paths import R
from ..paths import State
from ..selftest import Mutant
from ._helpers_C import as_lin
from ._helpers_C import explore_socks5
from ._helpers_C import is_obj
from ._helpers_C import LIN
from ._helpers_C import lin_add
from ._helpers_C import lin_ge
from ._helpers_C import lin_text
from ._helpers_C import MODES
from ._helpers_C import RefiningEngine
from ._helpers_C import Socks5Spec
from ._helpers_C import socks5_init_env

PROP = "C21"
REG = {
    "strength": "partial",
    "technique": "typestate exploration of the model extracted from Socks5Proxy's AST (all paths, helpers inlined, symbolic linear "
    "arithmetic over buffer bytes) + RFC 1928/1929 decision tables evaluated by binding handshake bytes",
    "claim": "on every path of the extracted Socks5Proxy model: data is appended then parsed; insufficient data returns without "
    "effect; every buffer read lies within a tested length; exactly the tested length is consumed; leftover bytes go to the child "
    "once; replies, lengths, address/port slices and state changes follow RFC 1928/1929; errors close and end the layer.",
    "note": "The model over-approximates (data-dependent tests fork both ways); inet_ntop / struct.unpack / decode are trusted; Layer's "
    "pausing while OpenConnection is pending belongs to C04.",
}

OWN = R("self._handle_event")
DONE = R("self.done")
CHILD = R("self.child_layer.handle_event")
ZEROS = b"\x00\x01" + b"\x00" * 6
EFFECTS = ("send", "close", "open", "hook", "buf:=", "buf+", "bufdel", "set", "addr:=", "child:=", "child_start", "child_data", "log")


def fmt(tr):
    return [str(e) for e in tr]


def r21_1(ctx, trans, where):
    bad = {}
    n_wait = n_consume = n_reads = n_left = n_quiescent = 0
    for src, kind, tr, dst, exc in trans:
        eff = [e for e in tr if e[0] != "c"]
        # a: append then dispatch
        if kind == "DataReceived":
            if not (len(eff) >= 2 and eff[0] == ("buf+", "event.data") and eff[1][0] == "enter" and eff[1][1] == src["self.state"][1]):
                bad.setdefault("a: DataReceived is not appended to self.buf before the current state function runs", tr)
        bounds = []  # lower bounds on len(self.buf) known on this path (current epoch)
        last_need = None
        seg_clean = True  # nothing but tests/reads since the state function was entered
        for i, e in enumerate(tr):
            if e[0] == "enter" and e[1].startswith("self.state_"):
                seg_clean = True
            elif e[0] == "c":
                for r in e[4]:
                    n_reads += 1
                    if isinstance(r, tuple) and r and r[0] == "upto" and not outcome_matters(trans, src, kind, tr, i, dst):
                        continue  # the test cannot change what the layer does (it only selects a log text)
                    check_read(r, bounds, bad, tr)
                if e[1] == "need":
                    if e[3]:  # insufficient data
                        n_wait += 1
                        if i != len(tr) - 1:
                            bad.setdefault("b: processing continues after a failed length test", tr)
                        if not seg_clean:
                            bad.setdefault("b: a state function has an effect before it finds the buffer too short (re-entry would repeat it)", tr)
                    else:
                        bounds.append(e[2])
                        last_need = e[2]
            elif e[0] == "read":
                n_reads += 1
                check_read(e[1], bounds, bad, tr)
            elif e[0] == "buf:=":
                v = e[1]
                if not (is_obj(v, "bufslice") and v[4] == C(None)):
                    bad.setdefault(f"d: self.buf is re-assigned to something that is not its own suffix: {v}", tr)
                elif last_need is None or v[3] != last_need:
                    bad.setdefault(f"d: {lin_text(v[3])} bytes are consumed but the length tested last was {lin_text(last_need) if last_need else 'none'}", tr)
                else:
                    n_consume += 1
                bounds, last_need = [], None
                seg_clean = False
            elif e[0] in EFFECTS and e[0] not in ("buf+", "log"):
                seg_clean = False
            elif e[0] == "buf+" and i > 3:
                bad.setdefault("a: self.buf is appended to in the middle of a state function", tr)
        # f: waiting is justified only by a failed length test of the state that is current at the end
        if kind == "DataReceived" and exc is None and dst.get("self._handle_event") == OWN:
            n_quiescent += 1
            cur = dst["self.state"][1] if dst["self.state"][0] == "r" else str(dst["self.state"])
            i_mod = max((i for i, e in enumerate(tr) if e[0] in ("buf:=", "buf+", "bufdel") or (e[0] == "set" and e[1] == "self.state")), default=-1)
            i_run = max((i for i, e in enumerate(tr) if e[0] == "enter" and e[1] == cur), default=-1)
            last = tr[-1] if tr else None
            if i_run < i_mod:
                what = {"buf:=": "consuming a message", "set": "switching to " + cur.replace("self.", ""), "buf+": "appending data", "bufdel": "deleting the buffer"}[tr[i_mod][0]]
                bad.setdefault(f"f: after {what} the layer waits for more data without running {cur.replace('self.', '')} on the bytes already buffered "
                               "(pipelined bytes are parsed only when a later segment arrives)", tr)
            elif not (last is not None and last[0] == "c" and last[1] == "need" and last[3]):
                bad.setdefault(f"f: the layer waits for more data although {cur.replace('self.', '')} did not find the buffer too short", tr)
        # e: leftover
        if dst.get("self._handle_event") == CHILD and src.get("self._handle_event") == OWN:
            i_set = next(i for i, e in enumerate(tr) if e[0] == "set" and e[2] == CHILD[1])
            rest = tr[i_set:]
            cd = [e for e in rest if e[0] == "child_data"]
            nonempty = [e[3] for e in rest if e[0] == "c" and e[1] == "buf"]
            if any(e[0] == "child_data" for e in tr[:i_set]):
                bad.setdefault("e: data is handed to the child before it became the handler", tr)
            if nonempty == [True]:
                n_left += 1
                names = [e[0] for e in rest if e[0] in ("child_start", "child_data", "bufdel", "buf:=")]
                if cd != [("child_data", ("self.context.client", "self.buf"))]:
                    bad.setdefault(f"e: leftover bytes are not forwarded exactly once as DataReceived(client, self.buf): {cd}", tr)
                elif names != ["child_start", "child_data", "bufdel"]:
                    bad.setdefault(f"e: order after the request is {names}, expected child Start, leftover data, del self.buf", tr)
            elif nonempty == [False]:
                if cd:
                    bad.setdefault("e: an empty leftover is forwarded to the child", tr)
            else:
                bad.setdefault("e: the leftover bytes are not tested / forwarded after the request (bytes sent with the request are lost)", tr)
    if not bad:
        ctx.require(n_wait >= 6 and n_consume >= 3 and n_reads >= 8 and n_left >= 1 and n_quiescent >= 6,
                    f"SOCKS5 model lost its buffer operations (waits={n_wait}, consumes={n_consume}, reads={n_reads}, leftovers={n_left}, waiting transitions={n_quiescent})")
    for msg, tr in sorted(bad.items()):
        ctx.fail("R21.1", where, msg, "the outcome of the handshake depends on how the client's bytes are segmented / bytes are lost or parsed twice", trace=fmt(tr))
    if not bad:
        ctx.ok("R21.1", f"append-then-parse on all DataReceived paths; {n_wait} short-buffer returns without effect; {n_reads} reads inside tested lengths; "
               f"{n_consume} consumptions of exactly the tested length; {n_left} leftover hand-overs; all {n_quiescent} waiting transitions end in a failed "
               "length test of the current state on the final buffer")


def project(tr, dst):
    return tuple(e for e in tr if e[0] in EFFECTS and e[0] != "log"), tuple(sorted(dst.items()))


def outcome_matters(trans, src, kind, tr, i, dst) -> bool:
    """Does the outcome of the test at tr[i] change any effect?  Looks for the sibling path (same source state, same
    event, same prefix, opposite outcome) and compares the projected remainders."""
    e = tr[i]
    for src2, kind2, tr2, dst2, exc2 in trans:
        if kind2 != kind or src2 != src or len(tr2) <= i or tr2[:i] != tr[:i]:
            continue
        f = tr2[i]
        if f[0] == "c" and f[:3] == e[:3] and f[4] == e[4] and f[3] != e[3]:
            if project(tr2[i:], dst2) != project(tr[i:], dst):
                return True
    # no sibling with a different behaviour: both outcomes behave alike (or the test is decided)
    return not any(
        kind2 == kind and src2 == src and len(tr2) > i and tr2[:i] == tr[:i] and tr2[i][0] == "c" and tr2[i][:3] == e[:3] and tr2[i][3] != e[3]
        for src2, kind2, tr2, dst2, exc2 in trans
    )


def check_read(r, bounds, bad, tr):
    if isinstance(r, tuple) and r and r[0] == "upto":
        if not any(lin_ge(b, r[1]) for b in bounds) and not (is_const(r[1]) and r[1][1] <= 0):
            # a slice used only in a comparison against a shorter prefix is harmless when a tested length covers it
            bad.setdefault(f"c: slice self.buf[..:{lin_text(r[1])}] is taken before a length >= {lin_text(r[1])} was tested", tr)
        return
    need = lin_add(r, C(1))
    if not any(lin_ge(b, need) for b in bounds):
        bad.setdefault(f"c: self.buf[{lin_text(r)}] is read before a length > {lin_text(r)} was tested", tr)


def run_state(spec, fn, env):
    eng = RefiningEngine(spec)
    out = []
    for fs in eng.finals(fn, State((), dict(env))):
        fenv = {k: v for k, v in fs.env if not (k[:1].isdigit() and ":" in k) and not k.startswith("$")}
        exc = fs.get("$exc")
        out.append((fs.trace, fenv, exc[1] if is_const(exc) else None))
    return out


def sends(tr):
    return [e[2] for e in tr if e[0] == "send" and e[1] == "client"]


def errored(tr, env):
    return env.get("self._handle_event") == DONE and any(e[0] == "close" and e[1] == "client" for e in tr)


def r21_2(ctx, spec, where):
    m = ctx.model
    greet = ctx.func(MODES, "Socks5Proxy.state_greet")
    auth = ctx.func(MODES, "Socks5Proxy.state_auth")
    conn = ctx.func(MODES, "Socks5Proxy.state_connect")
    base = socks5_init_env()
    bad = []
    cells = 0

    def cell(ok, what, why):
        nonlocal cells
        cells += 1
        ctx.cells += 1
        if not ok:
            bad.append(what)
            ctx.fail("R21.2", where, what, why)

    def full(paths):
        """paths that got past every length test"""
        return [(tr, env, exc) for tr, env, exc in paths if not any(e[0] == "c" and e[1] == "need" and e[3] for e in tr)]

    # --- version byte
    for v in (5, 4, 0x47):
        ps = full(run_state(spec, greet, dict(base, **{"$byte0_0": C(v), "self.state": R("self.state_greet")})))
        ctx.require(ps, "state_greet: no complete path")
        if v == 5:
            cell(any(any(e[0] == "buf:=" for e in tr) for tr, env, exc in ps), "version 5 is not accepted by state_greet", "a valid greeting is rejected")
        else:
            cell(all(errored(tr, env) and not any(e[0] in ("buf:=", "send") or (e[0] == "set" and e[1] == "self.state") for e in tr) for tr, env, exc in ps),
                 f"greeting with version byte {v:#x} is not rejected (close + done)", "a non-SOCKS5 greeting is processed")
    # --- method selection
    for pa, method, nxt in ((False, 0x00, "self.state_connect"), (True, 0x02, "self.state_auth")):
        ps = full(run_state(spec, greet, dict(base, **{"$byte0_0": C(5), "$proxyauth": C(pa)})))
        ok_paths = [(tr, env) for tr, env, exc in ps if any(e[0] == "buf:=" for e in tr)]  # greeting consumed
        rej = [(tr, env) for tr, env, exc in ps if errored(tr, env) and not any(e[0] == "buf:=" for e in tr)]
        # only look at the greet segment: up to the consumption of the greeting
        def greet_part(tr):
            i = next((i for i, e in enumerate(tr) if e[0] == "buf:="), len(tr))
            return tr[: i + 1]
        cell(bool(ok_paths) and all(sends(greet_part(tr)) == [C(bytes([5, method]))] for tr, env in ok_paths),
             f"proxyauth={pa}: method selection reply is not 05 {method:02x}", "the client is told a different authentication method than the one enforced")
        cell(all(any(e[0] == "set" and e[1] == "self.state" and e[2] == nxt for e in greet_part(tr)) and
                 not any(e[0] == "set" and e[1] == "self.state" and e[2] != nxt for e in greet_part(tr)) for tr, env in ok_paths),
             f"proxyauth={pa}: next state after the greeting is not {nxt}", "the handshake continues in the wrong state")
        cell(bool(rej) and all(s[0:1] and is_const(s[0]) and s[0][1][:2] == b"\x05\xff" for s in (sends(tr) for tr, env in rej)),
             f"proxyauth={pa}: a greeting without the required method is not answered with 05 FF", "RFC 1928: NO ACCEPTABLE METHODS must be signalled before closing")
    # --- authentication replies
    for valid, reply in ((True, b"\x01\x00"), (False, b"\x01\x01")):
        ps = full(run_state(spec, auth, dict(base, **{"$valid": C(valid), "self.state": R("self.state_auth")})))
        ctx.require(ps, "state_auth: no complete path")
        def auth_part(tr):
            i = next((i for i, e in enumerate(tr) if e[0] == "buf:="), len(tr))
            return tr[: i + 1]
        cell(all(sends(auth_part(tr))[:1] == [C(reply)] for tr, env, exc in ps), f"authentication {'success' if valid else 'failure'} is not answered with {reply.hex(' ')}",
             "RFC 1929 status reply is wrong")
        if not valid:
            cell(all(errored(tr, env) and not any(e[0] == "buf:=" for e in tr) for tr, env, exc in ps), "failed authentication does not close the connection and end the layer", "RFC 1929: the server MUST close on failure")
    # --- request prefix
    for prefix, okp in (((5, 1, 0), True), ((5, 2, 0), False), ((5, 3, 0), False), ((4, 1, 0), False), ((5, 1, 1), False)):
        env = dict(base, **{f"$byte0_{i}": C(b) for i, b in enumerate(prefix)}, **{"self.state": R("self.state_connect"), "$byte0_3": C(1)})
        ps = full(run_state(spec, conn, env))
        ctx.require(ps, "state_connect: no complete path")
        if okp:
            cell(all(any(e[0] == "addr:=" for e in tr) for tr, env2, exc in ps), "a CONNECT request (05 01 00) is not processed", "valid requests are rejected")
        else:
            cell(all(errored(tr, env2) and sends(tr) == [C(b"\x05\x07" + ZEROS)] and not any(e[0] == "addr:=" for e in tr) for tr, env2, exc in ps),
                 f"request prefix {bytes(prefix).hex(' ')} is not answered with reply 07 (command not supported) and closed", "a non-CONNECT / malformed request is processed or answered with the wrong code")
    # --- address types
    for atyp in (1, 3, 4, 2, 0):
        env = dict(base, **{"$byte0_0": C(5), "$byte0_1": C(1), "$byte0_2": C(0), "$byte0_3": C(atyp), "self.state": R("self.state_connect")})
        ps = full(run_state(spec, conn, env))
        ctx.require(ps, "state_connect: no complete path")
        if atyp in (2, 0):
            cell(all(errored(tr, env2) and sends(tr) == [C(b"\x05\x08" + ZEROS)] and not any(e[0] == "addr:=" for e in tr) for tr, env2, exc in ps),
                 f"address type {atyp} is not answered with reply 08 (address type not supported) and closed", "an unknown address type is processed or answered with the wrong code")
            continue
        want_len = {1: C(10), 4: C(22), 3: LIN(7, {"buf0[4]": 1})}[atyp]
        for tr, env2, exc in ps:
            needs = [e[2] for e in tr if e[0] == "c" and e[1] == "need" and not e[3]]
            cell(needs[-1:] == [want_len], f"ATYP {atyp}: request length is {lin_text(needs[-1]) if needs else '?'}, expected {lin_text(want_len)}",
                 "the request is cut at the wrong place: destination misparsed, following bytes shifted")
            addr = [e[1] for e in tr if e[0] == "addr:="]
            ok, why = check_addr(atyp, addr, want_len)
            cell(ok, f"ATYP {atyp}: {why}", "mitmproxy connects to a destination other than the requested one")
    # --- final replies
    env = dict(base, **{"$byte0_0": C(5), "$byte0_1": C(1), "$byte0_2": C(0), "$byte0_3": C(1), "self.state": R("self.state_connect")})
    ps = full(run_state(spec, conn, env))
    succ = [(tr, e2) for tr, e2, exc in ps if e2.get("self._handle_event") == CHILD]
    fail = [(tr, e2) for tr, e2, exc in ps if e2.get("self._handle_event") == DONE]
    cell(bool(succ) and all(sends(tr) == [C(b"\x05\x00" + ZEROS)] for tr, e2 in succ), "success reply is not 05 00 00 01 00 00 00 00 00 00", "RFC 1928 reply malformed")
    cell(bool(fail) and all(sends(tr) == [C(b"\x05\x04" + ZEROS)] and [e for e in tr if e[0] in ("send", "close")][-1] == ("close", "client") for tr, e2 in fail),
         "connect failure is not answered with 05 04 00 01 00.. followed by closing the client", "RFC 1928: host unreachable must be reported, then the connection closed")
    if not bad:
        ctx.ok("R21.2", f"{cells} RFC 1928/1929 table cells (version, methods, auth replies, request prefix, ATYP lengths, address/port slices, replies) agree")


def check_addr(atyp, addr, msg_len):
    if len(addr) != 1:
        return False, f"server.address written {len(addr)} times on a complete request path"
    v = addr[0]
    if not (is_obj(v, "tuple") and len(v) == 4):
        return False, f"server.address is not a (host, port) pair: {v}"
    host, port = v[2], v[3]

    def span(sub):
        """(start, end) byte offsets inside the request for msg[lo:hi] with msg = self.buf[:msg_len]"""
        if not (is_obj(sub, "subslice") and is_obj(sub[2], "bufslice") and sub[2][3] == C(0) and sub[2][4] == msg_len):
            return None
        lo, hi = sub[3], sub[4]
        def off(x, default):
            if x == C(None):
                return default
            if is_const(x) and isinstance(x[1], int):
                return lin_add(msg_len, x) if x[1] < 0 else x
            return None
        return off(lo, C(0)), off(hi, msg_len)

    # port: last two bytes, network order
    if not (is_obj(port, "unpacked") and port[2] == C("!H")):
        return False, f"port is not struct.unpack('!H', ...)[0]: {port}"
    sp = span(port[3])
    if sp is None or sp[0] != lin_add(msg_len, C(-2)) or sp[1] != msg_len:
        return False, "port is not read from the last two bytes of the request"
    if atyp == 3:
        if not (is_obj(host, "decoded")):
            return False, f"domain name is not decoded from the request bytes: {host}"
        sp = span(host[2])
        if sp is None or sp[0] != C(5) or lin_add(sp[1], sp[0], -1) != LIN(0, {"buf0[4]": 1}):
            return False, "domain name is not the n bytes following the length byte at offset 4"
        return True, ""
    fam, size = {1: ("AF_INET", 4), 4: ("AF_INET6", 16)}[atyp]
    if not (is_obj(host, "inet_ntop") and host[2] == fam):
        return False, f"host is not socket.inet_ntop({fam}, ...): {host}"
    sp = span(host[3])
    if sp is None or sp[0] != C(4) or lin_add(sp[1], sp[0], -1) != C(size):
        return False, f"address is not the {size} bytes at offset 4"
    return True, ""


def r21_3(ctx, states, trans, where):
    bad = {}
    allowed = {
        ("self.state_greet", OWN), ("self.state_auth", OWN), ("self.state_connect", OWN),
        ("self.state_greet", DONE), ("self.state_auth", DONE), ("self.state_connect", DONE), ("self.state_connect", CHILD),
    }
    for s in states:
        pair = (s["self.state"][1] if s["self.state"][0] == "r" else str(s["self.state"]), s["self._handle_event"])
        if pair not in allowed:
            bad.setdefault(f"unexpected abstract state {pair[0]} / handler {pair[1][1] if isinstance(pair[1], tuple) else pair[1]}", ())
    n_err = n_ok = n_fail = 0
    for src, kind, tr, dst, exc in trans:
        if exc is not None:
            bad.setdefault(f"{exc} escapes the layer on {kind}", tr)
            continue
        if kind == "ConnectionClosed":
            if not any(e[0] == "close" for e in tr):
                bad.setdefault("ConnectionClosed does not close the connection", tr)
            continue
        if kind == "Start":
            if [e for e in tr if e[0] != "c"]:
                bad.setdefault("Start has an effect before any byte was received", tr)
            continue
        sets = [(i, e) for i, e in enumerate(tr) if e[0] == "set" and e[1] == "self._handle_event"]
        if len(sets) > 1:
            bad.setdefault("the handler is rebound more than once in one transition", tr)
        addr = [i for i, e in enumerate(tr) if e[0] == "addr:="]
        if len(addr) > 1:
            bad.setdefault("context.server.address is written more than once", tr)
        if addr and dst.get("self._handle_event") == OWN:
            bad.setdefault("context.server.address is written but the layer keeps parsing (it could be written again)", tr)
        for i, e in sets:
            if e[2] == DONE[1]:
                after = [x for x in tr[i + 1 :] if x[0] in EFFECTS]
                via_err = any(x == ("enter", "self.socks_err") for x in tr[:i])
                if via_err:
                    n_err += 1
                    if after:
                        bad.setdefault(f"after a protocol error the layer still does {after[0][0]}", tr)
                    if not any(x[0] == "close" and x[1] == "client" for x in tr[:i]):
                        bad.setdefault("a protocol error does not close the client connection", tr)
                else:
                    n_fail += 1
                    if not any(x == ("enter", "self.finish_start") for x in tr[:i]):
                        bad.setdefault("the layer ends (`done`) outside socks_err / finish_start", tr)
                    if any(x[0] in ("child_start", "child_data") for x in tr):
                        bad.setdefault("the child layer is started although the connection attempt failed", tr)
                    rest = [x for x in tr[i + 1 :] if x[0] in ("send", "close")]
                    if not (len(rest) == 2 and rest[0][0] == "send" and rest[0][1] == "client" and rest[1] == ("close", "client")):
                        bad.setdefault("connect failure is not followed by exactly one reply and closing the client", tr)
            elif e[2] == CHILD[1]:
                n_ok += 1
                pre = tr[:i]
                if not any(x == ("enter", "self.finish_start") for x in pre):
                    bad.setdefault("_handle_event is rebound to the child outside finish_start", tr)
                if not addr or addr[0] > i or not any(x[0] == "child:=" for x in pre):
                    bad.setdefault("the child becomes the handler before server.address / child_layer are set", tr)
                if any(x[0] == "child_start" for x in pre) or [x[0] for x in tr[i:] if x[0] == "child_start"] != ["child_start"]:
                    bad.setdefault("the child layer is not started exactly once, after it became the handler", tr)
            else:
                bad.setdefault(f"_handle_event is rebound to {e[2]}", tr)
        if dst.get("self._handle_event") == DONE and not sets and src.get("self._handle_event") == OWN:
            bad.setdefault("handler changed without a recorded rebinding", tr)
        if any(x == ("enter", "self.socks_err") for x in tr) and dst.get("self._handle_event") != DONE:
            bad.setdefault("socks_err does not end the layer (handler is not `done` afterwards)", tr)
    if not bad:
        ctx.require(n_err >= 5 and n_ok >= 3 and n_fail >= 3, f"SOCKS5 model lost its terminal transitions (errors={n_err}, ok={n_ok}, connect failures={n_fail})")
    for msg, tr in sorted(bad.items()):
        ctx.fail("R21.3", where, msg, "the SOCKS5 layer reaches a state the protocol does not allow (double connect, data after error, child without destination)", trace=fmt(tr))
    if not bad:
        ctx.ok("R21.3", f"{len(states)} abstract states, {len(trans)} transitions: {n_err} protocol errors end in close+done, {n_ok} successes rebind to the child inside "
               f"finish_start after address+child are set, {n_fail} connect failures reply+close+done; address written once; no exception escapes")


def check(ctx):
    ctx.rule("R21.1", "buffer discipline: append-then-parse, short buffer => return without effect, reads within tested lengths, consume exactly the tested length, leftover forwarded once")
    ctx.rule("R21.2", "RFC 1928/1929 tables: version, method selection, auth replies, request prefix, ATYP lengths, address/port slices, reply codes")
    ctx.rule("R21.3", "typestate: reachable states, errors close and end the layer, address written once, child handler only via finish_start, connect failure handling")
    ctx.trust("socket.inet_ntop, struct.unpack('!H'), bytes.decode; Layer pauses event delivery while OpenConnection is pending")
    spec = Socks5Spec(ctx.model)
    entry = ctx.func(MODES, "Socks5Proxy._handle_event")
    for n in ("state_greet", "state_auth", "state_connect", "socks_err"):
        ctx.func(MODES, f"Socks5Proxy.{n}")
    ctx.func(MODES, "DestinationKnown.finish_start")
    where = (MODES, "Socks5Proxy", entry)
    init = ctx.model.cls(MODES, "Socks5Proxy")
    import ast as _ast

    st0 = [s for s in init.body if isinstance(s, (_ast.Assign, _ast.AnnAssign)) and getattr(s.targets[0] if isinstance(s, _ast.Assign) else s.target, "id", None) == "state"]
    ctx.require(len(st0) == 1 and getattr(st0[0].value, "id", None) == "state_greet", "Socks5Proxy.state no longer starts as state_greet")
    b0 = [s for s in init.body if isinstance(s, (_ast.Assign, _ast.AnnAssign)) and getattr(s.targets[0] if isinstance(s, _ast.Assign) else s.target, "id", None) == "buf"]
    ctx.require(len(b0) == 1 and isinstance(b0[0].value, _ast.Constant) and b0[0].value.value == b"", "Socks5Proxy.buf no longer starts empty")
    states, trans, eng = explore_socks5(spec, entry, socks5_init_env())
    ctx.paths += len(trans)
    ctx.note(f"explored {len(states)} abstract states, {len(trans)} transitions; inlined {sorted(eng.inlined)}; data-dependent tests fork both ways")
    ctx.assume("environment: Start, then DataReceived / ConnectionClosed in any order while the layer's own handler is installed; "
               "OpenConnection completes with an error string or None")
    for t in trans[:2]:
        ctx.sample({"event": t[1], "from": t[0]["self.state"][1], "trace": fmt(t[2])[:12]})
    ctx.require(len(trans) >= 100, f"SOCKS5 exploration collapsed to {len(trans)} transitions")
    r21_1(ctx, trans, where)
    r21_2(ctx, spec, where)
    r21_3(ctx, states, trans, where)
    for r in ("R21.1", "R21.2", "R21.3"):
        ctx.expect_instances(r, 1)


M = MODES
MUTANTS = [
    Mutant("greeting-consumed-short", M, "        self.buf = self.buf[2 + n_methods :]\n", "        self.buf = self.buf[2:]\n", "R21.1"),
    Mutant("auth-length-test-one-short", M, "        if len(self.buf) < 3 + user_len + pass_len:\n", "        if len(self.buf) < 2 + user_len + pass_len:\n", "R21.1"),
    Mutant("passlen-read-before-test", M, "        if len(self.buf) < 3 + user_len:\n            return\n", "", "R21.1"),
    Mutant("segment-replaces-buffer", M, "            self.buf += event.data\n", "            self.buf = event.data\n", "R21.1"),
    Mutant("leftover-dropped", M, "            if self.buf:\n                yield from self.child_layer.handle_event(\n                    events.DataReceived(self.context.client, self.buf)\n                )\n                del self.buf\n", "            del self.buf\n", "R21.1"),
    Mutant("auth-reply-before-length-test", M, "        pass_len = self.buf[2 + user_len]\n        if len(self.buf) < 3 + user_len + pass_len:\n            return\n",
           "        pass_len = self.buf[2 + user_len]\n        yield commands.SendData(self.context.client, b\"\\x01\\x00\")\n        if len(self.buf) < 3 + user_len + pass_len:\n            return\n", "R21.1"),
    Mutant("domain-length-byte-unchecked", M, "        if len(self.buf) < 5:\n            return\n\n        if self.buf[:3]", "        if len(self.buf) < 4:\n            return\n\n        if self.buf[:3]", "R21.1"),
    # R21.1f: the next state must be run on what is already buffered (seed C21b = the first one)
    Mutant("auth-does-not-redispatch", M, "        self.state = self.state_connect\n        yield from self.state()\n", "        self.state = self.state_connect\n", "R21.1"),
    Mutant("greeting-does-not-redispatch", M, "        self.buf = self.buf[2 + n_methods :]\n        yield from self.state()\n", "        self.buf = self.buf[2 + n_methods :]\n", "R21.1"),
    Mutant("auth-redispatches-before-consuming", M, "        self.buf = self.buf[3 + user_len + pass_len :]\n        self.state = self.state_connect\n        yield from self.state()\n",
           "        self.state = self.state_connect\n        yield from self.state()\n        self.buf = self.buf[3 + user_len + pass_len :]\n", "R21.1"),
    Mutant("ipv6-length-as-ipv4", M, "            message_len = 4 + 16 + 2\n", "            message_len = 4 + 4 + 2\n", "R21.2"),
    Mutant("domain-includes-length-byte", M, "            host_bytes = msg[5:-2]\n", "            host_bytes = msg[4:-2]\n", "R21.2"),
    Mutant("port-little-endian", M, "struct.unpack(\"!H\", msg[-2:])", "struct.unpack(\"<H\", msg[-2:])", "R21.2"),
    Mutant("bind-accepted-as-connect", M, "        if self.buf[:3] != b\"\\x05\\x01\\x00\":\n", "        if self.buf[:3] not in (b\"\\x05\\x01\\x00\", b\"\\x05\\x02\\x00\"):\n", "R21.2"),
    Mutant("atyp-error-code-swapped", M, "SOCKS5_REP_ADDRESS_TYPE_NOT_SUPPORTED = 0x08\n", "SOCKS5_REP_ADDRESS_TYPE_NOT_SUPPORTED = 0x07\n", "R21.2"),
    Mutant("success-reply-says-failure", M, "            yield commands.SendData(\n                self.context.client, b\"\\x05\\x00\\x00\\x01\\x00\\x00\\x00\\x00\\x00\\x00\"\n            )\n            if self.buf:",
           "            yield commands.SendData(\n                self.context.client, b\"\\x05\\x01\\x00\\x01\\x00\\x00\\x00\\x00\\x00\\x00\"\n            )\n            if self.buf:", "R21.2"),
    Mutant("noauth-offered-with-proxyauth", M, "            method = SOCKS5_METHOD_USER_PASSWORD_AUTHENTICATION\n", "            method = SOCKS5_METHOD_NO_AUTHENTICATION_REQUIRED\n", "R21.2"),
    Mutant("wrong-version-accepted", M, "        if self.buf[0] != SOCKS5_VERSION:\n", "        if self.buf[0] > SOCKS5_VERSION:\n", "R21.2"),
    Mutant("error-does-not-end-layer", M, "        yield commands.Log(message)\n        self._handle_event = self.done\n", "        yield commands.Log(message)\n", "R21.3"),
    Mutant("error-does-not-close", M, "        yield commands.CloseConnection(self.context.client)\n        yield commands.Log(message)\n", "        yield commands.Log(message)\n", "R21.3"),
    Mutant("connect-failure-keeps-client-open", M, "                self.context.client, b\"\\x05\\x04\\x00\\x01\\x00\\x00\\x00\\x00\\x00\\x00\"\n            )\n            yield commands.CloseConnection(self.context.client)\n",
           "                self.context.client, b\"\\x05\\x04\\x00\\x01\\x00\\x00\\x00\\x00\\x00\\x00\"\n            )\n", "R21.3"),
    Mutant("no-return-after-unknown-atyp", M, "                f\"Unknown address type: {atyp}\", SOCKS5_REP_ADDRESS_TYPE_NOT_SUPPORTED\n            )\n            return\n",
           "                f\"Unknown address type: {atyp}\", SOCKS5_REP_ADDRESS_TYPE_NOT_SUPPORTED\n            )\n            message_len = 10\n", "R21.3"),
    Mutant("child-handler-set-in-state-connect", M, "        self.child_layer = layer.NextLayer(self.context)\n\n        # this already triggers", "        self.child_layer = layer.NextLayer(self.context)\n        self._handle_event = self.child_layer.handle_event\n\n        # this already triggers", "R21.3"),
]
