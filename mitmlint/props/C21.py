"""C21 - SOCKS5 handshakes are parsed exactly and relay subsequent data.

``Socks5Proxy`` (with everything it calls: helpers, ``DestinationKnown.finish_start``, module constants / tables) is *interpreted* from
its AST (mitmlint/pyint.py, generators executed eagerly, commands answered by a scripted environment) on a structured domain of
byte streams x environments x segmentations, and every run is compared - after every delivered segment - with a reference model of
RFC 1928 / 1929 written down in ``_helpers_C.socks5_reference``.  Nothing of the repository is imported or executed.  The rules
compare *behaviour* (commands, replies, ``context.server.address``, what the next layer receives, whether the layer has ended, the
content of the handshake buffer), so the shape of the code - if/match, helper extraction, tables, struct.pack / bytes([..]),
renamed locals and private methods, logging, assertions, defaulted parameters, protocol errors transported by a private exception
class that is raised in a (non-generator) parser and handled inside the layer, constants turned into an IntEnum, a NamedTuple
destination - is irrelevant.  "No exception escapes" means: none leaves ``_handle_event``; what is raised and caught inside is control flow.

  R21.1 segmentation independence / buffer discipline, for every stream of the domain and every segmentation tried (whole, every
        single cut, byte by byte, message boundaries, pairs of cuts):
        a  while the handshake is running the handshake buffer holds exactly the bytes not yet parsed (every segment is appended,
           exactly the parsed message is consumed);
        b  no segmentation raises (no read beyond the received bytes);
        c  the outcome (commands, destination, state, bytes given to the next layer) is the outcome of delivering the stream whole;
        d  after every segment the layer has done exactly what the bytes received so far demand - nothing early, nothing twice, and
           bytes that arrived together with the end of the previous message are parsed at once (pipelining);
        e  the bytes that follow the request reach the next layer exactly once, in order, after its Start event.
  R21.2 RFC 1928 / 1929 tables on the whole stream: version byte, method selection 05 00 / 05 02 / 05 FF + close, auth replies
        01 00 / 01 01 + close with the (user, password) given to the hook, request prefix 05 01 00 else reply 07, ATYP 1 / 3 / 4 message
        lengths 10 / 7+n / 22 else reply 08, host = inet_ntop of the 4 / 16 bytes at 4 or the n bytes at 5, port = last two bytes big
        endian, OpenConnection for that address (eager), success reply 05 00 00 01 0*6, connect failure reply 05 04 00 01 0*6 + close.
  R21.3 typestate: Start has no effect; an error closes the client and *ends* the layer (whatever arrives later has no effect);
        ``context.server.address`` is written once; the next layer is started exactly once, after the destination is known and (eager)
        the connection is open, and gets data only after its Start; connect failure => no next layer; ConnectionClosed during the
        handshake closes; no exception escapes.
NOT decided: streams outside the domain (the domain covers every branch of the reference and the boundary lengths 0 / 1 / 255),
byte-level decoding by ``socket.inet_ntop`` / ``struct`` / ``bytes.decode`` (trusted library code, executed on the domain's bytes),
the event queueing of ``Layer`` while OpenConnection is pending (C04), the version byte of the RFC 1929 sub-negotiation (not
checked by the code, not demanded by the property).
"""

from __future__ import annotations

from ..selftest import Mutant
from ._helpers_C import cut
from ._helpers_C import merge_sends
from ._helpers_C import MODES
from ._helpers_C import socks5_boundaries
from ._helpers_C import socks5_domain
from ._helpers_C import socks5_judge
from ._helpers_C import socks5_reference
from ._helpers_C import socks5_segmentations
from ._helpers_C import Socks5World
from ._helpers_C import CHILD_KINDS
from ._helpers_C import WIRE_KINDS

PROP = "C21"
REG = {
    "strength": "partial",
    "technique": "abstract interpretation of Socks5Proxy's AST (all helpers / tables followed, generators run eagerly against a scripted "
    "environment) on a structured domain of handshake byte streams x environments x segmentations, compared after every segment with "
    "a reference model of RFC 1928/1929",
    "claim": "for every stream of the domain (all address types, methods, credentials, malformed versions / commands / address types, "
    "boundary lengths, pipelined payload) and every segmentation tried the interpreted layer sends exactly the RFC replies, sets exactly "
    "the requested destination, keeps exactly the unparsed bytes buffered, relays the bytes after the request once and in order, ends "
    "after an error, and behaves the same however the stream is cut.",
    "note": "Bounded: the domain and the segmentations are listed in the evidence (all single cuts, byte-by-byte, boundaries, pairs). "
    "inet_ntop / struct / decode are trusted; Layer's pausing while OpenConnection is pending belongs to C04.",
}

SUB = {
    "buffer": ("R21.1", "a: the handshake buffer is not exactly the bytes that are not parsed yet"),
    "seg-exception": ("R21.1", "b: a segmentation of the stream raises"),
    "seg-outcome": ("R21.1", "c: the outcome depends on how the stream is segmented"),
    "seg-step": ("R21.1", "d: after a segment the layer has not done exactly what the received bytes demand"),
    "child": ("R21.1", "e: the bytes after the request are not relayed to the next layer exactly once, in order, after its Start"),
    "wire": ("R21.2", "replies / hook arguments / connection commands differ from RFC 1928/1929"),
    "address": ("R21.2", "context.server.address is not the requested destination"),
    "state": ("R21.3", "the layer is in the wrong state (parsing / ended / relaying) for what it received"),
    "order": ("R21.3", "destination, server connection and next layer are not set up once and in order"),
    "start": ("R21.3", "the Start event has an effect"),
    "close": ("R21.3", "ConnectionClosed during the handshake does not close the connection"),
    "exception": ("R21.3", "an exception escapes the layer"),
}
WHY = {
    "R21.1": "the outcome of the handshake depends on how the client's bytes are segmented / bytes are lost, read too early or parsed twice",
    "R21.2": "mitmproxy answers with a malformed or wrong reply, or connects to a destination other than the requested one",
    "R21.3": "the SOCKS5 layer reaches a state the protocol does not allow (data after an error, double connect, next layer without destination)",
}


def outcome(steps, final):
    trace = [e for s in steps for e in s.trace]
    last = steps[-1]
    return (tuple(merge_sends([e for e in trace if e[0] in WIRE_KINDS])), tuple(merge_sends([e for e in trace if e[0] in CHILD_KINDS])), final, last.address, last.exc)


def check(ctx):
    ctx.rule("R21.1", "segmentation independence: buffer = unparsed bytes, no read beyond the data, same outcome for every segmentation, nothing early / twice, leftover relayed once")
    ctx.rule("R21.2", "RFC 1928/1929 tables: version, method selection, auth replies, request prefix, ATYP lengths, address / port, reply codes")
    ctx.rule("R21.3", "typestate: errors close and end the layer, address written once, next layer started once after the destination is known, connect failure, no exception")
    ctx.trust("socket.inet_ntop, struct, bytes.decode (library code run on the domain's bytes); Layer pauses event delivery while OpenConnection is pending")
    thorough = ctx.tier == "thorough"
    ctx.func(MODES, "Socks5Proxy._handle_event")
    world = Socks5World(ctx.model)
    where = (MODES, "Socks5Proxy", ctx.model.cls(MODES, "Socks5Proxy"))
    bad: dict = {}
    n_runs = n_child = n_done = n_wait = n_cells = 0
    cases = socks5_domain(thorough)
    for name, stream, cfg in cases:
        ref = socks5_reference(stream, cfg)
        ended = ref["state"] == "done"
        steps, final = world.run([stream], cfg, expect_done=ended)
        diffs = socks5_judge(steps, final, stream, (), cfg)
        whole = outcome(steps, final)
        n_runs += 1
        # ConnectionClosed at the end of the stream and in the middle of every message
        for i in sorted({len(stream)} | {b - 1 for b in socks5_boundaries(stream, cfg) if b > 1}):
            csteps, cfinal = world.run([stream[:i]], cfg, close=True)
            n_runs += 1
            diffs += [d for d in socks5_judge(csteps, cfinal, stream[:i], (), cfg) if d[0] in ("close", "exception") and d not in diffs]
        n_cells += 1
        n_child += ref["state"] == "child"
        n_done += ref["state"] == "done"
        whole_msgs = {(k, m) for k, at, m in diffs}
        for k, at, m in diffs:
            bad.setdefault(k, f"{name} [{cfg!r}], stream {stream.hex(' ')} delivered whole: {m}")
        if len(ctx.samples) < 4 and not diffs:
            ctx.sample({"case": name, "environment": repr(cfg), "stream": stream.hex(" "), "commands": [str(e) for e in whole[0]], "next layer": [str(e) for e in whole[1]], "state": ref["state"]})
        for cuts in socks5_segmentations(stream, cfg, thorough, budget=150 if thorough else 10):
            if not cuts:
                continue
            steps, final = world.run(cut(stream, cuts), cfg, expect_done=ended)
            n_runs += 1
            n_wait += sum(1 for s in steps[1:-1] if s.handler == "own")
            tag = f"{name} [{cfg!r}], stream {stream.hex(' ')} cut at {list(cuts) if len(cuts) < 8 else 'every byte'}"
            sd = socks5_judge(steps, final, stream, cuts, cfg)
            for k, at, m in sd:
                if (k, m) in whole_msgs:
                    continue  # the same defect as in the whole delivery: reported there
                kk = {"buffer": "buffer", "child": "child", "exception": "seg-exception"}.get(k, "seg-step")
                bad.setdefault(kk, f"{tag}: after {at if at is not None else len(stream)} bytes: {m}")
            got = outcome(steps, final)
            if got != whole and not (got[4] and any(k == "exception" for k, _, _ in sd)):
                what = next((lbl for lbl, a, b in zip(("commands", "next layer", "state", "destination", "exception"), got, whole) if a != b), "outcome")
                i = ("commands", "next layer", "state", "destination", "exception").index(what)
                bad.setdefault("seg-outcome", f"{tag}: {what} {got[i]!r}, but {whole[i]!r} when the stream is delivered whole")
    ctx.cells += n_cells
    ctx.paths += n_runs
    ctx.functions.update(f"{rel}::{q}" for rel, q in world.it.seen_funcs if rel == MODES)
    ctx.note(f"interpreted {n_runs} runs of Socks5Proxy over {len(cases)} streams ({world.it.calls} interpreted calls); buffer attribute: {world.buf_attr or world._run_buf_attr or 'not identified (R21.1a not evaluated, the behavioural sub-rules are)'}")
    ctx.bounds.append(f"C21: {len(cases)} handshake streams x environments; segmentations: whole, every single cut, byte by byte, message boundaries, "
                      f"{'all pairs of cuts (streams up to 32 bytes) / 150 pairs' if thorough else '10 pairs of cuts + pairs around the boundaries'}")
    if not bad:
        ctx.require(n_child >= 8 and n_done >= 12 and n_wait >= 200, f"SOCKS5 domain lost its coverage (relayed={n_child}, rejected={n_done}, waiting steps={n_wait})")
    for k in sorted(bad):
        rule, what = SUB[k]
        ctx.fail(rule, where, what, WHY[rule] + " - first case: " + bad[k])
    fired = {SUB[k][0] for k in bad}
    if "R21.1" not in fired:
        ctx.ok("R21.1", f"{n_runs} interpreted runs: buffer = unparsed bytes after every segment, no segmentation raises, every segmentation has the outcome of the whole delivery, "
               f"{n_wait} intermediate waits without effect, leftover relayed once")
    if "R21.2" not in fired:
        ctx.ok("R21.2", f"{n_cells} streams (version, methods, credentials, commands, address types, lengths 0/1/255, ports) answered as RFC 1928/1929 demand; destination exact")
    if "R21.3" not in fired:
        ctx.ok("R21.3", f"{n_done} rejected handshakes close and end the layer, {n_child} hand over to the next layer once (after address / open), Start and ConnectionClosed handled, no exception")
    for r in ("R21.1", "R21.2", "R21.3"):
        ctx.expect_instances(r, 1)


M = MODES
MUTANTS = [
    Mutant("greeting-consumed-short", M, "        self.buf = self.buf[2 + n_methods :]\n", "        self.buf = self.buf[2:]\n", "R21.1"),
    Mutant("auth-length-test-one-short", M, "        if len(self.buf) < 3 + user_len + pass_len:\n", "        if len(self.buf) < 2 + user_len + pass_len:\n", "R21.1"),
    Mutant("passlen-read-before-test", M, "        if len(self.buf) < 3 + user_len:\n            return\n", "", "R21.1"),
    Mutant("segment-replaces-buffer", M, "            self.buf += event.data\n", "            self.buf = event.data\n", "R21.1"),
    Mutant("leftover-dropped", M, "            if self.buf:\n                yield from self.child_layer.handle_event(\n                    events.DataReceived(self.context.client, self.buf)\n                )\n                del self.buf\n", "            del self.buf\n", "R21.1"),
    Mutant("leftover-relayed-twice", M, "                del self.buf\n", "                yield from self.child_layer.handle_event(\n                    events.DataReceived(self.context.client, self.buf)\n                )\n                del self.buf\n", "R21.1"),
    Mutant("auth-reply-before-length-test", M, "        pass_len = self.buf[2 + user_len]\n        if len(self.buf) < 3 + user_len + pass_len:\n            return\n",
           "        pass_len = self.buf[2 + user_len]\n        yield commands.SendData(self.context.client, b\"\\x01\\x00\")\n        if len(self.buf) < 3 + user_len + pass_len:\n            return\n", "R21.1"),
    Mutant("domain-length-byte-unchecked", M, "        if len(self.buf) < 5:\n            return\n\n        if self.buf[:3]", "        if len(self.buf) < 4:\n            return\n\n        if self.buf[:3]", "R21.1"),
    # R21.1 c/d: the next state must be run on what is already buffered (seed C21b = the first one)
    Mutant("auth-does-not-redispatch", M, "        self.state = self.state_connect\n        yield from self.state()\n", "        self.state = self.state_connect\n", "R21.1"),
    Mutant("greeting-does-not-redispatch", M, "        self.buf = self.buf[2 + n_methods :]\n        yield from self.state()\n", "        self.buf = self.buf[2 + n_methods :]\n", "R21.1"),
    Mutant("auth-redispatches-before-consuming", M, "        self.buf = self.buf[3 + user_len + pass_len :]\n        self.state = self.state_connect\n        yield from self.state()\n",
           "        self.state = self.state_connect\n        yield from self.state()\n        self.buf = self.buf[3 + user_len + pass_len :]\n", "R21.1"),
    Mutant("request-waits-for-one-more-byte", M, "        if len(self.buf) < message_len:\n", "        if len(self.buf) <= message_len:\n", "R21.1"),
    Mutant("ipv6-length-as-ipv4", M, "            message_len = 4 + 16 + 2\n", "            message_len = 4 + 4 + 2\n", "R21.2"),
    Mutant("domain-includes-length-byte", M, "            host_bytes = msg[5:-2]\n", "            host_bytes = msg[4:-2]\n", "R21.2"),
    Mutant("port-little-endian", M, "struct.unpack(\"!H\", msg[-2:])", "struct.unpack(\"<H\", msg[-2:])", "R21.2"),
    Mutant("bind-accepted-as-connect", M, "        if self.buf[:3] != b\"\\x05\\x01\\x00\":\n", "        if self.buf[:3] not in (b\"\\x05\\x01\\x00\", b\"\\x05\\x02\\x00\"):\n", "R21.2"),
    Mutant("atyp-error-code-swapped", M, "SOCKS5_REP_ADDRESS_TYPE_NOT_SUPPORTED = 0x08\n", "SOCKS5_REP_ADDRESS_TYPE_NOT_SUPPORTED = 0x07\n", "R21.2"),
    Mutant("success-reply-says-failure", M, "            yield commands.SendData(\n                self.context.client, b\"\\x05\\x00\\x00\\x01\\x00\\x00\\x00\\x00\\x00\\x00\"\n            )\n            if self.buf:",
           "            yield commands.SendData(\n                self.context.client, b\"\\x05\\x01\\x00\\x01\\x00\\x00\\x00\\x00\\x00\\x00\"\n            )\n            if self.buf:", "R21.2"),
    Mutant("noauth-offered-with-proxyauth", M, "            method = SOCKS5_METHOD_USER_PASSWORD_AUTHENTICATION\n", "            method = SOCKS5_METHOD_NO_AUTHENTICATION_REQUIRED\n", "R21.2"),
    Mutant("wrong-version-accepted", M, "        if self.buf[0] != SOCKS5_VERSION:\n", "        if self.buf[0] > SOCKS5_VERSION:\n", "R21.2"),
    Mutant("password-includes-length-byte", M, "        password = self.buf[(3 + user_len) : (3 + user_len + pass_len)].decode(", "        password = self.buf[(2 + user_len) : (3 + user_len + pass_len)].decode(", "R21.2"),
    Mutant("error-does-not-end-layer", M, "        yield commands.Log(message)\n        self._handle_event = self.done\n", "        yield commands.Log(message)\n", "R21.3"),
    Mutant("error-does-not-close", M, "        yield commands.CloseConnection(self.context.client)\n        yield commands.Log(message)\n", "        yield commands.Log(message)\n", "R21.3"),
    Mutant("connect-failure-keeps-client-open", M, "                self.context.client, b\"\\x05\\x04\\x00\\x01\\x00\\x00\\x00\\x00\\x00\\x00\"\n            )\n            yield commands.CloseConnection(self.context.client)\n",
           "                self.context.client, b\"\\x05\\x04\\x00\\x01\\x00\\x00\\x00\\x00\\x00\\x00\"\n            )\n", "R21.3"),
    Mutant("no-return-after-unknown-atyp", M, "                f\"Unknown address type: {atyp}\", SOCKS5_REP_ADDRESS_TYPE_NOT_SUPPORTED\n            )\n            return\n",
           "                f\"Unknown address type: {atyp}\", SOCKS5_REP_ADDRESS_TYPE_NOT_SUPPORTED\n            )\n            message_len = 10\n", "R21.3"),
    Mutant("connect-failure-starts-next-layer", M, "            if err:\n                self._handle_event = self.done  # type: ignore\n                return err\n",
           "            if err:\n                self._handle_event = self.done  # type: ignore\n                yield from self.child_layer.handle_event(events.Start())\n                return err\n", "R21.3"),
    Mutant("connection-closed-ignored", M, "            yield commands.CloseConnection(event.connection)\n", "            pass\n", "R21.3"),
]
