"""C05 - HTTP/2 (and HTTP/3) streams are isolated and correctly mapped.

Decided:
  R05.1 stream-id translation in Http2Client._handle_event and Http3Client._handle_event (path enumeration): the maps
        our_stream_id / their_stream_id are written nowhere else; a new mapping is the converse pair
        our[event.stream_id] = y; their[y] = event.stream_id with y fresh from get_next_available_stream_id(), written
        before event.stream_id is rewritten; every HttpEvent reaches the protocol handler with stream_id rewritten to
        the mapped id (looked up or fresh); every command coming back is yielded exactly once and a ReceiveHttp has its
        event.stream_id translated through their_stream_id[...] first.
        The paths are compared through abstract VALUES, not through the text of the statements: locals, aliases (`received = cmd.event`),
        the names of the parameters / loop variables and the nesting or polarity of the branches are irrelevant; private helper methods
        of the class called as `self.<helper>(...)` are inlined (and may then write the maps, provided nothing but the analysed paths
        calls them); `yield Log(...)`, counters, assertions and annotations are transparent.
  R05.2 capacity gate of Http2Client: the DECISION to queue a new stream equals  open_outbound_streams >= (provisional or remote max)
        and the decision to resume equals  queue non-empty and open_outbound_streams < (provisional or remote max)  on a
        table of concrete values: every path of _handle_event carries the branch conditions it took; each condition is evaluated on
        every table row by the pure-Python interpreter (pyint) - temporaries are resolved through their single assignment, helper
        methods such as a `_has_free_stream_slot()` are interpreted, not matched - and every path whose conditions hold on a row has to
        queue / resume exactly when the row says so.  Conditions that cannot be evaluated on the table (debug switches, properties of the
        event) are left open: the decision must then not depend on them.  The only acceptable measure of "streams open upstream"
        is hyper-h2's own open_outbound_streams: it drops a stream the moment it is closed by EITHER side.  When a deciding condition
        reads another attribute of the client (self.streams, the id maps ...) the class is searched for a method that closes a stream
        locally (h2_conn.reset_stream / end_stream) while nothing on its call chain removes from that attribute; with such a witness the
        attribute is an independent table variable (sizes 0..4) - phantom entries then either hold queued streams back for ever or
        overrun the limit - without one the coupling is undecided (exit 2); a gated event is appended to
        stream_queue[its original stream id] and nothing else happens - the list appended to is named by its VALUE: `queue[k]`,
        `queue.setdefault(k, [])` (directly, through a local or inside an inlined helper), `queue[k] += [e]`; creating the empty entry first
        (`queue[k] = []`, setdefault) belongs to the append, an empty entry left for a stream that is not gated is a violation, and so is
        `queue[k].append` on a queue created as a plain dict without the entry being there; resume takes the FIRST queued stream
        (pop(next(iter(queue))) | key = next(iter(queue / queue.keys())) / list(queue)[0] then pop(key) or read + `del queue[key]` |
        key, events = next(iter(queue.items())) + del) and replays its events in order, each once; provisional_max_concurrency is only
        cleared (to None) when RemoteSettingsChanged was received.
  R05.3 HttpLayer.event_to_child routing table: ReceiveHttp -> self.streams[command.event.stream_id] with
        command.event (stream created first iff RequestHeaders; an event for a stream that is gone is dropped - `except KeyError`,
        `.get()` + None test and `in self.streams` are the same decision), SendHttp -> self.connections[command.connection] with
        command.event, DropStream -> streams.pop(command.stream_id); no other command creates or drops streams;
        self.streams is written only by make_stream (key == the HttpStream's own id) and the DropStream branch (or private helpers
        called from nowhere else).
  R05.4 per-event handlers (handle_h2_event x3, the HTTP/3 event loop, parse_headers x2) build every Receive*/
        RequestHeaders/ResponseHeaders event with the stream id of the h2/h3 event being handled (directly or through a local that
        holds it); every non-error h2 DataReceived path acknowledges exactly that event's flow_controlled_length on that event's stream.
NOT decided: hyper-h2 / aioquic demultiplexing, BufferedH2Connection's flow-control buffering under all interleavings.
"""

from __future__ import annotations

import ast
import itertools
from types import SimpleNamespace

from ..core import AnalysisError
from ..core import norm
from ..model import attr_chain
from ..model import enclosing_func
from ..model import eval_order
from ..model import last_attr
from ..model import walk_in_order
from ..paths import class_names
from ..paths import Engine
from ..paths import is_const
from ..paths import Out
from ..paths import pattern_to_cond
from ..paths import R
from ..paths import Spec
from ..paths import State
from ..paths import UNKNOWN
from ..pyint import Interp
from ..pyint import Raised
from ..pyint import Rec
from ..selftest import Mutant
from ._helpers_A import ASpec
from ._helpers_A import compare_pair
from ._helpers_A import is_self_call
from ._helpers_A import isinstance_of
from ._helpers_A import loops_over
from ._helpers_A import method_call_on
from ._helpers_A import params_of
from ._helpers_A import proj
from ._helpers_A import show

PROP = "C05"
REG = {
    "strength": "partial",
    "technique": "CFG path enumeration over abstract values with helper inlining (paired writes, routing table), who-may-write along the call graph, "
    "interpretation (pyint) of the path conditions of the gate over a value table, dataflow identity of stream ids",
    "claim": "Http2Client/Http3Client translate stream ids through a converse pair of maps written only at one place, rewrite every HttpEvent in and "
    "every ReceiveHttp out; the HTTP/2 concurrency gate compares open streams with (provisional or remote) max, queues gated events per stream and "
    "resumes FIFO; HttpLayer routes by stream id / connection; per-event handlers forward the event's own stream id and acknowledge its data.",
    "note": "hyper-h2 / aioquic are trusted; loops unrolled twice.",
}

H2 = "mitmproxy/proxy/layers/http/_http2.py"
H3 = "mitmproxy/proxy/layers/http/_http3.py"
I = "mitmproxy/proxy/layers/http/__init__.py"
BASE = "mitmproxy/proxy/layers/http/_base.py"
MAPS = ("self.our_stream_id", "self.their_stream_id")
QUEUE = "self.stream_queue"
OPEN = "self.h2_conn.open_outbound_streams"
PROV = "self.provisional_max_concurrency"
REMOTE = "self.h2_conn.remote_settings.max_concurrent_streams"


# ---------------------------------------------------------------------------------------------------
# shared: a depth-aware, alias-resolving spec


def _isinst(expr):
    """(subject, [class last names]) for isinstance(x, A) / (A, B) / A | B."""
    if isinstance(expr, ast.Call) and isinstance(expr.func, ast.Name) and expr.func.id == "isinstance" and len(expr.args) == 2 and not expr.keywords:
        return expr.args[0], class_names(expr.args[1])
    return None


def _is_none(e) -> bool:
    return isinstance(e, ast.Constant) and e.value is None


def _is_empty_seq(e) -> bool:
    """`[]`, `list()`, `deque()` / `collections.deque()`: a fresh, empty sequence of queued events."""
    if isinstance(e, ast.List) and not e.elts:
        return True
    return isinstance(e, ast.Call) and not e.args and not e.keywords and last_attr(e.func) in ("list", "deque")


def _is_qslot(v) -> bool:
    return isinstance(v, tuple) and len(v) == 3 and v[0] == "qslot"


def _stores(node):
    """[(target, value expression | None)] of an assignment statement; tuple targets are flattened (pairwise with a tuple value of the
    same length, else with an unknown value); an augmented assignment has no plain value."""
    out = []

    def add(t, v):
        if isinstance(t, (ast.Tuple, ast.List)):
            if isinstance(v, (ast.Tuple, ast.List)) and len(v.elts) == len(t.elts) and not any(isinstance(e, ast.Starred) for e in list(t.elts) + list(v.elts)):
                for a, b in zip(t.elts, v.elts):
                    add(a, b)
            else:
                for a in t.elts:
                    add(a, None)
        elif isinstance(t, ast.Starred):
            add(t.value, None)
        else:
            out.append((t, v))

    if isinstance(node, ast.Assign):
        for t in node.targets:
            add(t, node.value)
    elif isinstance(node, ast.AnnAssign) and node.value is not None:
        add(node.target, node.value)
    elif isinstance(node, ast.AugAssign):
        out.append((node.target, None))
    elif isinstance(node, (ast.For, ast.AsyncFor)):
        add(node.target, None)
    elif isinstance(node, (ast.With, ast.AsyncWith)):
        for it in node.items:
            if it.optional_vars is not None:
                add(it.optional_vars, None)
    return out


def _bindings(fn):
    """name -> list of binding sites of the locals of ``fn`` (value expression for `name = expr`, None for every other kind of binding)."""
    out: dict[str, list] = {}

    def add(t, v):
        if isinstance(t, ast.Name):
            out.setdefault(t.id, []).append(v)
        elif isinstance(t, (ast.Tuple, ast.List)):
            for e in t.elts:
                add(e, None)
        elif isinstance(t, ast.Starred):
            add(t.value, None)

    a = fn.args
    for p in a.posonlyargs + a.args + a.kwonlyargs + ([a.vararg] if a.vararg else []) + ([a.kwarg] if a.kwarg else []):
        out.setdefault(p.arg, []).append(None)
    for n in ast.walk(fn):
        if isinstance(n, ast.Assign):
            for t in n.targets:
                add(t, n.value if len(n.targets) == 1 else None)
        elif isinstance(n, ast.AnnAssign) and n.value is not None:
            add(n.target, n.value)
        elif isinstance(n, ast.AugAssign):
            add(n.target, None)
        elif isinstance(n, (ast.For, ast.AsyncFor)):
            add(n.target, None)
        elif isinstance(n, (ast.With, ast.AsyncWith)):
            for it in n.items:
                if it.optional_vars is not None:
                    add(it.optional_vars, None)
        elif isinstance(n, ast.NamedExpr):
            add(n.target, None)
        elif isinstance(n, ast.ExceptHandler) and n.name:
            out.setdefault(n.name, []).append(None)
        elif isinstance(n, (ast.MatchAs, ast.MatchStar)) and n.name:
            out.setdefault(n.name, []).append(None)
        elif isinstance(n, (ast.Global, ast.Nonlocal)):
            for nm in n.names:
                out.setdefault(nm, []).append(None)
    return out


def _single(fn) -> dict:
    """Locals of ``fn`` bound exactly once, by a plain `name = expr`: name -> expr (single-assignment temporaries)."""
    return {k: v[0] for k, v in _bindings(fn).items() if len(v) == 1 and v[0] is not None}


def _through(single, e, limit=8):
    """``e`` with names of single-assignment temporaries replaced by their defining expression (top level only)."""
    while isinstance(e, ast.Name) and e.id in single and limit:
        e = single[e.id]
        limit -= 1
    return e


class DSpec(ASpec):
    """ASpec for rules that compare VALUES: names are looked up in the frame of the function that contains the expression (so labels and value
    hooks work inside inlined helpers), attribute chains are canonicalised through aliases (`x = cmd.event` makes `x.stream_id` the chain
    `cmd.event.stream_id`; a parameter of an inlined helper stands for the argument it was called with), rebinding a name drops its aliases."""

    def __init__(self, **kw):
        ASpec.__init__(self, **kw)
        self._fn_depth: dict = {}
        self.inlined_fns: dict = {}

    # -- frames
    def inline(self, call, st, depth):
        fn = self._resolver(call) if self._resolver else None
        if fn is not None:
            self._fn_depth[id(fn)] = depth + 1  # the callee body is executed right away, to completion, at this depth (no recursion: see resolver)
            self.inlined_fns[id(fn)] = fn
        return fn

    def depth_of(self, node) -> int:
        f = enclosing_func(node) if hasattr(node, "_parent") else None  # (synthesised conditions belong to the outermost frame)
        return self._fn_depth.get(id(f), 0) if f is not None else 0

    def v(self, expr, st):
        return self.value(expr, st, self.depth_of(expr))

    # -- names
    @staticmethod
    def _root(name, depth):
        return name if depth == 0 else f"{depth}:{name}"

    def canon(self, expr, st, depth=None) -> str:
        if isinstance(expr, ast.Name):
            if expr.id == "self":
                return "self"
            d = self.depth_of(expr) if depth is None else depth
            v = st.get(f"{d}:{expr.id}")
            if isinstance(v, tuple) and len(v) == 2 and v[0] in ("r", "param", "sym") and isinstance(v[1], str):
                return v[1]
            return self._root(expr.id, d)
        if isinstance(expr, ast.Attribute):
            b = self.canon(expr.value, st, depth)
            return f"{b}.{expr.attr}" if b else ""
        return ""

    def value(self, expr, st, depth):
        if self._val is not None and expr is not None:
            v = self._val(expr, st, self)
            if v is not None:
                return v
        if isinstance(expr, ast.NamedExpr):
            return self.value(expr.value, st, depth)
        if isinstance(expr, ast.Name):
            if expr.id == "self":
                return R("self")
            return st.get(f"{depth}:{expr.id}")
        if isinstance(expr, ast.Attribute):
            c = self.canon(expr, st, depth)
            if c:
                return st.get(c) if st.has(c) else R(c)
        return Spec.value(self, expr, st, depth)

    def bind(self, target, value_expr, st, depth, value=None):
        if isinstance(target, ast.Name):
            root = self._root(target.id, depth)
            if value_expr is None and (value is None or value == UNKNOWN):
                value = ("sym", root)  # loop variable / with variable / unpacked element: an opaque object with a name
            roots = {root} | ({value[1]} if isinstance(value, tuple) and len(value) == 2 and value[0] == "sym" else set())
            stale = [k for k, v in st.env if isinstance(v, tuple) and len(v) == 2 and v[0] == "r" and isinstance(v[1], str) and any(v[1] == r or v[1].startswith(r + ".") for r in roots)]
            if stale:
                st = st.drop(lambda k: k in stale)
            st = self.rebound(target.id, depth, st)
        return ASpec.bind(self, target, value_expr, st, depth, value=value)

    def rebound(self, name, depth, st):
        return st

    sticky: tuple = ()  # atoms that are facts about the whole path: once decided (forked), the same answer is given again

    def decide_leaf(self, cond, st, depth):
        a = self._atom(cond, st, self) if self._atom and self.sticky else None
        if a is not None and a[0] in self.sticky and a[0] not in self.scenario:
            for t in reversed(st.trace):
                if t[0] == "cond" and t[1] == a[0]:
                    return t[2] if a[1] else (not t[2])
        return ASpec.decide_leaf(self, cond, st, depth)

    def recv(self, call, st):
        """(canonical receiver chain, method name) of ``<recv>.<method>(...)``, else ('', '')."""
        if isinstance(call, ast.Call) and isinstance(call.func, ast.Attribute):
            return self.canon(call.func.value, st), call.func.attr
        return "", ""


class DEngine(Engine):
    """Path engine that also executes the bindings hidden inside a leaf condition: `if (x := f()) is None:`."""

    def _plain_cond(self, expr, s, depth, T, F):
        s = s.emit(*self.spec.events(expr, s))
        for n in eval_order(expr):
            if isinstance(n, ast.NamedExpr):
                s = self.spec.bind(n.target, n.value, s, depth)
        self._decide_into(expr, expr, s, depth, T, F)


    def _captured(self, subject, pattern, s, depth, at):
        """State with the names captured by ``pattern`` bound: `Cls(attr=name)` -> value of subject.attr at match time, `... as name` -> subject."""
        sp = self.spec

        def walk(pat, subj, st):
            if isinstance(pat, ast.MatchAs):
                if pat.pattern is not None:
                    st = walk(pat.pattern, subj, st)
                if pat.name:
                    tgt = ast.Name(id=pat.name, ctx=ast.Store())
                    tgt._parent = at
                    st = sp.bind(tgt, subj, st, depth) if subj is not None else sp.bind(tgt, None, st, depth, value=UNKNOWN)
            elif isinstance(pat, ast.MatchClass):
                for p2 in pat.patterns:
                    st = walk(p2, None, st)  # positional sub-patterns need __match_args__: the value is not resolved
                for a, p2 in zip(pat.kwd_attrs, pat.kwd_patterns):
                    sub = None
                    if subj is not None:
                        sub = ast.Attribute(value=subj, attr=a, ctx=ast.Load())
                        ast.copy_location(sub, pat)
                        sub._parent = at
                    st = walk(p2, sub, st)
            elif isinstance(pat, (ast.MatchSequence, ast.MatchOr)):
                for p2 in pat.patterns:
                    st = walk(p2, None, st)
            elif isinstance(pat, ast.MatchMapping):
                for p2 in pat.patterns:
                    st = walk(p2, None, st)
                if pat.rest:
                    st = walk(ast.MatchAs(pattern=None, name=pat.rest), None, st)
            elif isinstance(pat, ast.MatchStar) and pat.name:
                st = walk(ast.MatchAs(pattern=None, name=pat.name), None, st)
            return st

        return walk(pattern, subject, s)

    def _match(self, node, states, depth):
        # Engine._match, plus: the case that is taken runs (guard and body) with its captures bound
        sp = self.spec
        out = Out.empty()
        cur = {s.emit(*sp.events(node.subject, s)) for s in states}
        for case in node.cases:
            if not cur:
                break
            take, rest = set(), set()
            for s in cur:
                d = sp.match_case(node.subject, case.pattern, s, depth)
                sb = self._captured(node.subject, case.pattern, s, depth, node) if d is not False else s
                if d is True and case.guard is None:
                    take.add(sb)
                elif d is False:
                    rest.add(s)
                elif case.guard is not None and d is True:
                    t, f, ab = self.cond(case.guard, {sb}, depth)
                    out.merge_abrupt(ab)
                    take |= t
                    rest |= f
                else:
                    self.forks += 1
                    take.add(sb)
                    rest.add(s)
            if sp.record_conds:
                cexpr = pattern_to_cond(node.subject, case.pattern)
                if cexpr is not None and not isinstance(cexpr, ast.Constant):
                    take = {self._cev(cexpr, True, s) for s in take}
                    rest = {self._cev(cexpr, False, s) for s in rest}
            mev = getattr(sp, "case_event", None)
            if mev:
                take = {s.emit(mev(node, case, s)) if mev(node, case, s) is not None else s for s in take}
            o = self.block(case.body, take, depth)
            out.merge_abrupt(o)
            out.normal |= o.normal
            cur = rest
        out.normal |= cur
        return out


def run_block(stmts, spec, bindings=None):
    """Terminal (trace, how, state) triples of a statement list (treated as a function body)."""
    eng = DEngine(spec)
    o = eng.run(SimpleNamespace(body=list(stmts)), State((), {}), bindings)
    out = [(s.trace, "return", s) for s in o.ret | o.cont | o.brk]  # (a loop body analysed on its own may end with continue / break)
    for s in o.exc:
        e = s.get("$exc")
        out.append((s.trace, "raise:" + (e[1] if is_const(e) else "?"), s))
    return out, eng


def _module_of(ctx, node, candidates=(H2, H3, I, BASE)):
    n = node
    while getattr(n, "_parent", None) is not None:
        n = n._parent
    for rel in candidates:
        if ctx.model.exists(rel) and ctx.model.module(rel).tree is n:
            return ctx.model.module(rel)
    return None


def _is_log(ctx, call) -> bool:
    """`Log(...)` of mitmproxy.proxy.commands: a logging command has no effect on streams, ids or queues."""
    if not isinstance(call, ast.Call) or last_attr(call.func) != "Log":
        return False
    m = _module_of(ctx, call)
    if m is not None:
        r = ctx.model.resolve_name(m, call.func)
        if r is not None:
            return isinstance(r[1], ast.ClassDef) and r[1].name == "Log" and r[0].rel.endswith("proxy/commands.py")
    return True


def _self_helper_resolver(ctx, rel, cls, skip_names=(), skip_nodes=(), only=None, modules=(H2, H3, I, BASE)):
    """Resolver for the path engine: `self.<m>(...)` -> the method's FunctionDef along the MRO of ``cls`` when it is repository code in
    ``modules``, is not in ``skip_names`` / ``skip_nodes`` and cannot reach itself again through further `self.` calls (no recursion)."""
    reach_cache: dict = {}

    def callees(fn):
        out = set()
        for n in ast.walk(fn):
            if isinstance(n, ast.Call) and isinstance(n.func, ast.Attribute) and isinstance(n.func.value, ast.Name) and n.func.value.id == "self" and n.func.attr not in skip_names:
                out.add(n.func.attr)
        return out

    def recursive(name):
        if name not in reach_cache:
            seen, todo = set(), [name]
            hit = False
            while todo:
                r = ctx.model.method(rel, cls, todo.pop())
                if r is None:
                    continue
                for c in callees(r[1]):
                    if c == name:
                        hit = True
                    if c not in seen:
                        seen.add(c)
                        todo.append(c)
            reach_cache[name] = hit
        return reach_cache[name]

    def resolver(call):
        f = call.func
        if not (isinstance(f, ast.Attribute) and isinstance(f.value, ast.Name) and f.value.id == "self"):
            return None
        if f.attr in skip_names or any(call is s for s in skip_nodes):
            return None
        r = ctx.model.method(rel, cls, f.attr)
        if r is None or r[0].rel not in modules or isinstance(r[1], ast.AsyncFunctionDef):
            return None
        if only is not None and not only(r[1]):
            return None
        if recursive(f.attr):
            return None
        return r[1]

    return resolver


def _family(ctx, rel, cls, rels):
    """Names of the classes (in ``rels``) on whose instances `self.<m>` can denote a method of ``cls``: its ancestors and its descendants."""
    fam = {c.name for _, c in ctx.model.mro(rel, cls)}
    for r in rels:
        for q, d in ctx.model.module(r).defs().items():
            if isinstance(d, ast.ClassDef) and cls in {c.name for _, c in ctx.model.mro(r, q)}:
                fam.add(d.name)
    return fam


def _callers(ctx, name, rels, family):
    """(rel, qualname) of every function in ``rels`` that may call / take a reference to the method ``name`` of a class of ``family``:
    `self.<name>` inside the family, `<other receiver>.<name>` anywhere."""
    out = set()
    for rel in rels:
        for q, d in ctx.model.module(rel).defs().items():
            if not isinstance(d, (ast.FunctionDef, ast.AsyncFunctionDef)):
                continue
            inside = q.split(".")[0] in family
            for n in ast.walk(d):
                if isinstance(n, ast.Attribute) and n.attr == name and isinstance(n.ctx, ast.Load):
                    on_self = isinstance(n.value, ast.Name) and n.value.id == "self"
                    if inside or not on_self:
                        out.add((rel, q))
                        break
    return out


def _private_to(ctx, roots, inlined, rels, family):
    """Qualnames of the inlined helpers that are reachable ONLY from ``roots`` (closed under the helpers themselves): what they do is
    exactly what the analysed paths contain."""
    allowed = set(roots)
    changed = True
    while changed:
        changed = False
        for fn in inlined:
            q = getattr(fn, "_qual", fn.name)
            m = _module_of(ctx, fn, rels)
            if m is None or (m.rel, q) in allowed:
                continue
            if all(c in allowed or c == (m.rel, q) for c in _callers(ctx, fn.name, rels, family)):
                allowed.add((m.rel, q))
                changed = True
    return allowed


# ---------------------------------------------------------------------------------------------------
# R05.1 / R05.2 path part

EVSID = ("evsid",)
CMDSID = ("cmdsid",)
FRESH, LOOK, THEIRS = ("ours", "fresh"), ("ours", "lookup"), ("theirs", "lookup")
TRANSLATED = "their[cmd.event.stream_id]"


CMD = "$cmd"  # canonical name of the command currently coming back from the protocol handler, whatever the loop variable is called


def _anchors(ctx, rel, cls):
    """(_handle_event, name of its event parameter, the call of the protocol handler whose commands are passed on).

    The protocol handler call is `<handler>(event)` whose result is ITERATED: by a for loop directly, through a single-assignment local, or
    inside a helper of the class it is handed to (`yield from self._pass_on(self._handle_event2(event))`)."""
    fn = ctx.func(rel, f"{cls}._handle_event")
    ev = params_of(fn)[0]
    found = []

    def iterated_param(r, i):
        ps = params_of(r[1]) if r is not None else []
        return i < len(ps) and len(_bindings(r[1]).get(ps[i], ())) == 1 and any(isinstance(l, ast.For) and isinstance(l.iter, ast.Name) and l.iter.id == ps[i] for l in ast.walk(r[1]))

    def scan(f, evn, seen):
        # `evn`: the name the event being handled has in ``f`` (its parameter, or the parameter of a private helper it was handed to unchanged)
        single = _single(f)
        if f is not fn and len(_bindings(f).get(evn, ())) != 1:
            return
        for n in walk_in_order(f):
            if not (isinstance(n, ast.Call) and len(n.args) == 1 and not n.keywords and isinstance(n.args[0], ast.Name) and n.args[0].id == evn and not is_self_call(n, fn.name)):
                continue
            p = getattr(n, "_parent", None)
            if isinstance(p, (ast.For, ast.AsyncFor)) and p.iter is n:
                found.append(n)
            elif isinstance(p, ast.Assign) and len(p.targets) == 1 and isinstance(p.targets[0], ast.Name) and single.get(p.targets[0].id) is n:
                if any(isinstance(l, ast.For) and isinstance(l.iter, ast.Name) and l.iter.id == p.targets[0].id for l in ast.walk(f)):
                    found.append(n)
            elif isinstance(p, ast.Call) and n in p.args and isinstance(p.func, ast.Attribute) and isinstance(p.func.value, ast.Name) and p.func.value.id == "self" and iterated_param(ctx.model.method(rel, cls, p.func.attr), p.args.index(n)):
                found.append(n)
            elif isinstance(n.func, ast.Attribute) and isinstance(n.func.value, ast.Name) and n.func.value.id == "self" and n.func.attr not in seen:
                # the event is handed on to a private helper of the class (`yield from self._dispatch(event)`): the loop may live there
                r = ctx.model.method(rel, cls, n.func.attr)
                if r is not None and r[0].rel in (H2, H3) and isinstance(r[1], ast.FunctionDef) and params_of(r[1]):
                    scan(r[1], params_of(r[1])[0], seen | {n.func.attr})

    scan(fn, ev, frozenset({fn.name}))
    ctx.require(len(found) == 1, f"{cls}._handle_event: expected one `for cmd in <inner handler>(event)` loop")
    return fn, ev, found[0]


def _client_spec(ctx, rel, cls, fn, ev, inner, scenario, leaves=None):
    cmdvar = CMD
    def val(expr, st, sp):
        if isinstance(expr, ast.Call):
            if expr is inner:
                return ("innercall",)
            ch, m = sp.recv(expr, st)
            if ch == MAPS[0] and m == "get" and not expr.keywords and expr.args and (len(expr.args) == 1 or (len(expr.args) == 2 and _is_none(expr.args[1]))) and sp.v(expr.args[0], st) == EVSID:
                return st.get("our@evsid") if st.has("our@evsid") else LOOK
            if m == "get_next_available_stream_id" and ch in ("self.h2_conn", "self.h3_conn"):
                return FRESH
            if ch == QUEUE and m == "pop":
                return ("popped",)
            if ch == QUEUE and m == "setdefault" and len(expr.args) == 2 and not expr.keywords and _is_empty_seq(expr.args[1]):
                return ("qslot", shown(sp.v(expr.args[0], st)), "made")  # the list of events queued under that key, created when missing
            if ch == QUEUE and m in ("keys", "items") and not expr.args and not expr.keywords:
                return ("qkeys",) if m == "keys" else ("qitems",)
            if isinstance(expr.func, ast.Name) and len(expr.args) == 1 and not expr.keywords:
                a0 = expr.args[0]
                if expr.func.id == "iter" and (sp.canon(a0, st) == QUEUE or sp.v(a0, st) == ("qkeys",)):
                    return ("qiter",)
                if expr.func.id == "iter" and sp.v(a0, st) == ("qitems",):
                    return ("qiter_items",)
                if expr.func.id == "next" and sp.v(a0, st) == ("qiter",):
                    return ("qfirst",)  # the key of the stream that has been waiting longest (dicts keep insertion order)
                if expr.func.id == "next" and sp.v(a0, st) == ("qiter_items",):
                    return ("qfirst_item",)
                if expr.func.id in ("list", "tuple") and (sp.canon(a0, st) == QUEUE or sp.v(a0, st) == ("qkeys",)):
                    return ("qkeylist",)
        if isinstance(expr, ast.Subscript) and isinstance(expr.ctx, ast.Load):
            ch = sp.canon(expr.value, st)
            if ch == MAPS[0] and sp.v(expr.slice, st) == EVSID:
                return st.get("our@evsid") if st.has("our@evsid") else LOOK
            if ch == MAPS[1] and sp.v(expr.slice, st) == CMDSID:
                return THEIRS
            if ch == QUEUE:
                return ("qslot", shown(sp.v(expr.slice, st)), "sub")  # the list of events queued under that key (KeyError on a plain dict when missing)
            if isinstance(expr.slice, ast.Constant) and expr.slice.value == 0 and type(expr.slice.value) is int and sp.v(expr.value, st) == ("qkeylist",):
                return ("qfirst",)  # list(stream_queue)[0]
        if isinstance(expr, ast.Attribute) and isinstance(expr.ctx, ast.Load):
            c = sp.canon(expr, st)
            if c == f"{ev}.stream_id":
                return st.get("evsid") if st.has("evsid") else EVSID
            if c == f"{cmdvar}.event.stream_id":
                return st.get("cmdsid") if st.has("cmdsid") else CMDSID
        return None

    def shown(v):
        return v if isinstance(v, tuple) and v and v[0] in ("evsid", "cmdsid", "ours", "theirs", "qfirst") else ("?",)

    def first_events(v):
        # the events of the stream taken out of the queue: what pop() returned, or the entry of the first key read before it is deleted
        return v == ("popped",) or v == ("qslot", ("qfirst",), "sub")

    def label(node, st, sp):
        out = []
        if try_lookup(node, st, sp):
            out.append(("cond", "NEW", False))  # the lookup did not raise (labels are only produced on the normal path)
        for n in eval_order(node):
            if isinstance(n, ast.Call):
                ch, m = sp.recv(n, st)
                if ch == QUEUE and m == "pop":
                    out.append(("q_pop", "first" if len(n.args) == 1 and not n.keywords and sp.v(n.args[0], st) == ("qfirst",) else norm(n)))
                elif ch == QUEUE and m in ("popitem", "clear"):
                    out.append(("q_pop", m))
                elif m in ("append", "extend", "insert", "appendleft", "__iadd__") and _is_qslot(sp.v(n.func.value, st)):
                    slot = sp.v(n.func.value, st)
                    if m == "append" and len(n.args) == 1 and not n.keywords:
                        out.append(("q_append", slot[1], sp.canon(n.args[0], st) or norm(n.args[0]), slot[2]))
                    else:
                        out.append(("q_append", ("?",), norm(n)))
                elif ch == QUEUE and m == "setdefault" and len(n.args) == 2 and not n.keywords and _is_empty_seq(n.args[1]):
                    out.append(("q_slot", shown(sp.v(n.args[0], st))))  # an empty slot: nothing is queued by this alone
                elif ch == QUEUE and m in ("setdefault", "update", "__setitem__"):
                    out.append(("q_append", ("?",), norm(n)))
                elif ch in MAPS and m in ("pop", "clear", "update", "setdefault", "popitem", "__setitem__", "__delitem__"):
                    out.append(("map_other", norm(n)))
                elif is_self_call(n, fn.name) and isinstance(getattr(n, "_parent", None), ast.YieldFrom):
                    a0 = n.args[0] if n.args else None
                    p = n
                    while p is not None and not isinstance(p, (ast.For, ast.FunctionDef)):
                        p = getattr(p, "_parent", None)
                    ok = isinstance(p, ast.For) and isinstance(a0, ast.Name) and isinstance(p.target, ast.Name) and p.target.id == a0.id and len(n.args) == 1 and first_events(sp.v(p.iter, st))
                    out.append(("replay", "loopvar" if ok else norm(n)))
            elif isinstance(n, ast.Yield):
                if n.value is not None and sp.canon(n.value, st) == cmdvar:
                    out.append(("yield", "cmd"))
                elif not _is_log(ctx, n.value):
                    out.append(("yield", norm(n.value) if n.value is not None else ""))
        for t, v in _stores(node) if isinstance(node, (ast.Assign, ast.AnnAssign, ast.AugAssign)) else []:
            plain = v is not None  # the value of a tuple assignment is evaluated before any of its stores, like here (labels see the state before)
            if isinstance(t, ast.Subscript):
                ch = sp.canon(t.value, st)
                if ch in MAPS and plain:
                    out.append(("map_our" if ch == MAPS[0] else "map_their", shown(sp.v(t.slice, st)), shown(sp.v(v, st))))
                elif ch in MAPS:
                    out.append(("map_other", norm(node)))
                elif ch == QUEUE and isinstance(node, ast.AugAssign) and isinstance(node.op, ast.Add) and isinstance(node.value, (ast.List, ast.Tuple)) and len(node.value.elts) == 1 and not isinstance(node.value.elts[0], ast.Starred):
                    out.append(("q_append", shown(sp.v(t.slice, st)), sp.canon(node.value.elts[0], st) or norm(node.value.elts[0]), "sub"))  # `stream_queue[k] += [event]`
                elif ch == QUEUE and plain and _is_empty_seq(v):
                    out.append(("q_slot", shown(sp.v(t.slice, st))))  # `stream_queue[k] = []`
                elif ch == QUEUE:
                    out.append(("q_append", ("?",), norm(node)))
            elif isinstance(t, ast.Attribute):
                c = sp.canon(t, st)
                if c == f"{ev}.stream_id":
                    out.append(("rewrite_in", shown(sp.v(v, st)) if plain else ("?",)))
                elif c == f"{cmdvar}.event.stream_id":
                    out.append(("rewrite_out", TRANSLATED if plain and sp.v(v, st) == THEIRS else norm(v if plain else node)))
                elif c in MAPS or c == QUEUE:
                    out.append(("map_other", norm(node)))
        if isinstance(node, ast.Delete):
            for t in node.targets:
                ch = sp.canon(t.value if isinstance(t, ast.Subscript) else t, st)
                if ch in MAPS:
                    out.append(("map_other", norm(node)))
                elif ch == QUEUE:
                    out.append(("q_pop", "first" if isinstance(t, ast.Subscript) and sp.v(t.slice, st) == ("qfirst",) else norm(node)))
        return out

    def try_lookup(stmt, st, sp):
        # `try: ours = self.our_stream_id[event.stream_id]` / `except KeyError:` is the same test as `.get()` + `is None`
        p = getattr(stmt, "_parent", None)
        if isinstance(stmt, (ast.Assign, ast.AnnAssign, ast.Expr)) and isinstance(p, ast.Try) and stmt in p.body and not st.has("our@evsid"):
            if any(h.type is None or set(class_names(h.type)) & {"KeyError", "LookupError", "Exception", "BaseException"} for h in p.handlers):
                return any(isinstance(n, ast.Subscript) and isinstance(n.ctx, ast.Load) and sp.canon(n.value, st) == MAPS[0] and sp.v(n.slice, st) == EVSID for n in ast.walk(stmt))
        return False

    def atom(expr, st, sp):
        io = _isinst(expr)
        if io:
            c = sp.canon(io[0], st)
            if c == ev and io[1] == ["HttpEvent"]:
                return ("H", True)
            if c == cmdvar and io[1] == ["ReceiveHttp"]:
                return ("RH", True)
        cp = compare_pair(expr, (ast.Is, ast.IsNot, ast.Eq, ast.NotEq))
        if cp and _is_none(cp[1]) and sp.v(cp[0], st) == LOOK:
            return ("NEW", isinstance(cp[2], (ast.Is, ast.Eq)))
        cp = compare_pair(expr, (ast.In, ast.NotIn))
        if cp and sp.canon(cp[1], st) == MAPS[0] and sp.v(cp[0], st) == EVSID:
            if st.has("our@evsid"):
                return ("MAPPED_NOW", isinstance(cp[2], ast.In))  # asked again after the entry was written on this path
            return ("NEW", isinstance(cp[2], ast.NotIn))
        if cp and sp.canon(cp[1], st) == QUEUE and sp.v(cp[0], st) == EVSID:
            return ("QHAS", isinstance(cp[2], ast.In))  # is this event's stream waiting already?
        return None

    def raises(stmt, st, sp):
        return ["KeyError"] if try_lookup(stmt, st, sp) else []

    class CS(DSpec):
        sticky = ("NEW",)  # "the stream of this event is not mapped yet" does not change while the event is handled (the map entry written for it is tracked as a value)

        def effect(self, stmt, st, depth):
            hit = {}
            if isinstance(stmt, (ast.Assign, ast.AnnAssign, ast.AugAssign)):
                for t, v in _stores(stmt):
                    if isinstance(t, ast.Attribute):
                        c = self.canon(t, st, depth)
                        if c == f"{ev}.stream_id":
                            hit["evsid"] = self.value(v, st, depth) if v is not None else UNKNOWN
                        elif c == f"{cmdvar}.event.stream_id":
                            hit["cmdsid"] = self.value(v, st, depth) if v is not None else UNKNOWN
                    elif isinstance(t, ast.Subscript) and self.canon(t.value, st, depth) == MAPS[0] and self.value(t.slice, st, depth) == EVSID:
                        hit["our@evsid"] = self.value(v, st, depth) if v is not None else UNKNOWN  # what a later our_stream_id[event's original id] yields
            st = DSpec.effect(self, stmt, st, depth)
            for k, v in hit.items():
                st = st.set(k, v)
            return st

        def bind(self, target, value_expr, st, depth, value=None):
            p = getattr(target, "_parent", None)
            if isinstance(target, (ast.Tuple, ast.List)) and len(target.elts) == 2 and all(isinstance(e, ast.Name) for e in target.elts) and value_expr is not None \
                    and (value if value is not None else self.value(value_expr, st, depth)) == ("qfirst_item",):
                # key, events = next(iter(self.stream_queue.items()))
                st = DSpec.bind(self, target.elts[0], None, st, depth, value=("qfirst",))
                return DSpec.bind(self, target.elts[1], None, st, depth, value=("qslot", ("qfirst",), "sub"))
            if isinstance(target, ast.Name) and value_expr is None and isinstance(p, (ast.For, ast.AsyncFor)) and p.target is target and self.value(p.iter, st, depth) == ("innercall",):
                # the next command of the protocol handler: what was known about the previous one's id no longer applies
                if st.has("cmdsid"):
                    st = st.drop(lambda k: k == "cmdsid")
                value = ("sym", CMD)
            return DSpec.bind(self, target, value_expr, st, depth, value=value)

        def rebound(self, name, depth, st):
            # another event: what was known about the previous one's id no longer applies
            if depth == 0 and name == ev and (st.has("evsid") or st.has("our@evsid")):
                st = st.drop(lambda k: k in ("evsid", "our@evsid"))
            return st

        def loop_event(self, node, entered, st):
            if isinstance(node.target, ast.Name) and self.v(node.iter, st) == ("innercall",):
                return ("inner", norm(inner.func), entered)
            if first_events(self.v(node.iter, st)):
                return ("qloop", entered)
            return None

        def handler_event(self, h, ename, st):
            return ("cond", "NEW", True) if ename == "KeyError" else ("caught", ename)

        def cond_event(self, expr, value, st):
            a = atom(expr, st, self)
            if a is not None:
                return ("cond", a[0], value if a[1] else (not value))
            if leaves is not None:
                key = f"{getattr(expr, 'lineno', 0)}:{getattr(expr, 'col_offset', 0)}:{norm(expr)[:90]}"
                leaves[key] = expr
                return ("cond?", key, value)
            return None

    resolver = _self_helper_resolver(ctx, rel, cls, skip_names=(fn.name,), skip_nodes=(inner,))
    return CS(label=label, atom=atom, scenario={**scenario, "MAPPED_NOW": True}, val=val, raises=raises, resolver=resolver, unroll=2, max_depth=3)


def _queue_kind(ctx, rel, cls):
    """What `self.stream_queue` is created as in the class: 'auto' (a defaultdict whose missing entries are created as empty sequences),
    'plain' (`{}` / `dict()`: reading a missing key raises), else 'other' (nothing is concluded)."""
    kinds = set()
    for _, c in ctx.model.mro(rel, cls):
        for fn in c.body:
            if not isinstance(fn, ast.FunctionDef):
                continue
            for n in ast.walk(fn):
                if isinstance(n, (ast.Assign, ast.AnnAssign)) and n.value is not None:
                    for t, v in _stores(n):
                        if attr_chain(t) == QUEUE and v is not None:
                            if isinstance(v, ast.Call) and last_attr(v.func) == "defaultdict" and len(v.args) == 1 and not v.keywords and last_attr(v.args[0]) in ("list", "deque"):
                                kinds.add("auto")
                            elif (isinstance(v, ast.Dict) and not v.keys) or (isinstance(v, ast.Call) and isinstance(v.func, ast.Name) and v.func.id == "dict" and not v.args and not v.keywords):
                                kinds.add("plain")
                            else:
                                kinds.add("other")
    return next(iter(kinds)) if len(kinds) == 1 else "other"


def _client(ctx, rel, cls, gated):
    fn, ev, inner = _anchors(ctx, rel, cls)
    w = (rel, f"{cls}._handle_event", fn)

    results = []
    inlined = {}
    for H in (True, False):
        sp = _client_spec(ctx, rel, cls, fn, ev, inner, {"H": H})
        traces, _ = run_block(fn.body, sp, {ev: ("param", ev)})
        inlined.update(sp.inlined_fns)
        results.append((H, traces))

    # who-may-write: the analysed paths (the function itself and the private helpers inlined into it) are the only writers
    writers = set()
    for m in (ctx.model.module(H2), ctx.model.module(H3)):
        for q, d in m.defs().items():
            if isinstance(d, ast.FunctionDef):
                for n in ast.walk(d):
                    hit = False
                    if isinstance(n, (ast.Assign, ast.AugAssign, ast.AnnAssign, ast.Delete, ast.For, ast.With)):
                        tg = n.targets if isinstance(n, ast.Delete) else [t for t, _ in _stores(n)]
                        hit = any((isinstance(t, ast.Subscript) and attr_chain(t.value) in MAPS) or (attr_chain(t) in MAPS and d.name != "__init__") for t in tg)
                    elif isinstance(n, ast.Call) and isinstance(n.func, ast.Attribute):
                        hit = attr_chain(n.func.value) in MAPS and n.func.attr in ("pop", "clear", "update", "setdefault", "popitem", "__setitem__", "__delitem__")
                    if hit:
                        writers.add((m.rel, q))
    mine = _private_to(ctx, {(rel, f"{cls}._handle_event")}, list(inlined.values()), (H2, H3), _family(ctx, rel, cls, (H2, H3)))
    mro_names = {c.name for _, c in ctx.model.mro(rel, cls)}
    others = {x for x in writers if x[1].split(".")[0] in mro_names} - mine
    ctx.check(not others, "R05.1", w, f"{cls}: writers of our_stream_id/their_stream_id", f"the stream-id maps are also written in {sorted(others)} - the converse-pair invariant is no longer established at one place",
              desc=f"{cls}: stream-id maps written only in _handle_event" + (f" (and its private helpers {sorted(q for _, q in mine if not q.endswith('._handle_event'))})" if len(mine) > 1 else ""))

    queue_kind = _queue_kind(ctx, rel, cls) if gated else None
    for H, traces in results:
        ctx.paths += len(traces)
        ctx.require(traces, f"{cls}._handle_event: no path")
        prob = {}
        n_new = n_known = n_gated = n_out = 0
        for tr, how, _ in traces:
            if how != "return":
                continue
            toks = proj(tr, ("map_our", "map_their", "map_other", "rewrite_in", "rewrite_out", "inner", "yield", "q_append", "q_slot", "q_pop", "qloop", "replay", "cond"))
            eff = [t for t in toks if t[0] != "cond"]
            if any(t[0] == "map_other" for t in eff):
                prob.setdefault("map writes", ("the stream-id maps are modified other than by the converse pair of item assignments", eff))
                continue
            inner_at = [i for i, t in enumerate(eff) if t[0] == "inner"]
            if any(t[0] == "q_append" for t in eff):
                n_gated += 1
                if not gated:
                    prob.setdefault("gate", ("unexpected stream queue", eff))
                else:
                    # creating the (empty) list of the event's own stream before appending to it is part of the append
                    slots = [i for i, t in enumerate(eff) if t == ("q_slot", EVSID)]
                    rest = [t for t in eff if t != ("q_slot", EVSID)]
                    if not (H and len(rest) == 1 and rest[0][:3] == ("q_append", EVSID, ev) and all(i < eff.index(rest[0]) for i in slots)) or ("cond", "NEW", True) not in toks:
                        prob.setdefault("gate", ("a gated event must be appended to stream_queue[its original stream id] and nothing else may happen "
                                                 "(no id allocation, no rewrite, no send)", eff))
                    elif rest[0][3:] == ("sub",) and not slots and queue_kind == "plain" and ("cond", "QHAS", True) not in toks[: toks.index(rest[0])]:
                        prob.setdefault("gate", ("the event is appended to stream_queue[its stream id], but stream_queue is a plain dict and the first event of a stream finds no list there "
                                                 "(KeyError - the stream is lost)", eff))
                continue
            if any(t[0] == "q_slot" for t in eff):
                prob.setdefault("gate", ("an empty entry is left in stream_queue for a stream that is not waiting for capacity (it would be resumed in place of a waiting stream)", eff))
                continue
            if not inner_at:
                prob.setdefault("dispatch", ("the event never reaches the protocol handler", eff))
                continue
            pre = eff[: inner_at[0]]
            if H:
                new = ("cond", "NEW", True) in toks
                ri = [t for t in pre if t[0] == "rewrite_in"]
                maps = [t for t in pre if t[0] in ("map_our", "map_their")]
                if new:
                    n_new += 1
                    if sorted(maps) != sorted([("map_our", EVSID, FRESH), ("map_their", FRESH, EVSID)]):
                        prob.setdefault("converse pair", (f"a new stream must be recorded as our[event.stream_id] = y and their[y] = event.stream_id with y fresh (saw {maps})", eff))
                    elif ri != [("rewrite_in", FRESH)] or pre.index(ri[0]) < max(pre.index(m) for m in maps):
                        prob.setdefault("rewrite in", (f"event.stream_id must be rewritten to the fresh id after the pair was recorded under the original id (saw {ri})", eff))
                else:
                    n_known += 1
                    if maps:
                        prob.setdefault("converse pair", ("the maps are rewritten for a stream that is already mapped", eff))
                    elif ri != [("rewrite_in", LOOK)]:
                        prob.setdefault("rewrite in", (f"an HttpEvent for a mapped stream must get stream_id = our_stream_id[event.stream_id] before it is handled (saw {ri})", eff))
            elif any(t[0] in ("rewrite_in", "map_our", "map_their") for t in pre):
                prob.setdefault("rewrite in", ("a non-HTTP event gets its ids rewritten", eff))
            # outbound: per inner-loop iteration
            for a, b in zip(inner_at, inner_at[1:] + [len(eff)]):
                if not eff[a][2]:
                    continue
                seg = eff[a + 1 : b]
                end = next((i for i, t in enumerate(seg) if t[0] in ("q_pop", "qloop", "replay")), len(seg))
                seg = seg[:end]
                conds = [t for t in toks[toks.index(eff[a]) :] if t[0] == "cond" and t[1] == "RH"]
                ys = [t for t in seg if t[0] == "yield"]
                n_out += 1
                if ys != [("yield", "cmd")]:
                    prob.setdefault("yield once", (f"a command of the protocol handler is not yielded exactly once (saw {ys})", eff))
                elif not conds:
                    prob.setdefault("rewrite out", ("commands are forwarded without checking for ReceiveHttp", eff))
            # rewrite_out consistency over the whole trace (RH True -> translated before the yield, RH False -> untouched)
            last_rh = None
            pending = False
            for t in toks:
                if t[0] == "inner" and t[2]:
                    last_rh, pending = None, False
                elif t[0] == "cond" and t[1] == "RH":
                    last_rh = t[2]
                elif t[0] == "rewrite_out":
                    if pending or t[1] != TRANSLATED or last_rh is not True:
                        prob.setdefault("rewrite out", (f"ids of commands going back are rewritten wrongly ({t[1]})", eff))
                    pending = t[1] == TRANSLATED
                elif t == ("yield", "cmd"):
                    if last_rh is True and not pending:
                        prob.setdefault("rewrite out", ("a ReceiveHttp is passed up with the upstream stream id instead of the client's (their_stream_id lookup missing before the yield) "
                                                        "- the response would land on the wrong client stream", eff))
            # resume
            pops = [t for t in eff if t[0] == "q_pop"]
            if pops:
                if not gated or pops != [("q_pop", "first")]:
                    prob.setdefault("resume order", (f"queued streams must be resumed first-in first-out via pop(next(iter(stream_queue))) (saw {pops})", eff))
                else:
                    after = eff[eff.index(pops[0]) + 1 :]
                    ql = [i for i, t in enumerate(after) if t[0] == "qloop"]
                    okr = bool(ql)
                    for a, b in zip(ql, ql[1:] + [len(after)]):
                        rp = [t for t in after[a + 1 : b] if t[0] == "replay"]
                        if after[a][1] and rp != [("replay", "loopvar")]:
                            okr = False
                    if not okr or any(t[0] == "replay" for t in after[: ql[0]] if ql):
                        prob.setdefault("resume replay", ("the events of the resumed stream are not replayed in order, each exactly once", eff))
            elif any(t[0] in ("replay", "qloop") for t in eff):
                prob.setdefault("resume replay", ("replay without taking a stream out of the queue", eff))
        for cons, (why, eff) in prob.items():
            ctx.fail("R05.2" if cons in ("gate", "resume order", "resume replay") else "R05.1", w, f"{cls} HttpEvent={H}: {cons}", f"{why}; trace: {show(eff)}")
        if H:
            ctx.require(prob or (n_new and n_known and n_out and (n_gated or not gated)), f"{cls}._handle_event: expected paths not found (new={n_new} known={n_known} gated={n_gated} out={n_out})")
        r1 = [c for c in prob if c not in ("gate", "resume order", "resume replay")]
        r2 = [c for c in prob if c in ("gate", "resume order", "resume replay")]
        if not r1:
            ctx.ok("R05.1", f"{cls}._handle_event HttpEvent={H}: {len(traces)} paths (new={n_new} mapped={n_known}) translate ids in and out")
        if gated and H and not r2:
            ctx.ok("R05.2", f"{cls}._handle_event: {n_gated} gated paths queue only; resume pops the first queued stream and replays in order")


# ---------------------------------------------------------------------------------------------------
# R05.2 decision tables


BASE_ENV = (OPEN, PROV, REMOTE, QUEUE)
REMOVERS = ("pop", "popitem", "clear", "remove", "discard")
LOCAL_CLOSERS = ("reset_stream", "end_stream")


def _removes(fn, chain):
    """Does ``fn`` ever take something OUT of ``chain`` (pop/del/clear/remove, re-assignment, -=)?"""
    for n in ast.walk(fn):
        if isinstance(n, ast.Call) and isinstance(n.func, ast.Attribute) and attr_chain(n.func.value) == chain and n.func.attr in REMOVERS:
            return True
        if isinstance(n, ast.Delete) and any(attr_chain(t.value if isinstance(t, ast.Subscript) else t) == chain for t in n.targets):
            return True
        if isinstance(n, ast.Assign) and any(attr_chain(t) == chain for t in n.targets):
            return True
        if isinstance(n, ast.AugAssign) and attr_chain(n.target) == chain:
            return True
    return False


def _decoupled_from_h2(ctx, chain):
    """Evidence that the bookkeeping attribute ``chain`` of Http2Client is NOT kept equal to hyper-h2's count of open outbound streams.

    hyper-h2 drops a stream from ``open_outbound_streams`` as soon as it is closed - also when *we* close it (``h2_conn.reset_stream``,
    ``h2_conn.end_stream`` after the peer half-closed).  A home-grown counter can only stand in for it if every method that closes a stream
    locally - or a method on the call chain into it - takes the stream out of the counter.  Returns (qualname, call node) of a local closer
    for which nothing on the call chain removes from ``chain``; None when no such witness exists (coupling undecided)."""
    mro = ctx.model.mro(H2, "Http2Client")
    methods = {}
    for m, c in reversed(mro):
        for st in c.body:
            if isinstance(st, ast.FunctionDef):
                methods.setdefault(st.name, []).append((c.name, st))
    callers = {}
    for name, defs in methods.items():
        for cname, fn in defs:
            for n in ast.walk(fn):
                if isinstance(n, ast.Call) and isinstance(n.func, ast.Attribute) and n.func.attr in methods:
                    callers.setdefault(n.func.attr, set()).add(name)
    for name, defs in methods.items():
        for cname, fn in defs:
            closers = [n for n in walk_in_order(fn) if isinstance(n, ast.Call) and isinstance(n.func, ast.Attribute) and n.func.attr in LOCAL_CLOSERS and attr_chain(n.func.value) == "self.h2_conn"]
            if not closers:
                continue
            chain_up, todo = {name}, [name]
            while todo:
                for c2 in callers.get(todo.pop(), ()):
                    if c2 not in chain_up:
                        chain_up.add(c2)
                        todo.append(c2)
            if not any(_removes(f2, chain) for nm in chain_up for _, f2 in methods[nm]):
                return f"{cname}.{name}", closers[0]
    return None


class _Missing(AnalysisError):
    def __init__(self, attr):
        AnalysisError.__init__(self, f"self.{attr} is not a quantity of the value table")
        self.attr = attr


class _GateInterp(Interp):
    """pyint over the abstract Http2Client of one table row; reading an attribute of the client the row does not define is reported as such."""

    selfrec = None

    def getattr(self, base, attr, node, depth):
        if base is self.selfrec and attr not in base.__dict__ and self.find_property(base, attr) is None and self.model.method(base._impl[0], base._impl[1], attr) is None:
            raise _Missing(attr)
        return Interp.getattr(self, base, attr, node, depth)


def _abstract_client(row):
    """The Http2Client of one table row: exactly the quantities the capacity decision may depend on."""
    return Rec(
        "Http2Client",
        _impl=(H2, "Http2Client"),
        h2_conn=Rec("H2Connection", open_outbound_streams=row[OPEN], remote_settings=Rec("Settings", max_concurrent_streams=row[REMOTE])),
        provisional_max_concurrency=row[PROV],
        stream_queue={k: list(v) for k, v in row[QUEUE].items()},
        **{ch.split(".", 1)[1]: dict(v) for ch, v in row.items() if ch not in BASE_ENV},
    )


def _eval_leaf(ctx, expr, row, singles):
    """Truth of one branch condition of Http2Client._handle_event (or of a helper inlined into it) on one table row:
    True / False, or ('free', attr|None, why) when it reads something the table does not define."""
    f = enclosing_func(expr) if hasattr(expr, "_parent") else None
    if f is None:
        return ("free", None, "synthesised condition")
    mod = _module_of(ctx, f)
    if mod is None:
        return ("free", None, "helper outside the analysed modules")
    if id(f) not in singles:
        singles[id(f)] = (_single(f), _bindings(f))
    single, allb = singles[id(f)]
    interp = _GateInterp(ctx.model, max_steps=20000)
    me = _abstract_client(row)
    interp.selfrec = me
    env = {"self": me}

    def bind(e, stack):
        for n in ast.walk(e):
            if isinstance(n, ast.Name) and n.id not in env and n.id in allb:
                if n.id not in single:
                    raise AnalysisError(f"`{n.id}` is not a single-assignment temporary")
                if n.id in stack:
                    raise AnalysisError(f"`{n.id}` is defined through itself")
                bind(single[n.id], stack | {n.id})
                env[n.id] = interp.ev(single[n.id], env, mod, 0)

    try:
        bind(expr, frozenset())
        return bool(interp.truthy(interp.ev(expr, env, mod, 0)))
    except _Missing as e:
        return ("free", e.attr, str(e))
    except AnalysisError as e:
        return ("free", None, str(e))
    except Raised as e:
        return ("free", None, f"raises {e.name}")
    except RecursionError:
        return ("free", None, "recursion")


def _gate_tables(ctx):
    fn, ev, inner = _anchors(ctx, H2, "Http2Client")
    w = (H2, "Http2Client._handle_event", fn)

    # the paths of _handle_event with every branch condition they took: (is a new stream, conditions, queued, resumed)
    leaves: dict = {}
    paths = set()
    for H in (True, False):
        sp = _client_spec(ctx, H2, "Http2Client", fn, ev, inner, {"H": H}, leaves=leaves)
        traces, _ = run_block(fn.body, sp, {ev: ("param", ev)})
        ctx.paths += len(traces)
        for tr, how, _ in traces:
            if how != "return":
                continue
            conds = tuple(dict.fromkeys((t[1], t[2]) for t in tr if t[0] == "cond?"))
            new = None if H else False  # is the event's stream still unmapped?  None: the path never asks
            for t in tr:
                if t[0] == "cond" and t[1] == "NEW" and new is None:
                    new = t[2]
            paths.add((H, new, conds, any(t[0] == "q_append" for t in tr), any(t[0] == "q_pop" for t in tr)))
    ctx.require(any(p[3] for p in paths), "Http2Client._handle_event: no path appends to stream_queue (anchor changed)")
    ctx.require(any(p[4] for p in paths), "Http2Client._handle_event: no path takes a stream out of stream_queue (anchor changed)")

    singles: dict = {}
    extras: dict = {}
    while True:
        memo: dict = {}
        bad_g = bad_r = None
        need: dict = {}
        stuck = None
        xs = [dict(zip(extras, combo)) for combo in itertools.product(*[[{i: "s" for i in range(k)} for k in (0, 1, 2, 3, 4)] for _ in extras])]
        n_rows = 0
        for o, p, r, q, x in itertools.product((0, 1, 2, 3, 4), (None, 2), (1, 3), ({}, {7: ["e"]}), xs):
            row = {OPEN: o, PROV: p, REMOTE: r, QUEUE: q, **x}
            rk = (o, p, r, bool(q), tuple(len(v) for v in x.values()))
            limit = p if p else r
            n_rows += 1
            ctx.cells += 2
            GROUPS = ((True, True), (True, False), (False, False))  # (HttpEvent?, stream not mapped yet?)
            cons = {g: [] for g in GROUPS}
            for H, new, conds, queued, resumed in paths:
                free = []
                ok = True
                for key, val in conds:
                    if (key, rk) not in memo:
                        memo[(key, rk)] = _eval_leaf(ctx, leaves[key], row, singles)
                    got = memo[(key, rk)]
                    if isinstance(got, tuple):
                        free.append((key, val, got))
                    elif got != val:
                        ok = False
                        break
                if ok:  # else: this path is not taken with these values
                    for g in GROUPS:
                        if g[0] == H and new in (g[1], None):
                            cons[g].append((queued, resumed, free))
            ctx.require(all(cons.values()), f"Http2Client._handle_event: no path is consistent with the table row open={o} provisional={p} remote_max={r} queued={len(q)}")
            # the path actually taken is one of the consistent ones (the open conditions pick it).  All of them wrong: the decision is wrong
            # whatever the open conditions are.  Some wrong: the decision depends on an open condition.
            for g in GROUPS:
                want_q = g[1] and o >= limit
                want_r = bool(q) and o < limit
                for what, group, wrong in (
                    ("gate", cons[g], [c for c in cons[g] if c[0] != want_q]),
                    ("resume", [c for c in cons[g] if not c[0]], [c for c in cons[g] if not c[0] and c[1] != want_r]),
                ):
                    if not wrong:
                        continue
                    if len(wrong) == len(group) or any(not c[2] for c in wrong):  # (a wrong path without open conditions is taken for some event / command)
                        first = next((c for c in wrong if not c[2]), wrong[0])
                        if what == "gate" and bad_g is None:
                            bad_g = (row, first[0])
                        if what == "resume" and bad_r is None:
                            bad_r = (row, first[1])
                        continue
                    right = [c for c in group if c not in wrong]
                    frees = [g for c in wrong for g in c[2]]
                    telling = [g for g in frees if any(g2[0] == g[0] and g2[1] != g[1] for c in right for g2 in c[2])]  # open conditions on which right and wrong paths differ
                    frees = telling or frees
                    attrs = [g[2][1] for g in frees if g[2][1] is not None and "self." + g[2][1] not in extras]
                    for a in attrs:
                        need.setdefault(a, what)
                    if not attrs and stuck is None and frees:
                        stuck = (what, frees[0][0].split(":", 2)[2], frees[0][2][2])
        if need:
            # quantities the deciding conditions read besides the modelled four: mitmproxy's own bookkeeping.  Such an attribute is only an
            # acceptable measure of "streams open upstream" if it is kept equal to hyper-h2's count; when the class provably does not do that
            # (a stream closed locally stays in it) the attribute is an independent variable of the table, sampled independently of
            # open_outbound_streams.
            for a in need:
                ch = "self." + a
                wit = _decoupled_from_h2(ctx, ch)
                ctx.require(wit is not None, f"the {need[a]} decision reads {ch}; it is removed from wherever a stream is closed locally, so it may or may not track open_outbound_streams (coupling not modelled)")
                extras[ch] = wit
                ctx.note(f"{ch} is not an upstream-open count: {wit[0]} closes a stream in hyper-h2 ({norm(wit[1])[:60]}) and nothing on its call chain removes from {ch}")
            continue
        if stuck is not None and bad_g is None and bad_r is None:
            raise AnalysisError(f"Http2Client._handle_event: the {stuck[0]} decision depends on `{stuck[1]}`, which cannot be evaluated on the value table ({stuck[2]})")
        break

    def fmt(b):
        e = b[0]
        own = "".join(f" len({ch})={len(e[ch])} [kept when {extras[ch][0]} closes a stream itself]" for ch in extras)
        return f"open={e[OPEN]} provisional={e[PROV]} remote_max={e[REMOTE]} queued={len(e[QUEUE])}{own} -> {b[1]}"

    ctx.check(bad_g is None, "R05.2", w, "capacity gate expression", "a new upstream stream is opened although open_outbound_streams has reached (provisional or remote) max_concurrent_streams, or is "
              f"held back although there is capacity: {fmt(bad_g) if bad_g else ''}", desc=f"queued == new stream and open_outbound_streams >= (provisional or remote max) on {n_rows} value rows x {len(paths)} paths")
    ctx.check(bad_r is None, "R05.2", w, "resume expression", f"queued streams are resumed without capacity / not resumed although there is capacity: {fmt(bad_r) if bad_r else ''}",
              desc=f"resumed == queue and open_outbound_streams < (provisional or remote max) on {n_rows} value rows x {len(paths)} paths")

    # provisional_max_concurrency writers
    n_w = 0
    for q, d in ctx.model.module(H2).defs().items():
        if not isinstance(d, ast.FunctionDef) or not q.startswith("Http2Client."):
            continue
        assigns = [n for n in ast.walk(d) if isinstance(n, (ast.Assign, ast.AugAssign, ast.AnnAssign)) and any(attr_chain(t) == PROV for t in (n.targets if isinstance(n, ast.Assign) else [n.target]))]
        if not assigns:
            continue
        evp = params_of(d)[0] if params_of(d) else "_"

        def label(node, st, sp):
            if isinstance(node, (ast.Assign, ast.AugAssign, ast.AnnAssign)) and any(attr_chain(t) == PROV for t in (node.targets if isinstance(node, ast.Assign) else [node.target])):
                return [("set_prov", norm(node.value) if node.value is not None else "?")]
            return []

        def atom(expr, st, sp):
            io = _isinst(expr)
            if io and isinstance(io[0], ast.Name) and io[0].id == evp and io[1] == ["RemoteSettingsChanged"]:
                return ("RSC", True)
            return None

        traces, _ = run_block(d.body, ASpec(label=label, atom=atom, unroll=1), {evp: ("param", evp)})
        ctx.paths += len(traces)
        for tr, how, _ in traces:
            sets = [t for t in tr if t[0] == "set_prov"]
            if sets:
                n_w += 1
                ok = ("cond", "RSC", True) in tr[: tr.index(sets[0])] and all(t[1] == "None" for t in sets)
                ctx.check(ok, "R05.2", (H2, q, d), "provisional_max_concurrency cleared", "the provisional concurrency limit is changed although no SETTINGS frame of the server was received "
                          "- streams could be opened beyond what the server allows", desc=f"{q}: provisional_max_concurrency := None only after RemoteSettingsChanged")
    ctx.require(n_w >= 1, "no path clears provisional_max_concurrency (anchor changed)")


# ---------------------------------------------------------------------------------------------------
# R05.3


def _routing(ctx):
    fn = ctx.func(I, "HttpLayer.event_to_child")
    child_p, event_p = params_of(fn)
    single = _single(fn)

    def from_child(it):
        it = _through(single, it)
        return isinstance(it, ast.Call) and attr_chain(it.func) == f"{child_p}.handle_event"

    loops = loops_over(fn, from_child)
    ctx.require(len(loops) == 1 and isinstance(loops[0].target, ast.Name), "HttpLayer.event_to_child: command loop not found")
    loop = loops[0]
    cmd = loop.target.id
    w = (I, "HttpLayer.event_to_child", loop)
    STREAMS, CONNS = "self.streams", "self.connections"

    def key(e, st, sp):
        return sp.canon(e, st) or norm(e)

    def val(expr, st, sp):
        if isinstance(expr, ast.Subscript) and isinstance(expr.ctx, ast.Load):
            ch = sp.canon(expr.value, st)
            if ch == STREAMS:
                return ("stream", key(expr.slice, st, sp))
            if ch == CONNS:
                return ("conn", key(expr.slice, st, sp))
        if isinstance(expr, ast.Call):
            ch, m = sp.recv(expr, st)
            if ch == STREAMS and m == "get" and not expr.keywords and (len(expr.args) == 1 or (len(expr.args) == 2 and _is_none(expr.args[1]))):
                return ("stream?", key(expr.args[0], st, sp))  # None when the stream is gone (HttpStream objects themselves are never None)
        return None

    def dest(v):
        return ("stream", v[1]) if isinstance(v, tuple) and len(v) == 2 and v[0] == "stream?" else v

    def label(node, st, sp):
        out = []
        for n in eval_order(node):
            if isinstance(n, ast.Call):
                ch, m = sp.recv(n, st)
                if is_self_call(n, "make_stream"):
                    out.append(("make_stream", key(n.args[0], st, sp) if len(n.args) == 1 else "?"))
                elif is_self_call(n, "event_to_child") and len(n.args) == 2:
                    out.append(("route", dest(sp.v(n.args[0], st)), key(n.args[1], st, sp)))
                elif ch == STREAMS and m in ("pop", "clear", "popitem"):
                    out.append(("drop", key(n.args[0], st, sp) if n.args else "?"))
                elif ch == STREAMS and m in ("update", "setdefault", "__setitem__"):
                    out.append(("make_stream", "inline:" + norm(n)))
                elif ch == STREAMS and m == "__delitem__":
                    out.append(("drop", "?"))
        if isinstance(node, (ast.Assign, ast.AnnAssign, ast.AugAssign)):
            for t, _ in _stores(node):
                if (isinstance(t, ast.Subscript) and sp.canon(t.value, st) == STREAMS) or sp.canon(t, st) == STREAMS:
                    out.append(("make_stream", "inline:" + norm(node)))
        elif isinstance(node, ast.Delete):
            for t in node.targets:
                if isinstance(t, ast.Subscript) and sp.canon(t.value, st) == STREAMS:
                    out.append(("drop", key(t.slice, st, sp)))
        return out

    KIND = {"ReceiveHttp": "RECV", "SendHttp": "SEND", "DropStream": "DROP", "GetHttpConnection": "GET", "RegisterHttpConnection": "REG", "OpenConnection": "OPENC", "Command": "ANY"}

    def atom(expr, st, sp):
        io = _isinst(expr)
        if io:
            c = sp.canon(io[0], st)
            if c == cmd and len(io[1]) == 1 and io[1][0] in KIND:
                return (KIND[io[1][0]], True)
            if c == f"{cmd}.event" and io[1] == ["RequestHeaders"]:
                return ("RQH", True)
        # "is the stream still there?": `.get()` result tested against None / for truth, or a membership test - the same decision as `except KeyError`
        cp = compare_pair(expr, (ast.Is, ast.IsNot, ast.Eq, ast.NotEq))
        if cp and _is_none(cp[1]):
            v = sp.v(cp[0], st)
            if isinstance(v, tuple) and v and v[0] == "stream?":
                return ("HAVE", isinstance(cp[2], (ast.IsNot, ast.NotEq)))
        if isinstance(expr, (ast.Name, ast.NamedExpr)):
            v = sp.v(expr, st)
            if isinstance(v, tuple) and v and v[0] == "stream?":
                return ("HAVE", True)
        cp = compare_pair(expr, (ast.In, ast.NotIn))
        if cp and sp.canon(cp[1], st) == STREAMS:
            return ("HAVE", isinstance(cp[2], ast.In))
        return None

    def raises(stmt, st, sp):
        if isinstance(stmt, (ast.Assign, ast.AnnAssign, ast.Expr, ast.Return)):
            return ["KeyError"] if any(isinstance(n, ast.Subscript) and isinstance(n.ctx, ast.Load) and sp.canon(n.value, st) == STREAMS for n in ast.walk(stmt)) else []
        return []

    # private helpers of HttpLayer that touch self.streams are part of the routing decision: they are inlined
    resolver = _self_helper_resolver(ctx, I, "HttpLayer", skip_names=("make_stream", "event_to_child", "_handle_event"),
                                     only=lambda f: any(isinstance(n, ast.Attribute) and attr_chain(n) == STREAMS for n in ast.walk(f)))
    inlined = {}
    rows = {
        "RECV": lambda rqh: ([("make_stream", f"{cmd}.event.stream_id")] if rqh else []) + [("route", ("stream", f"{cmd}.event.stream_id"), f"{cmd}.event")],
        "SEND": lambda rqh: [("route", ("conn", f"{cmd}.connection"), f"{cmd}.event")],
        "DROP": lambda rqh: [("drop", f"{cmd}.stream_id")],
    }
    for kind in ("RECV", "SEND", "DROP", "GET", "REG", "OPENC"):
        sc = {k: (k == kind) for k in ("RECV", "SEND", "DROP", "GET", "REG", "OPENC")}
        sc["ANY"] = True
        sp = DSpec(label=label, atom=atom, scenario=sc, val=val, raises=raises, resolver=resolver, unroll=1)
        traces, _ = run_block(loop.body, sp, {cmd: ("sym", cmd), child_p: ("param", child_p)})
        inlined.update(sp.inlined_fns)
        ctx.paths += len(traces)
        ctx.cells += 1
        ctx.require(traces, "HttpLayer.event_to_child: no path")
        bad = None
        for tr, how, _ in traces:
            if how != "return":
                bad = (tr, f"path ends with {how}")
                continue
            eff = [t for t in proj(tr, ("make_stream", "route", "drop"))]
            rqh = ("cond", "RQH", True) in tr
            made = max((i for i, t in enumerate(tr) if t[0] == "make_stream"), default=-1)  # (what was known about the table before the stream was made is outdated)
            gone = any(t[0] == "caught" or t == ("cond", "HAVE", False) for t in tr[made + 1 :])
            want = rows[kind](rqh) if kind in rows else []
            if gone and kind == "RECV":
                want = want[:-1]  # the stream is already gone: the event is dropped (upstream issue 5343), nothing is routed
            if eff != want:
                bad = (eff, f"expected {show(want) or 'no stream/routing effect'}")
        ctx.check(bad is None, "R05.3", w, f"routing of {kind}", f"{bad[1]}, saw {show(bad[0])}" if bad else "", desc=f"event_to_child {kind}: {show(rows[kind](True)) if kind in rows else 'no stream effect'}")

    # who-may-write self.streams in HttpLayer: make_stream (create), event_to_child (DropStream) and helpers only they call
    writers = {}
    for st in ctx.model.cls(I, "HttpLayer").body:
        if isinstance(st, ast.FunctionDef):
            for n in ast.walk(st):
                if isinstance(n, (ast.Assign, ast.AnnAssign, ast.AugAssign, ast.Delete, ast.For, ast.With)) and any(
                    isinstance(t, ast.Subscript) and attr_chain(t.value) == "self.streams" for t in (n.targets if isinstance(n, ast.Delete) else [t for t, _ in _stores(n)])
                ):
                    writers.setdefault(st.name, []).append(n)
                elif isinstance(n, ast.Call) and method_call_on(n, "self.streams") in ("pop", "clear", "popitem", "update", "setdefault", "__setitem__", "__delitem__"):
                    writers.setdefault(st.name, []).append(n)
    allowed = _private_to(ctx, {(I, "HttpLayer.make_stream"), (I, "HttpLayer.event_to_child")}, list(inlined.values()), (I,), _family(ctx, I, "HttpLayer", (I,)))
    allowed_names = {q.split(".", 1)[1] for _, q in allowed if q.startswith("HttpLayer.")}
    ctx.check(set(writers) <= allowed_names, "R05.3", (I, "HttpLayer", ctx.model.cls(I, "HttpLayer")), "writers of self.streams",
              f"self.streams is modified in {sorted(writers)}; only make_stream (create) and event_to_child (DropStream) may", desc="self.streams written only by make_stream / event_to_child")
    ms = ctx.func(I, "HttpLayer.make_stream")
    sid = params_of(ms)[0]
    ms_single = _single(ms)
    asg = [n for n in ast.walk(ms) if isinstance(n, ast.Assign) and isinstance(n.targets[0], ast.Subscript) and attr_chain(n.targets[0].value) == "self.streams"]
    made = _through(ms_single, asg[0].value) if len(asg) == 1 else None

    def is_sid(e):
        return attr_chain(_through(ms_single, e)) == sid and len(_bindings(ms).get(sid, [])) == 1

    own = None
    if isinstance(made, ast.Call) and last_attr(made.func) == "HttpStream":
        own = made.args[1] if len(made.args) == 2 and not made.keywords else next((k.value for k in made.keywords if k.arg == "stream_id"), None)
    ok = made is not None and is_sid(asg[0].targets[0].slice) and own is not None and is_sid(own)
    ctx.check(ok, "R05.3", (I, "HttpLayer.make_stream", ms), "streams[stream_id] = HttpStream(ctx, stream_id)", "the stream is registered under an id different from its own", desc="make_stream registers HttpStream(ctx, id) under the same id")


# ---------------------------------------------------------------------------------------------------
# R05.4


RECV_CLASSES = ("ReceiveData", "ReceiveTrailers", "ReceiveEndOfMessage", "ReceiveProtocolError", "RequestHeaders", "ResponseHeaders")


def _own_ids(ctx):
    sites = 0
    temps: dict = {}

    def own(fnnode, evvar, e, attr):
        """``e`` denotes <the protocol event being handled>.<attr>: written out, or a local that was assigned exactly that once
        (the attribute itself is never assigned in the handler)."""
        if id(fnnode) not in temps:
            temps[id(fnnode)] = _single(fnnode)
        k = (id(fnnode), evvar, attr)
        if k not in temps:
            temps[k] = any(isinstance(n, ast.Attribute) and isinstance(n.ctx, (ast.Store, ast.Del)) and attr_chain(n) == f"{evvar}.{attr}" for n in ast.walk(fnnode))
        if temps[k]:
            return False
        return attr_chain(_through(temps[id(fnnode)], e)) == f"{evvar}.{attr}"

    def own_id(fnnode, evvar, e):
        return own(fnnode, evvar, e, "stream_id")

    def scan(rel, qual, body_nodes, evvar, fnnode):
        nonlocal sites
        for root in body_nodes:
            for n in walk_in_order(root):
                if isinstance(n, ast.Call) and last_attr(n.func) in RECV_CLASSES and (attr_chain(n.func).startswith("self.") or last_attr(n.func) in ("RequestHeaders", "ResponseHeaders")):
                    # skip constructions inside an inner loop over all streams (connection teardown)
                    p = n
                    inner = False
                    while p is not None and p is not root:
                        if isinstance(p, ast.For) and p not in body_nodes:
                            inner = True
                        p = getattr(p, "_parent", None)
                    if inner:
                        continue
                    sites += 1
                    a0 = n.args[0] if n.args else next((k.value for k in n.keywords if k.arg == "stream_id"), None)
                    ctx.check(a0 is not None and own_id(fnnode, evvar, a0), "R05.4", (rel, qual, n), f"{last_attr(n.func)} stream id in {qual}",
                              f"the event handed to the HTTP layer carries stream id `{norm(a0) if a0 is not None else '?'}` instead of the id of the protocol event being handled ({evvar}.stream_id) "
                              "- data would be attributed to another stream", desc=f"{qual}: {last_attr(n.func)}({evvar}.stream_id, ...)")

    for cls in ("Http2Connection", "Http2Server", "Http2Client"):
        fn = ctx.func(H2, f"{cls}.handle_h2_event")
        scan(H2, f"{cls}.handle_h2_event", fn.body, params_of(fn)[0], fn)
    for cls in ("Http3Server", "Http3Client"):
        fn = ctx.func(H3, f"{cls}.parse_headers")
        scan(H3, f"{cls}.parse_headers", fn.body, params_of(fn)[0], fn)
    fn = ctx.func(H3, "Http3Connection._handle_event")
    loops = [l for l in walk_in_order(fn) if isinstance(l, ast.For) and isinstance(l.target, ast.Name) and any(isinstance(n, ast.Call) and last_attr(n.func) == "isinstance" and n.args and isinstance(n.args[0], ast.Name) and n.args[0].id == l.target.id for n in ast.walk(l))]
    ctx.require(len(loops) == 1, "Http3Connection._handle_event: h3 event loop not found")
    scan(H3, "Http3Connection._handle_event", [loops[0]], loops[0].target.id, fn)
    ctx.require(sites >= 14, f"only {sites} Receive*/Headers construction sites found")

    # stream state bookkeeping uses the same id
    for cls in ("Http2Server", "Http2Client"):
        fn = ctx.func(H2, f"{cls}.handle_h2_event")
        evv = params_of(fn)[0]
        for n in ast.walk(fn):
            if isinstance(n, ast.Assign) and isinstance(n.targets[0], ast.Subscript) and attr_chain(n.targets[0].value) == "self.streams":
                ctx.check(own_id(fn, evv, n.targets[0].slice), "R05.4", (H2, f"{cls}.handle_h2_event", n), "self.streams key", "stream state recorded under a foreign id",
                          desc=f"{cls}.handle_h2_event: self.streams[{evv}.stream_id] := ...")

    # flow-control acknowledgement
    fn = ctx.func(H2, "Http2Connection.handle_h2_event")
    evv = params_of(fn)[0]

    def label(node, st, sp):
        out = []
        for n in eval_order(node):
            if isinstance(n, ast.Call):
                if attr_chain(n.func) == "self.h2_conn.acknowledge_received_data":
                    args = dict(zip(("acknowledged_size", "stream_id"), n.args))
                    args.update({k.arg: k.value for k in n.keywords if k.arg})
                    out.append(("ack", tuple((f"{evv}.{a}" if p in args and own(fn, evv, args[p], a) else norm(args[p]) if p in args else "?")
                                             for p, a in (("acknowledged_size", "flow_controlled_length"), ("stream_id", "stream_id"))) + (("extra",) if len(args) != 2 else ())))
                elif is_self_call(n, "protocol_error") or is_self_call(n, "close_connection"):
                    out.append(("abort",))
        return out

    def atom(expr, st, sp):
        io = isinstance_of(expr)
        if io and isinstance(io[0], ast.Name) and io[0].id == evv and len(io[1]) == 1:
            return ("is:" + io[1][0], True)
        return None

    names = set()
    for n in ast.walk(fn):
        io = isinstance_of(n)
        if io and isinstance(io[0], ast.Name) and io[0].id == evv and len(io[1]) == 1:
            names.add(io[1][0])
    ctx.require("DataReceived" in names, "Http2Connection.handle_h2_event no longer handles DataReceived")
    sc = {"is:" + k: (k == "DataReceived") for k in names}
    traces, _ = run_block(fn.body, ASpec(label=label, atom=atom, scenario=sc, unroll=1), {evv: ("param", evv)})
    ctx.paths += len(traces)
    bad = None
    n_ok = 0
    for tr, how, _ in traces:
        if how != "return":
            continue
        acks = [t for t in tr if t[0] == "ack"]
        if any(t[0] == "abort" for t in tr):
            continue
        n_ok += 1
        if acks != [("ack", (f"{evv}.flow_controlled_length", f"{evv}.stream_id"))]:
            bad = acks
    ctx.require(n_ok >= 2 or bad, "Http2Connection.handle_h2_event: DataReceived paths not found")
    ctx.check(bad is None, "R05.4", (H2, "Http2Connection.handle_h2_event", fn), "acknowledge_received_data on DataReceived",
              f"a received DATA frame is not acknowledged exactly once with its own flow_controlled_length on its own stream (saw {bad}) - the peer's flow-control window of that stream/connection never reopens",
              desc=f"h2 DataReceived: {n_ok} non-error paths acknowledge (flow_controlled_length, stream_id) of the event")


def _stream_identity(ctx):
    """R05.5: an HttpStream names itself only through `self.stream_id` once an event object has been handed on.

    Http2Client / Http3Client rewrite `event.stream_id` **in place** to the upstream id (R05.1 checks that they do). An event that HttpStream
    forwards with `SendHttp(event, conn)` is therefore no longer a reliable source of the *client-side* stream id: any later read of
    `<event>.stream_id` in the same handler (for `DropStream`, for another event, as a key) names a different stream."""
    from ..paths import GenericSpec, traces_of

    rewrites = 0
    for rel, cls in ((H2, "Http2Client"), (H3, "Http3Client")):
        ctx.func(rel, f"{cls}._handle_event")
        for fn in ctx.model.cls(rel, cls).body:  # (_handle_event or a private helper it was split into)
            if isinstance(fn, ast.FunctionDef):
                rewrites += sum(1 for n in ast.walk(fn) if isinstance(n, ast.Assign) and any(attr_chain(t).endswith(".stream_id") and not attr_chain(t).startswith("self.") for t in n.targets))
    ctx.require(rewrites >= 2, "Http2Client/Http3Client no longer rewrite event.stream_id in place (R05.5 premise changed)")
    cls = ctx.model.cls(I, "HttpStream")
    methods = [d for d in cls.body if isinstance(d, ast.FunctionDef)]
    n_sites = 0
    n_drop = 0
    for fn in methods:
        params = {a.arg for a in fn.args.args} - {"self"}
        fwd = [n for n in ast.walk(fn) if isinstance(n, ast.Call) and last_attr(n.func) == "SendHttp" and n.args and isinstance(n.args[0], ast.Name) and n.args[0].id in params]
        for n in ast.walk(fn):
            if isinstance(n, ast.Call) and last_attr(n.func) == "DropStream":
                n_drop += 1
        if not fwd:
            continue
        names = {n.args[0].id for n in fwd}

        class S(GenericSpec):
            def events(self, node, st):
                out = []
                simple = not isinstance(node, (ast.If, ast.While, ast.For, ast.Try, ast.With, ast.FunctionDef, ast.Match))
                if simple:
                    for x in eval_order(node):
                        if isinstance(x, ast.Attribute) and x.attr == "stream_id" and isinstance(x.value, ast.Name) and x.value.id in names and isinstance(x.ctx, ast.Load):
                            out.append(("read", x.value.id, norm(getattr(x, "_parent", x))))
                        if isinstance(x, ast.Call) and last_attr(x.func) == "SendHttp" and x.args and isinstance(x.args[0], ast.Name) and x.args[0].id in names:
                            out.append(("handed", x.args[0].id))
                        if isinstance(x, ast.Assign):
                            pass
                return out

        res, _ = traces_of(fn, S())
        ctx.paths += len(res)
        bad = None
        for t, how, st in res:
            handed = set()
            for e in t:
                if e[0] == "handed":
                    handed.add(e[1])
                elif e[0] == "read" and e[1] in handed:
                    bad = e
        n_sites += len(fwd)
        ctx.check(bad is None, "R05.5", (I, f"HttpStream.{fn.name}", fn), f"{fn.name}: stream id read from an event after SendHttp({', '.join(sorted(names))}, ...)",
                  f"`{bad[2] if bad else ''}` reads the stream id of an event that was already handed to a connection; Http2Client/Http3Client rewrite that field in place to the upstream id, "
                  "so the command names another client stream (its response is dropped / attributed to the wrong flow)", desc=f"HttpStream.{fn.name}: {len(fwd)} forwarded event(s), no later read of their stream_id")
    ctx.require(n_sites >= 1 and n_drop >= 1, "HttpStream no longer forwards received events / yields DropStream (R05.5 anchor changed)")


def check(ctx):
    ctx.rule("R05.5", "HttpStream never reads the stream id of an event after handing that event to a connection (clients rewrite it in place)")
    ctx.rule("R05.1", "stream-id maps are a converse pair written at one place; HttpEvents are rewritten in, ReceiveHttp rewritten out, every command yielded once")
    ctx.rule("R05.2", "concurrency gate / resume expressions (value table), gated events queued per stream only, FIFO resume, provisional limit cleared only on RemoteSettingsChanged")
    ctx.rule("R05.3", "HttpLayer routes ReceiveHttp by stream id, SendHttp by connection, creates streams only on RequestHeaders, drops only on DropStream")
    ctx.rule("R05.4", "per-event handlers forward the protocol event's own stream id; h2 DATA is acknowledged on its own stream")
    ctx.trust("hyper-h2 H2Connection (open_outbound_streams, get_next_available_stream_id), aioquic H3, dict insertion order (FIFO of stream_queue)")
    _client(ctx, H2, "Http2Client", gated=True)
    _client(ctx, H3, "Http3Client", gated=False)
    _gate_tables(ctx)
    _routing(ctx)
    _own_ids(ctx)
    _stream_identity(ctx)
    ctx.expect_instances("R05.5", 1)
    ctx.expect_instances("R05.1", 6)
    ctx.expect_instances("R05.2", 4)
    ctx.expect_instances("R05.3", 8)
    ctx.expect_instances("R05.4", 17)


MUTANTS = [
    Mutant("drop-stream-by-forwarded-event-id", I, "\n        yield DropStream(self.stream_id)", "\n        yield DropStream(event.stream_id)", "R05.5"),
    # R05.1
    Mutant("h2-their-map-wrong-key", H2, "                self.their_stream_id[ours] = event.stream_id\n            event.stream_id = ours\n\n        for cmd in self._handle_event2(event):",
           "                self.their_stream_id[event.stream_id] = ours\n            event.stream_id = ours\n\n        for cmd in self._handle_event2(event):", "R05.1"),
    Mutant("h2-no-rewrite-in", H2, "            event.stream_id = ours\n\n        for cmd in self._handle_event2(event):", "            pass\n\n        for cmd in self._handle_event2(event):", "R05.1"),
    Mutant("h2-no-rewrite-out", H2, "        for cmd in self._handle_event2(event):\n            if isinstance(cmd, ReceiveHttp):\n                cmd.event.stream_id = self.their_stream_id[cmd.event.stream_id]\n            yield cmd",
           "        for cmd in self._handle_event2(event):\n            yield cmd", "R05.1"),
    Mutant("h3-rewrite-out-with-our-map", H3, "cmd.event.stream_id = self.their_stream_id[cmd.event.stream_id]", "cmd.event.stream_id = self.our_stream_id[cmd.event.stream_id]", "R05.1"),
    Mutant("h3-rewrite-before-record", H3, "                self.our_stream_id[event.stream_id] = ours\n                self.their_stream_id[ours] = event.stream_id\n            event.stream_id = ours",
           "                event.stream_id = ours\n                self.our_stream_id[event.stream_id] = ours\n                self.their_stream_id[ours] = event.stream_id\n            event.stream_id = ours", "R05.1"),
    Mutant("h2-map-cleared-elsewhere", H2, "        self.last_activity = time.time()\n        if isinstance(event, Start):", "        self.last_activity = time.time()\n        self.their_stream_id.pop(event.stream_id, None)\n        if isinstance(event, Start):", "R05.1"),
    # R05.2
    Mutant("gate-off-by-one", H2, "no_free_streams = self.h2_conn.open_outbound_streams >= (", "no_free_streams = self.h2_conn.open_outbound_streams > (", "R05.2"),
    Mutant("gate-ignores-provisional", H2, "                no_free_streams = self.h2_conn.open_outbound_streams >= (\n                    self.provisional_max_concurrency\n                    or self.h2_conn.remote_settings.max_concurrent_streams\n                )",
           "                no_free_streams = self.h2_conn.open_outbound_streams >= (\n                    self.h2_conn.remote_settings.max_concurrent_streams\n                )", "R05.2"),
    Mutant("gate-counts-own-stream-table", H2, "no_free_streams = self.h2_conn.open_outbound_streams >= (", "no_free_streams = len(self.streams) >= (", "R05.2"),
    Mutant("resume-counts-id-map", H2, "can_resume_queue = self.stream_queue and self.h2_conn.open_outbound_streams < (", "can_resume_queue = self.stream_queue and len(self.our_stream_id) < (", "R05.2"),
    Mutant("gate-counts-mapped-minus-queued", H2, "no_free_streams = self.h2_conn.open_outbound_streams >= (", "no_free_streams = bool(self.their_stream_id) and len(self.their_stream_id) >= (", "R05.2"),
    Mutant("gate-only-without-debug", H2, "                if no_free_streams:\n", "                if no_free_streams and not self.debug:\n", "R05.2"),
    Mutant("resume-only-on-http-events", H2, "        if can_resume_queue:\n", "        if can_resume_queue and isinstance(event, HttpEvent):\n", "R05.2"),
    Mutant("gate-also-for-mapped-streams", H2, "            if ours is None:\n                no_free_streams", "            if True:\n                no_free_streams", "R05.2"),
    Mutant("resume-lifo", H2, "events = self.stream_queue.pop(next(iter(self.stream_queue)))", "events = self.stream_queue.popitem()[1]", "R05.2"),
    Mutant("resume-last-key", H2, "events = self.stream_queue.pop(next(iter(self.stream_queue)))", "events = self.stream_queue.pop(list(self.stream_queue)[-1])", "R05.2"),
    Mutant("queue-plain-dict-keyerror", H2, "        self.stream_queue = collections.defaultdict(list)\n", "        self.stream_queue = {}\n", "R05.2"),
    Mutant("gated-event-under-shared-key", H2, "                    self.stream_queue[event.stream_id].append(event)\n", "                    self.stream_queue.setdefault(0, []).append(event)\n", "R05.2"),
    Mutant("empty-queue-entry-for-every-new-stream", H2, "                no_free_streams = self.h2_conn.open_outbound_streams >= (", "                self.stream_queue.setdefault(event.stream_id, [])\n                no_free_streams = self.h2_conn.open_outbound_streams >= (", "R05.2"),
    Mutant("resume-without-capacity", H2, "can_resume_queue = self.stream_queue and self.h2_conn.open_outbound_streams < (", "can_resume_queue = self.stream_queue and self.h2_conn.open_outbound_streams <= (", "R05.2"),
    Mutant("gated-event-also-sent", H2, "                    self.stream_queue[event.stream_id].append(event)\n                    return\n", "                    self.stream_queue[event.stream_id].append(event)\n", "R05.2"),
    Mutant("provisional-cleared-on-any-settings-ack", H2, "        elif isinstance(event, h2.events.RequestReceived):\n            yield from self.protocol_error(\n                f\"HTTP/2 protocol error: received request from server\"\n            )\n            return True\n",
           "        elif isinstance(event, h2.events.RequestReceived):\n            yield from self.protocol_error(\n                f\"HTTP/2 protocol error: received request from server\"\n            )\n            return True\n        elif isinstance(event, h2.events.SettingsAcknowledged):\n            self.provisional_max_concurrency = None\n            return (yield from super().handle_h2_event(event))\n", "R05.2"),
    # R05.3
    Mutant("route-receive-by-child-stream", I, "                    stream = self.streams[command.event.stream_id]\n", "                    stream = self.streams[next(iter(self.streams))]\n", "R05.3"),
    Mutant("route-send-by-context-server", I, "                conn = self.connections[command.connection]\n                yield from self.event_to_child(conn, command.event)", "                conn = self.connections[self.context.server]\n                yield from self.event_to_child(conn, command.event)", "R05.3"),
    Mutant("make-stream-on-any-receive", I, "                if isinstance(command.event, RequestHeaders):\n                    yield from self.make_stream(command.event.stream_id)", "                if True:\n                    yield from self.make_stream(command.event.stream_id)", "R05.3"),
    Mutant("drop-on-send", I, "            elif isinstance(command, SendHttp):\n                conn = self.connections[command.connection]", "            elif isinstance(command, SendHttp):\n                self.streams.pop(command.event.stream_id, None)\n                conn = self.connections[command.connection]", "R05.3"),
    # R05.4
    Mutant("h2-data-on-last-stream", H2, "yield ReceiveHttp(self.ReceiveData(event.stream_id, event.data))", "yield ReceiveHttp(self.ReceiveData(max(self.streams), event.data))", "R05.4"),
    Mutant("h2-no-ack", H2, "            self.h2_conn.acknowledge_received_data(\n                event.flow_controlled_length, event.stream_id\n            )\n", "            pass\n", "R05.4"),
    Mutant("h2-ack-only-with-headers", H2, "                return True\n            self.h2_conn.acknowledge_received_data(\n                event.flow_controlled_length, event.stream_id\n            )\n",
           "                return True\n            else:\n                return False\n            self.h2_conn.acknowledge_received_data(\n                event.flow_controlled_length, event.stream_id\n            )\n", "R05.4"),
    Mutant("h3-eom-on-event-stream", H3, "                    if h3_event.stream_ended:\n                        yield ReceiveHttp(self.ReceiveEndOfMessage(h3_event.stream_id))\n                elif isinstance(h3_event, HeadersReceived):",
           "                    if h3_event.stream_ended:\n                        yield ReceiveHttp(self.ReceiveEndOfMessage(event.stream_id))\n                elif isinstance(h3_event, HeadersReceived):", "R05.4"),
]
