"""C05 - HTTP/2 (and HTTP/3) streams are isolated and correctly mapped.

Decided:
  R05.1 stream-id translation in Http2Client._handle_event and Http3Client._handle_event (path enumeration): the maps
        our_stream_id / their_stream_id are written nowhere else; a new mapping is the converse pair
        our[event.stream_id] = y; their[y] = event.stream_id with y fresh from get_next_available_stream_id(), written
        before event.stream_id is rewritten; every HttpEvent reaches the protocol handler with stream_id rewritten to
        the mapped id (looked up or fresh); every command coming back is yielded exactly once and a ReceiveHttp has its
        event.stream_id translated through their_stream_id[...] first.
  R05.2 capacity gate of Http2Client: the gate expression equals  open_outbound_streams >= (provisional or remote max)
        and the resume expression equals  queue non-empty and open_outbound_streams < (provisional or remote max)  on a
        table of concrete values (the expressions are interpreted, not executed).  The only acceptable measure of "streams open upstream"
        is hyper-h2's own open_outbound_streams: it drops a stream the moment it is closed by EITHER side.  When an expression reads another
        attribute of the client (self.streams, the id maps ...) the class is searched for a method that closes a stream locally
        (h2_conn.reset_stream / end_stream) while nothing on its call chain removes from that attribute; with such a witness the attribute
        is an independent table variable (sizes 0..4) - phantom entries then either hold queued streams back for ever or overrun the limit -
        without one the coupling is undecided (exit 2); a gated event is appended to
        stream_queue[its original stream id] and nothing else happens; resume takes the FIRST queued stream
        (pop(next(iter(queue)))) and replays its events in order, each once; provisional_max_concurrency is only
        cleared (to None) when RemoteSettingsChanged was received.
  R05.3 HttpLayer.event_to_child routing table: ReceiveHttp -> self.streams[command.event.stream_id] with
        command.event (stream created first iff RequestHeaders), SendHttp -> self.connections[command.connection] with
        command.event, DropStream -> streams.pop(command.stream_id); no other command creates or drops streams;
        self.streams is written only by make_stream (key == the HttpStream's own id) and the DropStream branch.
  R05.4 per-event handlers (handle_h2_event x3, the HTTP/3 event loop, parse_headers x2) build every Receive*/
        RequestHeaders/ResponseHeaders event with the stream id of the h2/h3 event being handled; every non-error
        h2 DataReceived path acknowledges exactly that event's flow_controlled_length on that event's stream.
NOT decided: hyper-h2 / aioquic demultiplexing, BufferedH2Connection's flow-control buffering under all interleavings.
"""

from __future__ import annotations

import ast
import itertools

from ..core import AnalysisError
from ..core import norm
from ..model import attr_chain
from ..model import eval_order
from ..model import last_attr
from ..model import walk_in_order
from ..paths import C
from ..selftest import Mutant
from ._helpers_A import ASpec
from ._helpers_A import compare_pair
from ._helpers_A import is_self_call
from ._helpers_A import isinstance_of
from ._helpers_A import loops_over
from ._helpers_A import method_call_on
from ._helpers_A import params_of
from ._helpers_A import proj
from ._helpers_A import run_block
from ._helpers_A import show

PROP = "C05"
REG = {
    "strength": "partial",
    "technique": "CFG path enumeration (paired writes, routing table), who-may-write, abstract interpretation of the gate expressions over a value table, dataflow identity of stream ids",
    "claim": "Http2Client/Http3Client translate stream ids through a converse pair of maps written only at one place, rewrite every HttpEvent in and "
    "every ReceiveHttp out; the HTTP/2 concurrency gate compares open streams with (provisional or remote) max, queues gated events per stream and "
    "resumes FIFO; HttpLayer routes by stream id / connection; per-event handlers forward the event's own stream id and acknowledge its data.",
    "note": "hyper-h2 / aioquic are trusted; loops unrolled twice.",
}

H2 = "mitmproxy/proxy/layers/http/_http2.py"
H3 = "mitmproxy/proxy/layers/http/_http3.py"
I = "mitmproxy/proxy/layers/http/__init__.py"
MAPS = ("self.our_stream_id", "self.their_stream_id")
QUEUE = "self.stream_queue"
OPEN = "self.h2_conn.open_outbound_streams"
PROV = "self.provisional_max_concurrency"
REMOTE = "self.h2_conn.remote_settings.max_concurrent_streams"


# ---------------------------------------------------------------------------------------------------
# R05.1 / R05.2 path part


def _client_spec(ev, cmdvar, scenario):
    EVSID = ("evsid",)

    def val(expr, st, sp):
        if isinstance(expr, ast.Call):
            if method_call_on(expr, "self.our_stream_id") == "get" and expr.args and sp.v(expr.args[0], st) == EVSID:
                return ("ours", "lookup")
            if isinstance(expr.func, ast.Attribute) and expr.func.attr == "get_next_available_stream_id":
                return ("ours", "fresh")
            if method_call_on(expr, QUEUE) == "pop":
                return ("popped",)
        if isinstance(expr, ast.Subscript) and attr_chain(expr.value) == "self.our_stream_id" and sp.v(expr.slice, st) == EVSID:
            return ("ours", "lookup")
        if isinstance(expr, ast.Attribute) and attr_chain(expr) == f"{ev}.stream_id":
            cur = st.get("evsid")
            return cur if st.has("evsid") else EVSID
        return None

    def label(node, st, sp):
        out = []
        for n in eval_order(node):
            if isinstance(n, ast.Call):
                m = method_call_on(n, QUEUE)
                if m == "pop":
                    a = n.args
                    first = len(a) == 1 and isinstance(a[0], ast.Call) and isinstance(a[0].func, ast.Name) and a[0].func.id == "next" and len(a[0].args) == 1 \
                        and isinstance(a[0].args[0], ast.Call) and isinstance(a[0].args[0].func, ast.Name) and a[0].args[0].func.id == "iter" and attr_chain(a[0].args[0].args[0]) == QUEUE
                    out.append(("q_pop", "first" if first else norm(n)))
                elif m in ("popitem", "clear"):
                    out.append(("q_pop", m))
                elif isinstance(n.func, ast.Attribute) and n.func.attr == "append" and isinstance(n.func.value, ast.Subscript) and attr_chain(n.func.value.value) == QUEUE:
                    out.append(("q_append", sp.v(n.func.value.slice, st), norm(n.args[0]) if len(n.args) == 1 else "?"))
                elif any(method_call_on(n, mp) in ("pop", "clear", "update", "setdefault", "popitem") for mp in MAPS):
                    out.append(("map_other", norm(n)))
                elif is_self_call(n, "_handle_event") and isinstance(getattr(n, "_parent", None), ast.YieldFrom):
                    a0 = n.args[0] if n.args else None
                    p = n
                    while p is not None and not isinstance(p, (ast.For, ast.FunctionDef)):
                        p = getattr(p, "_parent", None)
                    ok = isinstance(p, ast.For) and isinstance(a0, ast.Name) and isinstance(p.target, ast.Name) and p.target.id == a0.id and sp.v(p.iter, st) == ("popped",)
                    out.append(("replay", "loopvar" if ok else norm(n)))
            elif isinstance(n, ast.Yield):
                if isinstance(n.value, ast.Name) and n.value.id == cmdvar:
                    out.append(("yield", "cmd"))
                else:
                    out.append(("yield", norm(n.value) if n.value is not None else ""))
        if isinstance(node, ast.Assign):
            for t in node.targets:
                if isinstance(t, ast.Subscript) and attr_chain(t.value) in MAPS:
                    out.append(("map_our" if attr_chain(t.value) == MAPS[0] else "map_their", sp.v(t.slice, st), sp.v(node.value, st)))
                elif attr_chain(t) == f"{ev}.stream_id":
                    out.append(("rewrite_in", sp.v(node.value, st)))
                elif attr_chain(t) == f"{cmdvar}.event.stream_id":
                    v = node.value
                    ok = isinstance(v, ast.Subscript) and attr_chain(v.value) == MAPS[1] and attr_chain(v.slice) == f"{cmdvar}.event.stream_id"
                    out.append(("rewrite_out", "their[cmd.event.stream_id]" if ok else norm(v)))
                elif attr_chain(t) in MAPS:
                    out.append(("map_other", norm(node)))
        elif isinstance(node, ast.Delete):
            for t in node.targets:
                if any(mp in ast.unparse(t) for mp in MAPS):
                    out.append(("map_other", norm(node)))
        return out

    class CS(ASpec):
        def effect(self, stmt, st, depth):
            st = ASpec.effect(self, stmt, st, depth)
            if isinstance(stmt, ast.Assign):
                for t in stmt.targets:
                    if attr_chain(t) == f"{ev}.stream_id":
                        st = st.set("evsid", self.v(stmt.value, st))
            return st

        def loop_event(self, node, entered, st):
            it = node.iter
            if isinstance(it, ast.Call) and len(it.args) == 1 and isinstance(it.args[0], ast.Name) and it.args[0].id == ev and isinstance(node.target, ast.Name) and node.target.id == cmdvar:
                return ("inner", norm(it.func), entered)
            if self.v(it, st) == ("popped",):
                return ("qloop", entered)
            return None

    def atom(expr, st, sp):
        io = isinstance_of(expr)
        if io and isinstance(io[0], ast.Name):
            if io[0].id == ev and io[1] == ["HttpEvent"]:
                return ("H", True)
            if io[0].id == cmdvar and io[1] == ["ReceiveHttp"]:
                return ("RH", True)
        cp = compare_pair(expr, (ast.Is, ast.IsNot))
        if cp and isinstance(cp[1], ast.Constant) and cp[1].value is None and sp.v(cp[0], st) == ("ours", "lookup"):
            return ("NEW", isinstance(cp[2], ast.Is))
        return None

    return CS(label=label, atom=atom, scenario=scenario, val=val, unroll=2)


def _client(ctx, rel, cls, gated):
    fn = ctx.func(rel, f"{cls}._handle_event")
    ev = params_of(fn)[0]
    w = (rel, f"{cls}._handle_event", fn)
    loops = [l for l in walk_in_order(fn) if isinstance(l, ast.For) and isinstance(l.iter, ast.Call) and len(l.iter.args) == 1 and isinstance(l.iter.args[0], ast.Name) and l.iter.args[0].id == ev]
    ctx.require(len(loops) == 1 and isinstance(loops[0].target, ast.Name), f"{cls}._handle_event: expected one `for cmd in <inner handler>(event)` loop")
    cmdvar = loops[0].target.id
    EVSID = ("evsid",)
    FRESH, LOOK = ("ours", "fresh"), ("ours", "lookup")

    # who-may-write
    writers = set()
    for m in (ctx.model.module(H2), ctx.model.module(H3)):
        for q, d in m.defs().items():
            if isinstance(d, ast.FunctionDef):
                for n in ast.walk(d):
                    hit = False
                    if isinstance(n, (ast.Assign, ast.AugAssign, ast.Delete)):
                        tg = n.targets if not isinstance(n, ast.AugAssign) else [n.target]
                        hit = any(isinstance(t, ast.Subscript) and attr_chain(t.value) in MAPS for t in tg)
                    elif isinstance(n, ast.Call):
                        hit = any(method_call_on(n, mp) in ("pop", "clear", "update", "setdefault", "popitem", "__setitem__", "__delitem__") for mp in MAPS)
                    if hit:
                        writers.add((m.rel, q))
    mine = {(rel, f"{cls}._handle_event")}
    others = {x for x in writers if x[1].split(".")[0] == cls} - mine
    ctx.check(not others, "R05.1", w, f"{cls}: writers of our_stream_id/their_stream_id", f"the stream-id maps are also written in {sorted(others)} - the converse-pair invariant is no longer established at one place",
              desc=f"{cls}: stream-id maps written only in _handle_event")

    for H in (True, False):
        sp = _client_spec(ev, cmdvar, {"H": H})
        traces, _ = run_block(fn.body, sp, {ev: ("param", ev)})
        ctx.paths += len(traces)
        ctx.require(traces, f"{cls}._handle_event: no path")
        prob = {}
        n_new = n_known = n_gated = n_out = 0
        for tr, how, _ in traces:
            if how != "return":
                continue
            toks = proj(tr, ("map_our", "map_their", "map_other", "rewrite_in", "rewrite_out", "inner", "yield", "q_append", "q_pop", "qloop", "replay", "cond"))
            eff = [t for t in toks if t[0] != "cond"]
            if any(t[0] == "map_other" for t in eff):
                prob.setdefault("map writes", ("the stream-id maps are modified other than by the converse pair of item assignments", eff))
                continue
            inner = [i for i, t in enumerate(eff) if t[0] == "inner"]
            if any(t[0] == "q_append" for t in eff):
                n_gated += 1
                if not gated:
                    prob.setdefault("gate", ("unexpected stream queue", eff))
                elif not (H and len(eff) == 1 and eff[0] == ("q_append", EVSID, ev)) or ("cond", "NEW", True) not in toks:
                    prob.setdefault("gate", ("a gated event must be appended to stream_queue[its original stream id] and nothing else may happen "
                                             "(no id allocation, no rewrite, no send)", eff))
                continue
            if not inner:
                prob.setdefault("dispatch", ("the event never reaches the protocol handler", eff))
                continue
            pre = eff[: inner[0]]
            if H:
                new = ("cond", "NEW", True) in toks
                ri = [t for t in pre if t[0] == "rewrite_in"]
                maps = [t for t in pre if t[0] in ("map_our", "map_their")]
                if new:
                    n_new += 1
                    if sorted(maps) != sorted([("map_our", EVSID, FRESH), ("map_their", FRESH, EVSID)]):
                        prob.setdefault("converse pair", (f"a new stream must be recorded as our[event.stream_id] = y and their[y] = event.stream_id with y fresh (saw {maps})", eff))
                    elif ri != [("rewrite_in", FRESH)] or pre.index(ri[0]) < max(pre.index(m) for m in maps):
                        prob.setdefault("rewrite in", (f"event.stream_id must be rewritten to the fresh id after the pair was recorded under the original id (saw {ri})", eff))
                else:
                    n_known += 1
                    if maps:
                        prob.setdefault("converse pair", ("the maps are rewritten for a stream that is already mapped", eff))
                    elif ri != [("rewrite_in", LOOK)]:
                        prob.setdefault("rewrite in", (f"an HttpEvent for a mapped stream must get stream_id = our_stream_id[event.stream_id] before it is handled (saw {ri})", eff))
            elif any(t[0] in ("rewrite_in", "map_our", "map_their") for t in pre):
                prob.setdefault("rewrite in", ("a non-HTTP event gets its ids rewritten", eff))
            # outbound: per inner-loop iteration
            for a, b in zip(inner, inner[1:] + [len(eff)]):
                if not eff[a][2]:
                    continue
                seg = eff[a + 1 : b]
                end = next((i for i, t in enumerate(seg) if t[0] in ("q_pop", "qloop", "replay")), len(seg))
                seg = seg[:end]
                conds = [t for t in toks[toks.index(eff[a]) :] if t[0] == "cond" and t[1] == "RH"]
                ys = [t for t in seg if t[0] == "yield"]
                ro = [t for t in seg if t[0] == "rewrite_out"]
                n_out += 1
                if ys != [("yield", "cmd")]:
                    prob.setdefault("yield once", (f"a command of the protocol handler is not yielded exactly once (saw {ys})", eff))
                elif not conds:
                    prob.setdefault("rewrite out", ("commands are forwarded without checking for ReceiveHttp", eff))
            # rewrite_out consistency over the whole trace (RH True -> translated before the yield, RH False -> untouched)
            cur = None
            last_rh = None
            pending = False
            for t in toks:
                if t[0] == "inner" and t[2]:
                    last_rh, pending = None, False
                elif t[0] == "cond" and t[1] == "RH":
                    last_rh = t[2]
                elif t[0] == "rewrite_out":
                    pending = t[1] == "their[cmd.event.stream_id]"
                    if not pending or last_rh is not True:
                        prob.setdefault("rewrite out", (f"ids of commands going back are rewritten wrongly ({t[1]})", eff))
                elif t == ("yield", "cmd"):
                    if last_rh is True and not pending:
                        prob.setdefault("rewrite out", ("a ReceiveHttp is passed up with the upstream stream id instead of the client's (their_stream_id lookup missing before the yield) "
                                                        "- the response would land on the wrong client stream", eff))
            # resume
            pops = [t for t in eff if t[0] == "q_pop"]
            if pops:
                if not gated or pops != [("q_pop", "first")]:
                    prob.setdefault("resume order", (f"queued streams must be resumed first-in first-out via pop(next(iter(stream_queue))) (saw {pops})", eff))
                else:
                    after = eff[eff.index(pops[0]) + 1 :]
                    ql = [i for i, t in enumerate(after) if t[0] == "qloop"]
                    okr = bool(ql)
                    for a, b in zip(ql, ql[1:] + [len(after)]):
                        rp = [t for t in after[a + 1 : b] if t[0] == "replay"]
                        if after[a][1] and rp != [("replay", "loopvar")]:
                            okr = False
                    if not okr or any(t[0] == "replay" for t in after[: ql[0]] if ql):
                        prob.setdefault("resume replay", ("the events of the resumed stream are not replayed in order, each exactly once", eff))
            elif any(t[0] in ("replay", "qloop") for t in eff):
                prob.setdefault("resume replay", ("replay without taking a stream out of the queue", eff))
        for cons, (why, eff) in prob.items():
            ctx.fail("R05.2" if cons in ("gate", "resume order", "resume replay") else "R05.1", w, f"{cls} HttpEvent={H}: {cons}", f"{why}; trace: {show(eff)}")
        if H:
            ctx.require(prob or (n_new and n_known and n_out and (n_gated or not gated)), f"{cls}._handle_event: expected paths not found (new={n_new} known={n_known} gated={n_gated} out={n_out})")
        r1 = [c for c in prob if c not in ("gate", "resume order", "resume replay")]
        r2 = [c for c in prob if c in ("gate", "resume order", "resume replay")]
        if not r1:
            ctx.ok("R05.1", f"{cls}._handle_event HttpEvent={H}: {len(traces)} paths (new={n_new} mapped={n_known}) translate ids in and out")
        if gated and H and not r2:
            ctx.ok("R05.2", f"{cls}._handle_event: {n_gated} gated paths queue only; resume pops the first queued stream and replays in order")


# ---------------------------------------------------------------------------------------------------
# R05.2 expression tables


def _interp(expr, env, locs):
    """Interpret a side-effect-free expression over concrete values (Python semantics for and/or/not/compare)."""
    if isinstance(expr, ast.Constant):
        return expr.value
    if isinstance(expr, ast.Name):
        if expr.id in locs:
            return _interp(locs[expr.id], env, locs)
        raise AnalysisError(f"gate expression uses unknown name {expr.id}")
    ch = attr_chain(expr)
    if ch:
        if ch not in env:
            raise AnalysisError(f"gate expression reads {ch}, which the value table does not model")
        return env[ch]
    if isinstance(expr, ast.BoolOp):
        v = None
        for e in expr.values:
            v = _interp(e, env, locs)
            if isinstance(expr.op, ast.And) and not v:
                return v
            if isinstance(expr.op, ast.Or) and v:
                return v
        return v
    if isinstance(expr, ast.UnaryOp) and isinstance(expr.op, ast.Not):
        return not _interp(expr.operand, env, locs)
    if isinstance(expr, ast.Call) and isinstance(expr.func, ast.Name) and expr.func.id in ("len", "bool") and len(expr.args) == 1:
        v = _interp(expr.args[0], env, locs)
        return len(v) if expr.func.id == "len" else bool(v)
    if isinstance(expr, ast.Compare):
        l = _interp(expr.left, env, locs)
        for op, c in zip(expr.ops, expr.comparators):
            r = _interp(c, env, locs)
            res = {ast.Lt: lambda: l < r, ast.LtE: lambda: l <= r, ast.Gt: lambda: l > r, ast.GtE: lambda: l >= r, ast.Eq: lambda: l == r,
                   ast.NotEq: lambda: l != r, ast.Is: lambda: l is r, ast.IsNot: lambda: l is not r}.get(type(op))
            if res is None:
                raise AnalysisError(f"gate expression uses unmodelled operator in {norm(expr)}")
            if not res():
                return False
            l = r
        return True
    raise AnalysisError(f"gate expression not interpretable: {norm(expr)}")


BASE_ENV = (OPEN, PROV, REMOTE, QUEUE)
REMOVERS = ("pop", "popitem", "clear", "remove", "discard")
LOCAL_CLOSERS = ("reset_stream", "end_stream")


def _self_reads(expr, locs, seen=None):
    """`self.`-rooted attribute chains read by a gate expression (locals resolved through their single assignment)."""
    out = []
    seen = set() if seen is None else seen
    for n in ast.walk(expr):
        if isinstance(n, ast.Name) and n.id in locs and n.id not in seen:
            seen.add(n.id)
            out += _self_reads(locs[n.id], locs, seen)
        elif isinstance(n, ast.Attribute) and not isinstance(getattr(n, "_parent", None), ast.Attribute):
            ch = attr_chain(n)
            if ch.startswith("self."):
                out.append(ch)
    return out


def _removes(fn, chain):
    """Does ``fn`` ever take something OUT of ``chain`` (pop/del/clear/remove, re-assignment, -=)?"""
    for n in ast.walk(fn):
        if isinstance(n, ast.Call) and method_call_on(n, chain) in REMOVERS:
            return True
        if isinstance(n, ast.Delete) and any(attr_chain(t.value if isinstance(t, ast.Subscript) else t) == chain for t in n.targets):
            return True
        if isinstance(n, ast.Assign) and any(attr_chain(t) == chain for t in n.targets):
            return True
        if isinstance(n, ast.AugAssign) and attr_chain(n.target) == chain:
            return True
    return False


def _decoupled_from_h2(ctx, chain):
    """Evidence that the bookkeeping attribute ``chain`` of Http2Client is NOT kept equal to hyper-h2's count of open outbound streams.

    hyper-h2 drops a stream from ``open_outbound_streams`` as soon as it is closed - also when *we* close it (``h2_conn.reset_stream``,
    ``h2_conn.end_stream`` after the peer half-closed).  A home-grown counter can only stand in for it if every method that closes a stream
    locally - or a method on the call chain into it - takes the stream out of the counter.  Returns (qualname, call node) of a local closer
    for which nothing on the call chain removes from ``chain``; None when no such witness exists (coupling undecided)."""
    mro = ctx.model.mro(H2, "Http2Client")
    methods = {}
    for m, c in reversed(mro):
        for st in c.body:
            if isinstance(st, ast.FunctionDef):
                methods.setdefault(st.name, []).append((c.name, st))
    callers = {}
    for name, defs in methods.items():
        for cname, fn in defs:
            for n in ast.walk(fn):
                if isinstance(n, ast.Call) and isinstance(n.func, ast.Attribute) and n.func.attr in methods:
                    callers.setdefault(n.func.attr, set()).add(name)
    for name, defs in methods.items():
        for cname, fn in defs:
            closers = [n for n in walk_in_order(fn) if isinstance(n, ast.Call) and isinstance(n.func, ast.Attribute) and n.func.attr in LOCAL_CLOSERS and attr_chain(n.func.value) == "self.h2_conn"]
            if not closers:
                continue
            chain_up, todo = {name}, [name]
            while todo:
                for c2 in callers.get(todo.pop(), ()):
                    if c2 not in chain_up:
                        chain_up.add(c2)
                        todo.append(c2)
            if not any(_removes(f2, chain) for nm in chain_up for _, f2 in methods[nm]):
                return f"{cname}.{name}", closers[0]
    return None


def _gate_tables(ctx):
    fn = ctx.func(H2, "Http2Client._handle_event")
    w = (H2, "Http2Client._handle_event", fn)
    locs = {}
    for n in ast.walk(fn):
        if isinstance(n, ast.Assign) and len(n.targets) == 1 and isinstance(n.targets[0], ast.Name):
            locs.setdefault(n.targets[0].id, n.value)

    def guard_of(pred, what):
        hits = [n for n in walk_in_order(fn) if isinstance(n, ast.Call) and pred(n)]
        ctx.require(len(hits) == 1, f"Http2Client._handle_event: expected exactly one {what}")
        p = hits[0]
        while p is not None and not isinstance(p, (ast.If, ast.FunctionDef)):
            p = getattr(p, "_parent", None)
        ctx.require(isinstance(p, ast.If) and not any(hits[0] in list(ast.walk(s)) for s in p.orelse), f"Http2Client._handle_event: the {what} is not guarded by an if")
        return p.test

    gate = guard_of(lambda n: isinstance(n.func, ast.Attribute) and n.func.attr == "append" and isinstance(n.func.value, ast.Subscript) and attr_chain(n.func.value.value) == QUEUE, "stream_queue[...].append")
    resume = guard_of(lambda n: method_call_on(n, QUEUE) in ("pop", "popitem"), "stream_queue pop")
    # quantities the two expressions read besides the modelled four: mitmproxy's own bookkeeping.  Such an attribute is only an acceptable
    # measure of "streams open upstream" if it is kept equal to hyper-h2's count; when the class provably does not do that (a stream closed
    # locally stays in it) the attribute is an independent variable of the table and is sampled independently of open_outbound_streams.
    extras = {}
    for ch in dict.fromkeys(_self_reads(gate, locs) + _self_reads(resume, locs)):
        if ch in BASE_ENV or any(b.startswith(ch + ".") for b in BASE_ENV):
            continue
        ctx.require(ch.count(".") == 1, f"gate expression reads {ch}, which the value table does not model")
        wit = _decoupled_from_h2(ctx, ch)
        ctx.require(wit is not None, f"gate expression reads {ch}; it is removed from wherever a stream is closed locally, so it may or may not track open_outbound_streams (coupling not modelled)")
        extras[ch] = wit
        ctx.note(f"{ch} is not an upstream-open count: {wit[0]} closes a stream in hyper-h2 ({norm(wit[1])[:60]}) and nothing on its call chain removes from {ch}")
    bad_g = bad_r = None
    xs = [dict(zip(extras, combo)) for combo in itertools.product(*[[{i: "s" for i in range(k)} for k in (0, 1, 2, 3, 4)] for _ in extras])]
    for o, p, r, q, x in itertools.product((0, 1, 2, 3, 4), (None, 2), (1, 3), ({}, {7: ["e"]}), xs):
        env = {OPEN: o, PROV: p, REMOTE: r, QUEUE: q, **x}
        limit = p if p else r
        ctx.cells += 2
        g = bool(_interp(gate, env, locs))
        if g != (o >= limit) and bad_g is None:
            bad_g = (env, g)
        rs = bool(_interp(resume, env, locs))
        if rs != (bool(q) and o < limit) and bad_r is None:
            bad_r = (env, rs)

    def fmt(b):
        e = b[0]
        own = "".join(f" len({ch})={len(e[ch])} [kept when {extras[ch][0]} closes a stream itself]" for ch in extras)
        return f"open={e[OPEN]} provisional={e[PROV]} remote_max={e[REMOTE]} queued={len(e[QUEUE])}{own} -> {b[1]}"

    ctx.check(bad_g is None, "R05.2", w, "capacity gate expression", "a new upstream stream is opened although open_outbound_streams has reached (provisional or remote) max_concurrent_streams, or is "
              f"held back although there is capacity: {fmt(bad_g) if bad_g else ''}", desc="gate == open_outbound_streams >= (provisional or remote max) on 40 value rows")
    ctx.check(bad_r is None, "R05.2", w, "resume expression", f"queued streams are resumed without capacity / not resumed although there is capacity: {fmt(bad_r) if bad_r else ''}",
              desc="resume == queue and open_outbound_streams < (provisional or remote max) on 40 value rows")

    # provisional_max_concurrency writers
    n_w = 0
    for q, d in ctx.model.module(H2).defs().items():
        if not isinstance(d, ast.FunctionDef) or not q.startswith("Http2Client."):
            continue
        assigns = [n for n in ast.walk(d) if isinstance(n, (ast.Assign, ast.AugAssign, ast.AnnAssign)) and any(attr_chain(t) == PROV for t in (n.targets if isinstance(n, ast.Assign) else [n.target]))]
        if not assigns:
            continue
        evp = params_of(d)[0] if params_of(d) else "_"

        def label(node, st, sp):
            if isinstance(node, (ast.Assign, ast.AugAssign, ast.AnnAssign)) and any(attr_chain(t) == PROV for t in (node.targets if isinstance(node, ast.Assign) else [node.target])):
                return [("set_prov", norm(node.value) if node.value is not None else "?")]
            return []

        def atom(expr, st, sp):
            io = isinstance_of(expr)
            if io and isinstance(io[0], ast.Name) and io[0].id == evp and io[1] == ["RemoteSettingsChanged"]:
                return ("RSC", True)
            return None

        traces, _ = run_block(d.body, ASpec(label=label, atom=atom, unroll=1), {evp: ("param", evp)})
        ctx.paths += len(traces)
        for tr, how, _ in traces:
            sets = [t for t in tr if t[0] == "set_prov"]
            if sets:
                n_w += 1
                ok = ("cond", "RSC", True) in tr[: tr.index(sets[0])] and all(t[1] == "None" for t in sets)
                ctx.check(ok, "R05.2", (H2, q, d), "provisional_max_concurrency cleared", "the provisional concurrency limit is changed although no SETTINGS frame of the server was received "
                          "- streams could be opened beyond what the server allows", desc=f"{q}: provisional_max_concurrency := None only after RemoteSettingsChanged")
    ctx.require(n_w >= 1, "no path clears provisional_max_concurrency (anchor changed)")


# ---------------------------------------------------------------------------------------------------
# R05.3


def _routing(ctx):
    fn = ctx.func(I, "HttpLayer.event_to_child")
    child_p, event_p = params_of(fn)
    loops = loops_over(fn, lambda it: isinstance(it, ast.Call) and attr_chain(it.func) == f"{child_p}.handle_event")
    ctx.require(len(loops) == 1 and isinstance(loops[0].target, ast.Name), "HttpLayer.event_to_child: command loop not found")
    loop = loops[0]
    cmd = loop.target.id
    w = (I, "HttpLayer.event_to_child", loop)

    def val(expr, st, sp):
        if isinstance(expr, ast.Subscript):
            if attr_chain(expr.value) == "self.streams":
                return ("stream", attr_chain(expr.slice) or norm(expr.slice))
            if attr_chain(expr.value) == "self.connections":
                return ("conn", attr_chain(expr.slice) or norm(expr.slice))
        return None

    def label(node, st, sp):
        out = []
        for n in eval_order(node):
            if isinstance(n, ast.Call):
                if is_self_call(n, "make_stream"):
                    out.append(("make_stream", attr_chain(n.args[0]) if len(n.args) == 1 else "?"))
                elif is_self_call(n, "event_to_child") and len(n.args) == 2:
                    out.append(("route", sp.v(n.args[0], st), attr_chain(n.args[1]) or norm(n.args[1])))
                elif method_call_on(n, "self.streams") in ("pop", "clear", "popitem"):
                    out.append(("drop", attr_chain(n.args[0]) if n.args else "?"))
        if isinstance(node, ast.Assign):
            for t in node.targets:
                if isinstance(t, ast.Subscript) and attr_chain(t.value) == "self.streams":
                    out.append(("make_stream", "inline:" + norm(node)))
        elif isinstance(node, ast.Delete):
            for t in node.targets:
                if isinstance(t, ast.Subscript) and attr_chain(t.value) == "self.streams":
                    out.append(("drop", attr_chain(t.slice)))
        return out

    KIND = {"ReceiveHttp": "RECV", "SendHttp": "SEND", "DropStream": "DROP", "GetHttpConnection": "GET", "RegisterHttpConnection": "REG", "OpenConnection": "OPENC", "Command": "ANY"}

    def atom(expr, st, sp):
        io = isinstance_of(expr)
        if io and isinstance(io[0], ast.Name) and io[0].id == cmd and len(io[1]) == 1 and io[1][0] in KIND:
            return (KIND[io[1][0]], True)
        if io and attr_chain(io[0]) == f"{cmd}.event" and io[1] == ["RequestHeaders"]:
            return ("RQH", True)
        return None

    def raises(stmt, st, sp):
        return ["KeyError"] if any(isinstance(n, ast.Subscript) and attr_chain(n.value) == "self.streams" and isinstance(n.ctx, ast.Load) for n in ast.walk(stmt)) else []

    rows = {
        "RECV": lambda rqh: ([("make_stream", f"{cmd}.event.stream_id")] if rqh else []) + [("route", ("stream", f"{cmd}.event.stream_id"), f"{cmd}.event")],
        "SEND": lambda rqh: [("route", ("conn", f"{cmd}.connection"), f"{cmd}.event")],
        "DROP": lambda rqh: [("drop", f"{cmd}.stream_id")],
    }
    for kind in ("RECV", "SEND", "DROP", "GET", "REG", "OPENC"):
        sc = {k: (k == kind) for k in ("RECV", "SEND", "DROP", "GET", "REG", "OPENC")}
        sc["ANY"] = True
        sc["Btruthy"] = False
        traces, _ = run_block(loop.body, ASpec(label=label, atom=atom, scenario=sc, val=val, raises=raises, unroll=1), {cmd: ("cmd",), child_p: ("param", child_p)})
        ctx.paths += len(traces)
        ctx.cells += 1
        ctx.require(traces, "HttpLayer.event_to_child: no path")
        bad = None
        for tr, how, _ in traces:
            if how != "return":
                bad = (tr, f"path ends with {how}")
                continue
            eff = [t for t in proj(tr, ("make_stream", "route", "drop"))]
            rqh = ("cond", "RQH", True) in tr
            caught = any(t[0] == "caught" for t in tr)
            want = rows[kind](rqh) if kind in rows else []
            if caught and kind == "RECV":
                want = want[:-1]  # the stream is already gone: the event is dropped (upstream issue 5343), nothing is routed
            if eff != want:
                bad = (eff, f"expected {show(want) or 'no stream/routing effect'}")
        ctx.check(bad is None, "R05.3", w, f"routing of {kind}", f"{bad[1]}, saw {show(bad[0])}" if bad else "", desc=f"event_to_child {kind}: {show(rows[kind](True)) if kind in rows else 'no stream effect'}")

    # who-may-write self.streams in HttpLayer
    writers = {}
    for st in ctx.model.cls(I, "HttpLayer").body:
        if isinstance(st, ast.FunctionDef):
            for n in ast.walk(st):
                if isinstance(n, (ast.Assign, ast.Delete)) and any(isinstance(t, ast.Subscript) and attr_chain(t.value) == "self.streams" for t in n.targets):
                    writers.setdefault(st.name, []).append(n)
                elif isinstance(n, ast.Call) and method_call_on(n, "self.streams") in ("pop", "clear", "popitem", "update", "setdefault"):
                    writers.setdefault(st.name, []).append(n)
    ctx.check(set(writers) == {"make_stream", "event_to_child"}, "R05.3", (I, "HttpLayer", ctx.model.cls(I, "HttpLayer")), "writers of self.streams",
              f"self.streams is modified in {sorted(writers)}; only make_stream (create) and event_to_child (DropStream) may", desc="self.streams written only by make_stream / event_to_child")
    ms = ctx.func(I, "HttpLayer.make_stream")
    sid = params_of(ms)[0]
    asg = [n for n in ast.walk(ms) if isinstance(n, ast.Assign) and isinstance(n.targets[0], ast.Subscript) and attr_chain(n.targets[0].value) == "self.streams"]
    ok = len(asg) == 1 and attr_chain(asg[0].targets[0].slice) == sid and isinstance(asg[0].value, ast.Call) and last_attr(asg[0].value.func) == "HttpStream" \
        and len(asg[0].value.args) == 2 and attr_chain(asg[0].value.args[1]) == sid
    ctx.check(ok, "R05.3", (I, "HttpLayer.make_stream", ms), "streams[stream_id] = HttpStream(ctx, stream_id)", "the stream is registered under an id different from its own", desc="make_stream registers HttpStream(ctx, id) under the same id")


# ---------------------------------------------------------------------------------------------------
# R05.4


RECV_CLASSES = ("ReceiveData", "ReceiveTrailers", "ReceiveEndOfMessage", "ReceiveProtocolError", "RequestHeaders", "ResponseHeaders")


def _own_ids(ctx):
    sites = 0

    def scan(rel, qual, body_nodes, evvar, fnnode):
        nonlocal sites
        for root in body_nodes:
            for n in walk_in_order(root):
                if isinstance(n, ast.Call) and last_attr(n.func) in RECV_CLASSES and (attr_chain(n.func).startswith("self.") or last_attr(n.func) in ("RequestHeaders", "ResponseHeaders")):
                    # skip constructions inside an inner loop over all streams (connection teardown)
                    p = n
                    inner = False
                    while p is not None and p is not root:
                        if isinstance(p, ast.For) and p not in body_nodes:
                            inner = True
                        p = getattr(p, "_parent", None)
                    if inner:
                        continue
                    sites += 1
                    a0 = n.args[0] if n.args else next((k.value for k in n.keywords if k.arg == "stream_id"), None)
                    ctx.check(a0 is not None and attr_chain(a0) == f"{evvar}.stream_id", "R05.4", (rel, qual, n), f"{last_attr(n.func)} stream id in {qual}",
                              f"the event handed to the HTTP layer carries stream id `{norm(a0) if a0 is not None else '?'}` instead of the id of the protocol event being handled ({evvar}.stream_id) "
                              "- data would be attributed to another stream", desc=f"{qual}: {last_attr(n.func)}({evvar}.stream_id, ...)")

    for cls in ("Http2Connection", "Http2Server", "Http2Client"):
        fn = ctx.func(H2, f"{cls}.handle_h2_event")
        scan(H2, f"{cls}.handle_h2_event", fn.body, params_of(fn)[0], fn)
    for cls in ("Http3Server", "Http3Client"):
        fn = ctx.func(H3, f"{cls}.parse_headers")
        scan(H3, f"{cls}.parse_headers", fn.body, params_of(fn)[0], fn)
    fn = ctx.func(H3, "Http3Connection._handle_event")
    loops = [l for l in walk_in_order(fn) if isinstance(l, ast.For) and isinstance(l.target, ast.Name) and any(isinstance(n, ast.Call) and last_attr(n.func) == "isinstance" and n.args and isinstance(n.args[0], ast.Name) and n.args[0].id == l.target.id for n in ast.walk(l))]
    ctx.require(len(loops) == 1, "Http3Connection._handle_event: h3 event loop not found")
    scan(H3, "Http3Connection._handle_event", [loops[0]], loops[0].target.id, fn)
    ctx.require(sites >= 14, f"only {sites} Receive*/Headers construction sites found")

    # stream state bookkeeping uses the same id
    for cls in ("Http2Server", "Http2Client"):
        fn = ctx.func(H2, f"{cls}.handle_h2_event")
        evv = params_of(fn)[0]
        for n in ast.walk(fn):
            if isinstance(n, ast.Assign) and isinstance(n.targets[0], ast.Subscript) and attr_chain(n.targets[0].value) == "self.streams":
                ctx.check(attr_chain(n.targets[0].slice) == f"{evv}.stream_id", "R05.4", (H2, f"{cls}.handle_h2_event", n), "self.streams key", "stream state recorded under a foreign id",
                          desc=f"{cls}.handle_h2_event: self.streams[{evv}.stream_id] := ...")

    # flow-control acknowledgement
    fn = ctx.func(H2, "Http2Connection.handle_h2_event")
    evv = params_of(fn)[0]

    def label(node, st, sp):
        out = []
        for n in eval_order(node):
            if isinstance(n, ast.Call):
                if attr_chain(n.func) == "self.h2_conn.acknowledge_received_data":
                    out.append(("ack", tuple(attr_chain(a) for a in n.args)))
                elif is_self_call(n, "protocol_error") or is_self_call(n, "close_connection"):
                    out.append(("abort",))
        return out

    def atom(expr, st, sp):
        io = isinstance_of(expr)
        if io and isinstance(io[0], ast.Name) and io[0].id == evv and len(io[1]) == 1:
            return ("is:" + io[1][0], True)
        return None

    names = set()
    for n in ast.walk(fn):
        io = isinstance_of(n)
        if io and isinstance(io[0], ast.Name) and io[0].id == evv and len(io[1]) == 1:
            names.add(io[1][0])
    ctx.require("DataReceived" in names, "Http2Connection.handle_h2_event no longer handles DataReceived")
    sc = {"is:" + k: (k == "DataReceived") for k in names}
    traces, _ = run_block(fn.body, ASpec(label=label, atom=atom, scenario=sc, unroll=1), {evv: ("param", evv)})
    ctx.paths += len(traces)
    bad = None
    n_ok = 0
    for tr, how, _ in traces:
        if how != "return":
            continue
        acks = [t for t in tr if t[0] == "ack"]
        if any(t[0] == "abort" for t in tr):
            continue
        n_ok += 1
        if acks != [("ack", (f"{evv}.flow_controlled_length", f"{evv}.stream_id"))]:
            bad = acks
    ctx.require(n_ok >= 2 or bad, "Http2Connection.handle_h2_event: DataReceived paths not found")
    ctx.check(bad is None, "R05.4", (H2, "Http2Connection.handle_h2_event", fn), "acknowledge_received_data on DataReceived",
              f"a received DATA frame is not acknowledged exactly once with its own flow_controlled_length on its own stream (saw {bad}) - the peer's flow-control window of that stream/connection never reopens",
              desc=f"h2 DataReceived: {n_ok} non-error paths acknowledge (flow_controlled_length, stream_id) of the event")


def _stream_identity(ctx):
    """R05.5: an HttpStream names itself only through `self.stream_id` once an event object has been handed on.

    Http2Client / Http3Client rewrite `event.stream_id` **in place** to the upstream id (R05.1 checks that they do). An event that HttpStream
    forwards with `SendHttp(event, conn)` is therefore no longer a reliable source of the *client-side* stream id: any later read of
    `<event>.stream_id` in the same handler (for `DropStream`, for another event, as a key) names a different stream."""
    from ..paths import GenericSpec, traces_of

    rewrites = 0
    for rel, cls in ((H2, "Http2Client"), (H3, "Http3Client")):
        fn = ctx.func(rel, f"{cls}._handle_event")
        rewrites += sum(1 for n in ast.walk(fn) if isinstance(n, ast.Assign) and any(attr_chain(t).endswith(".stream_id") and not attr_chain(t).startswith("self.") for t in n.targets))
    ctx.require(rewrites >= 2, "Http2Client/Http3Client no longer rewrite event.stream_id in place (R05.5 premise changed)")
    cls = ctx.model.cls(I, "HttpStream")
    methods = [d for d in cls.body if isinstance(d, ast.FunctionDef)]
    n_sites = 0
    n_drop = 0
    for fn in methods:
        params = {a.arg for a in fn.args.args} - {"self"}
        fwd = [n for n in ast.walk(fn) if isinstance(n, ast.Call) and last_attr(n.func) == "SendHttp" and n.args and isinstance(n.args[0], ast.Name) and n.args[0].id in params]
        for n in ast.walk(fn):
            if isinstance(n, ast.Call) and last_attr(n.func) == "DropStream":
                n_drop += 1
        if not fwd:
            continue
        names = {n.args[0].id for n in fwd}

        class S(GenericSpec):
            def events(self, node, st):
                out = []
                simple = not isinstance(node, (ast.If, ast.While, ast.For, ast.Try, ast.With, ast.FunctionDef, ast.Match))
                if simple:
                    for x in eval_order(node):
                        if isinstance(x, ast.Attribute) and x.attr == "stream_id" and isinstance(x.value, ast.Name) and x.value.id in names and isinstance(x.ctx, ast.Load):
                            out.append(("read", x.value.id, norm(getattr(x, "_parent", x))))
                        if isinstance(x, ast.Call) and last_attr(x.func) == "SendHttp" and x.args and isinstance(x.args[0], ast.Name) and x.args[0].id in names:
                            out.append(("handed", x.args[0].id))
                        if isinstance(x, ast.Assign):
                            pass
                return out

        res, _ = traces_of(fn, S())
        ctx.paths += len(res)
        bad = None
        for t, how, st in res:
            handed = set()
            for e in t:
                if e[0] == "handed":
                    handed.add(e[1])
                elif e[0] == "read" and e[1] in handed:
                    bad = e
        n_sites += len(fwd)
        ctx.check(bad is None, "R05.5", (I, f"HttpStream.{fn.name}", fn), f"{fn.name}: stream id read from an event after SendHttp({', '.join(sorted(names))}, ...)",
                  f"`{bad[2] if bad else ''}` reads the stream id of an event that was already handed to a connection; Http2Client/Http3Client rewrite that field in place to the upstream id, "
                  "so the command names another client stream (its response is dropped / attributed to the wrong flow)", desc=f"HttpStream.{fn.name}: {len(fwd)} forwarded event(s), no later read of their stream_id")
    ctx.require(n_sites >= 1 and n_drop >= 1, "HttpStream no longer forwards received events / yields DropStream (R05.5 anchor changed)")


def check(ctx):
    ctx.rule("R05.5", "HttpStream never reads the stream id of an event after handing that event to a connection (clients rewrite it in place)")
    ctx.rule("R05.1", "stream-id maps are a converse pair written at one place; HttpEvents are rewritten in, ReceiveHttp rewritten out, every command yielded once")
    ctx.rule("R05.2", "concurrency gate / resume expressions (value table), gated events queued per stream only, FIFO resume, provisional limit cleared only on RemoteSettingsChanged")
    ctx.rule("R05.3", "HttpLayer routes ReceiveHttp by stream id, SendHttp by connection, creates streams only on RequestHeaders, drops only on DropStream")
    ctx.rule("R05.4", "per-event handlers forward the protocol event's own stream id; h2 DATA is acknowledged on its own stream")
    ctx.trust("hyper-h2 H2Connection (open_outbound_streams, get_next_available_stream_id), aioquic H3, dict insertion order (FIFO of stream_queue)")
    _client(ctx, H2, "Http2Client", gated=True)
    _client(ctx, H3, "Http3Client", gated=False)
    _gate_tables(ctx)
    _routing(ctx)
    _own_ids(ctx)
    _stream_identity(ctx)
    ctx.expect_instances("R05.5", 1)
    ctx.expect_instances("R05.1", 6)
    ctx.expect_instances("R05.2", 4)
    ctx.expect_instances("R05.3", 8)
    ctx.expect_instances("R05.4", 17)


MUTANTS = [
    Mutant("drop-stream-by-forwarded-event-id", I, "\n        yield DropStream(self.stream_id)", "\n        yield DropStream(event.stream_id)", "R05.5"),
    # R05.1
    Mutant("h2-their-map-wrong-key", H2, "                self.their_stream_id[ours] = event.stream_id\n            event.stream_id = ours\n\n        for cmd in self._handle_event2(event):",
           "                self.their_stream_id[event.stream_id] = ours\n            event.stream_id = ours\n\n        for cmd in self._handle_event2(event):", "R05.1"),
    Mutant("h2-no-rewrite-in", H2, "            event.stream_id = ours\n\n        for cmd in self._handle_event2(event):", "            pass\n\n        for cmd in self._handle_event2(event):", "R05.1"),
    Mutant("h2-no-rewrite-out", H2, "        for cmd in self._handle_event2(event):\n            if isinstance(cmd, ReceiveHttp):\n                cmd.event.stream_id = self.their_stream_id[cmd.event.stream_id]\n            yield cmd",
           "        for cmd in self._handle_event2(event):\n            yield cmd", "R05.1"),
    Mutant("h3-rewrite-out-with-our-map", H3, "cmd.event.stream_id = self.their_stream_id[cmd.event.stream_id]", "cmd.event.stream_id = self.our_stream_id[cmd.event.stream_id]", "R05.1"),
    Mutant("h3-rewrite-before-record", H3, "                self.our_stream_id[event.stream_id] = ours\n                self.their_stream_id[ours] = event.stream_id\n            event.stream_id = ours",
           "                event.stream_id = ours\n                self.our_stream_id[event.stream_id] = ours\n                self.their_stream_id[ours] = event.stream_id\n            event.stream_id = ours", "R05.1"),
    Mutant("h2-map-cleared-elsewhere", H2, "        self.last_activity = time.time()\n        if isinstance(event, Start):", "        self.last_activity = time.time()\n        self.their_stream_id.pop(event.stream_id, None)\n        if isinstance(event, Start):", "R05.1"),
    # R05.2
    Mutant("gate-off-by-one", H2, "no_free_streams = self.h2_conn.open_outbound_streams >= (", "no_free_streams = self.h2_conn.open_outbound_streams > (", "R05.2"),
    Mutant("gate-ignores-provisional", H2, "                no_free_streams = self.h2_conn.open_outbound_streams >= (\n                    self.provisional_max_concurrency\n                    or self.h2_conn.remote_settings.max_concurrent_streams\n                )",
           "                no_free_streams = self.h2_conn.open_outbound_streams >= (\n                    self.h2_conn.remote_settings.max_concurrent_streams\n                )", "R05.2"),
    Mutant("gate-counts-own-stream-table", H2, "no_free_streams = self.h2_conn.open_outbound_streams >= (", "no_free_streams = len(self.streams) >= (", "R05.2"),
    Mutant("resume-counts-id-map", H2, "can_resume_queue = self.stream_queue and self.h2_conn.open_outbound_streams < (", "can_resume_queue = self.stream_queue and len(self.our_stream_id) < (", "R05.2"),
    Mutant("gate-counts-mapped-minus-queued", H2, "no_free_streams = self.h2_conn.open_outbound_streams >= (", "no_free_streams = bool(self.their_stream_id) and len(self.their_stream_id) >= (", "R05.2"),
    Mutant("resume-lifo", H2, "events = self.stream_queue.pop(next(iter(self.stream_queue)))", "events = self.stream_queue.popitem()[1]", "R05.2"),
    Mutant("resume-without-capacity", H2, "can_resume_queue = self.stream_queue and self.h2_conn.open_outbound_streams < (", "can_resume_queue = self.stream_queue and self.h2_conn.open_outbound_streams <= (", "R05.2"),
    Mutant("gated-event-also-sent", H2, "                    self.stream_queue[event.stream_id].append(event)\n                    return\n", "                    self.stream_queue[event.stream_id].append(event)\n", "R05.2"),
    Mutant("provisional-cleared-on-any-settings-ack", H2, "        elif isinstance(event, h2.events.RequestReceived):\n            yield from self.protocol_error(\n                f\"HTTP/2 protocol error: received request from server\"\n            )\n            return True\n",
           "        elif isinstance(event, h2.events.RequestReceived):\n            yield from self.protocol_error(\n                f\"HTTP/2 protocol error: received request from server\"\n            )\n            return True\n        elif isinstance(event, h2.events.SettingsAcknowledged):\n            self.provisional_max_concurrency = None\n            return (yield from super().handle_h2_event(event))\n", "R05.2"),
    # R05.3
    Mutant("route-receive-by-child-stream", I, "                    stream = self.streams[command.event.stream_id]\n", "                    stream = self.streams[next(iter(self.streams))]\n", "R05.3"),
    Mutant("route-send-by-context-server", I, "                conn = self.connections[command.connection]\n                yield from self.event_to_child(conn, command.event)", "                conn = self.connections[self.context.server]\n                yield from self.event_to_child(conn, command.event)", "R05.3"),
    Mutant("make-stream-on-any-receive", I, "                if isinstance(command.event, RequestHeaders):\n                    yield from self.make_stream(command.event.stream_id)", "                if True:\n                    yield from self.make_stream(command.event.stream_id)", "R05.3"),
    Mutant("drop-on-send", I, "            elif isinstance(command, SendHttp):\n                conn = self.connections[command.connection]", "            elif isinstance(command, SendHttp):\n                self.streams.pop(command.event.stream_id, None)\n                conn = self.connections[command.connection]", "R05.3"),
    # R05.4
    Mutant("h2-data-on-last-stream", H2, "yield ReceiveHttp(self.ReceiveData(event.stream_id, event.data))", "yield ReceiveHttp(self.ReceiveData(max(self.streams), event.data))", "R05.4"),
    Mutant("h2-no-ack", H2, "            self.h2_conn.acknowledge_received_data(\n                event.flow_controlled_length, event.stream_id\n            )\n", "            pass\n", "R05.4"),
    Mutant("h2-ack-only-with-headers", H2, "                return True\n            self.h2_conn.acknowledge_received_data(\n                event.flow_controlled_length, event.stream_id\n            )\n",
           "                return True\n            else:\n                return False\n            self.h2_conn.acknowledge_received_data(\n                event.flow_controlled_length, event.stream_id\n            )\n", "R05.4"),
    Mutant("h3-eom-on-event-stream", H3, "                    if h3_event.stream_ended:\n                        yield ReceiveHttp(self.ReceiveEndOfMessage(h3_event.stream_id))\n                elif isinstance(h3_event, HeadersReceived):",
           "                    if h3_event.stream_ended:\n                        yield ReceiveHttp(self.ReceiveEndOfMessage(event.stream_id))\n                elif isinstance(h3_event, HeadersReceived):", "R05.4"),
]
