"""C24 - upstream credentials are only sent to the upstream proxy / reverse target.

Decided (all rules compare what the code does - values, decision tables, interpreted commands - not how it is written):
  R24.1 who-may-use: ``UpstreamAuth.auth`` is read only by ``requestheaders`` and ``http_connect_upstream`` - in their bodies or in
        helpers that can only run on their behalf (``exclusive_closure``: every reference to the helper in the package is a call
        written inside an allowed function, it overrides nothing, is no hook name, carries no registering decorator); the class,
        the ``upstream_auth`` option value and ``parse_upstream_auth`` are referenced nowhere else in the package (the
        addon instance is only created in ``default_addons``), so no other code can obtain the credentials.
  R24.2 decision table by abstract evaluation of both hook methods over auth {unset, set} x every ProxyMode subclass x
        scheme {http, https}:  ``requestheaders`` writes ``Proxy-Authorization`` iff auth and UpstreamMode and http;
        ``Authorization`` iff auth and ReverseMode; nothing else; ``http_connect_upstream`` writes exactly
        ``Proxy-Authorization`` iff auth.  The value written is ``self.auth``, the target is the flow's request headers.
        The evaluation is value based: the flow / request / headers / mode / credentials are abstract objects that keep their
        identity through local aliases, helper parameters and return values; helper methods and module functions of the addon are
        evaluated in place, ``match`` class patterns are isinstance tests, module / class constants are read, early returns and
        logging / assertions / docstrings are transparent.  A shape the path engine does not evaluate (a loop over a rule table,
        dict dispatch ...) is not refused: the same cells are then extracted by *interpretation* (``interp_outcomes``).
  R24.4 the same table with the third input *tunnelled* (UpstreamMode only): a request received inside a client CONNECT
        tunnel is relayed through the tunnel to the origin, so nothing may be written for it.  Reported under its own
        rule id because it fires on today's tree (F-C24, known finding): a standing R24.2 finding would make every R24.2
        self-test mutant vacuously "caught".  The finding is keyed by the cell (mode, scheme, tunnelled) and anchored at the hook
        method, so it is the same finding whatever shape / helper the write lives in.
  R24.5 the same decision extracted by *interpreting* both hook methods (pyint), with the attributes of the flow that do not determine
        where the request is sent as INDEPENDENT inputs: the HTTP layer routes by (proxy mode, request.scheme) alone
        (GetHttpConnection.tls = request.scheme == "https"; CONNECT to the proxy iff tls or mode != upstream), while at hook time
        ``flow.server_conn`` is the context's current - for a top-level request still unconnected - server (tls False whatever the
        scheme), the client may or may not speak TLS to the listener and any port goes with any scheme.  Every (auth, mode, scheme) cell
        is therefore evaluated in the worlds server_conn.tls x client_conn.tls x port that agree / disagree with the scheme; the
        reference outcome depends on (auth, mode, scheme) only.  A decision keyed on a stand-in for the scheme is *analysed* and
        reported here.
  R24.3 ``HttpConnectUpstreamHook`` is constructed only by ``HttpUpstreamProxy.start_handshake`` (or a helper that only runs on its
        behalf).  The layer is then *interpreted* in concrete worlds (proxy scheme x destination host kind x send_connect x host-header
        option): ``make`` builds the stack, through it the constructor chain builds the layer, and ``start_handshake`` of that very
        layer is run with the hook answered the way UpstreamAuth answers it.  Decided on the interpreted commands: the hook fires only
        when ``send_connect`` is true, with a flow bound to the tunnel connection whose request is the CONNECT; every ``SendData`` of the
        handshake targets the tunnel connection and the bytes carrying the credentials are among them; the tunnel connection is the
        ``Server`` that ``make`` builds for the address in ``ctx.server.via`` and not the destination connection.
Both interpreters are _helpers_C.InitLayerInterp: module-level tables completed by later top-level statements are built like the import
builds them, and an exception raised by a trusted library keeps its class hierarchy (``except ValueError`` catches
``ipaddress.AddressValueError``).
NOT decided: what an addon that re-targets ``server_conn.via`` causes; the bytes on the wire (HTTP/1 assembly is trusted); that the HTTP
layer really sends a request only on a connection matching its scheme (connection reuse: C08 R08.1/R08.2 - a relaxed
``connection_spec_matches`` that lets a plain request ride an existing CONNECT+TLS tunnel is a C08 violation and invisible here).

`tunnelled` is an input the property needs (a plain-HTTP request sent through a client CONNECT tunnel in upstream mode is
relayed to the origin, see /verif/findings/F-C24).  The accepted ways for the addon to observe it are listed in
``TUNNEL_OBSERVERS``; a decision that reads any other flow attribute is outside the abstract evaluation (then interpreted, where the
attribute is an independent input or - when the interpreted world does not define it - an ANALYSIS-ERROR).
"""

from __future__ import annotations

import ast

from ..core import AnalysisError
from ..core import norm
from ..model import attr_chain
from ..model import last_attr
from ..model import qual_of
from ..model import walk_in_order
from ..paths import C
from ..paths import class_names
from ..paths import Engine
from ..paths import is_const
from ..paths import Spec
from ..paths import State
from ..selftest import Mutant
from ._helpers_C import ADDONS_INIT
from ._helpers_C import class_isa
from ._helpers_C import default_addon_order
from ._helpers_C import hook_method_sem
from ._helpers_C import hook_name
from ._helpers_C import is_obj
from ._helpers_C import mode_classes
from ._helpers_C import MODE_SPECS
from ._helpers_C import OBJ
from ._helpers_C import run_cell
from ._helpers_C import StrictSpec

PROP = "C24"
REG = {
    "strength": "strong",
    "technique": "who-may-use scan (package wide, private helpers followed through the call graph) + decision-table extraction by abstract "
    "evaluation and by interpretation of UpstreamAuth's hook methods + interpretation of HttpUpstreamProxy.make / __init__ / "
    "start_handshake in concrete worlds (hook guard, CONNECT flow, send target, tunnel-connection wiring)",
    "claim": "UpstreamAuth.auth is read only by the two hook methods; over all (auth, proxy mode class, scheme, tunnelled) cells they "
    "write Proxy-Authorization exactly for non-tunnelled plain-HTTP requests in upstream mode and for the CONNECT sent to the "
    "upstream proxy, Authorization exactly in reverse mode; the CONNECT carrying the header is sent to the tunnel (proxy) connection only.",
    "note": "HTTP/1 assembly and the addon manager's hook dispatch are trusted; addons re-targeting server_conn.via are out of scope.",
}

UA = "mitmproxy/addons/upstream_auth.py"
UP = "mitmproxy/proxy/layers/http/_upstream_proxy.py"
HK = "mitmproxy/proxy/layers/http/_hooks.py"
TUN = "mitmproxy/proxy/tunnel.py"
READERS = ("UpstreamAuth.requestheaders", "UpstreamAuth.http_connect_upstream")
CRED = b"Basic dXNlcjpwYXNz"  # the configured credentials in every interpreted world

# accepted idioms by which requestheaders may observe "this request is inside a CONNECT tunnel":
#   normalised expression text (flow parameter spelled `f`) -> value when tunnelled / when not tunnelled
TUNNEL_OBSERVERS: dict[str, tuple] = {}


# ---------------------------------------------------------------------------------------------------
# "who may": the functions of one module that run only on behalf of the allowed entry points


def modules_mentioning(ctx, *needles, sub: str = "mitmproxy", exclude=("mitmproxy/contrib/",)):
    """Modules of the package whose text contains any of ``needles`` (sound pre-filter for identifier searches: a Name / Attribute /
    string reference needs the identifier in the file's text; honours in-memory overrides).  Same contract as the helper of that name
    in _helpers_C, with the package's source texts read once per run."""
    m = ctx.model
    cache = ctx.__dict__.setdefault("_c24_sources", {})
    key = (sub, exclude)
    if key not in cache:
        rels = {p.relative_to(m.repo).as_posix() for p in (m.repo / sub).rglob("*.py")} | {r for r in m.overrides if r.startswith(sub)}
        cache[key] = [(rel, m.source(rel)) for rel in sorted(rels) if not any(rel.startswith(e) for e in exclude)]
    return [m.module(rel) for rel, src in cache[key] if any(n in src for n in needles)]


def all_hook_names(ctx) -> set:
    """Names the addon manager dispatches to (superset): every class of the package that is called / derives from ``...Hook``, with the
    derived or explicit name."""
    out = set()
    for mm in modules_mentioning(ctx, "Hook"):
        for q, d in mm.defs().items():
            if isinstance(d, ast.ClassDef) and (d.name.endswith("Hook") or any(last_attr(b).endswith("Hook") for b in d.bases)):
                out.add(hook_name(d.name))
                for st in d.body:
                    tgt = st.targets[0] if isinstance(st, ast.Assign) and len(st.targets) == 1 else getattr(st, "target", None) if isinstance(st, ast.AnnAssign) else None
                    if isinstance(tgt, ast.Name) and tgt.id == "name" and isinstance(getattr(st, "value", None), ast.Constant) and isinstance(st.value.value, str):
                        out.add(st.value.value)
    return out


def _in_allowed(q: str, allowed) -> bool:
    return any(q == a or q.startswith(a + ".") for a in allowed)  # a nested def / lambda runs on behalf of the function that holds it


class exclusive_closure:
    """``roots`` plus every helper of module ``rel`` (method of ``cls`` or module-level function) that can only run on behalf of them:
    it is referenced at least once, every reference in the package is a *call* written inside an allowed function, and nothing else can
    invoke it by name (it overrides no base-class method, is no special method, carries no registering decorator and - for an addon
    class - is not the name of a hook the addon manager dispatches).  Makes "extract method" transparent for who-may-use rules.
    Membership is decided on demand (``q in closure``), so only the functions a rule asks about are searched for."""

    def __init__(self, ctx, rel: str, cls: str | None, roots, addon: bool = False):
        self.ctx, self.rel, self.cls, self.roots, self.addon = ctx, rel, cls, tuple(roots), addon
        self.mod = ctx.model.module(rel)
        self.memo: dict = {}
        self._hooks = None
        self._base_methods = None

    def __iter__(self):
        return iter(self.roots)

    def __contains__(self, q) -> bool:
        return self.allows(q, ())

    def base_methods(self):
        if self._base_methods is None:
            self._base_methods = set()
            if self.cls:
                for _, c in self.ctx.model.mro(self.rel, self.cls)[1:]:
                    self._base_methods |= {st.name for st in c.body if isinstance(st, (ast.FunctionDef, ast.AsyncFunctionDef))}
        return self._base_methods

    def refs(self, nm):
        """(references inside ``rel``: [(node, enclosing qual, is_call)], referenced from another module that knows this module / class?)"""
        import re

        inside, outside = [], False
        word = re.compile(r"(?<![A-Za-z0-9_])" + re.escape(nm) + r"(?![A-Za-z0-9_])")
        for mm in modules_mentioning(self.ctx, nm):
            if not word.search(mm.source):
                continue
            for n in ast.walk(mm.tree):
                hit = (isinstance(n, ast.Attribute) and n.attr == nm) or (isinstance(n, ast.Name) and n.id == nm and isinstance(n.ctx, ast.Load)) or (
                    isinstance(n, ast.Constant) and n.value == nm) or (isinstance(n, ast.alias) and n.name == nm)
                if not hit:
                    continue
                if mm.rel == self.rel:
                    par = getattr(n, "_parent", None)
                    inside.append((n, qual_of(n), isinstance(par, ast.Call) and par.func is n and not isinstance(n, ast.Constant)))
                elif (self.cls and self.cls in mm.source) or self.rel.rsplit("/", 1)[-1][:-3] in mm.source:
                    outside = True  # a module that can hold this class / module refers to the name: not ours to reason about
        return inside, outside

    def allows(self, q: str, stack) -> bool:
        if _in_allowed(q, self.roots):
            return True
        if q in self.memo:
            return self.memo[q]
        if q in stack:
            return True  # a cycle of helpers adds no new caller
        d = self.mod.get(q)
        ok = False
        if isinstance(d, (ast.FunctionDef, ast.AsyncFunctionDef)) and ("." not in q or (self.cls and q.startswith(self.cls + ".") and q.count(".") == 1)):
            ok = self._helper_ok(q, d, stack + (q,))
        elif "." in q and not isinstance(d, ast.ClassDef):
            # a nested def / lambda runs on behalf of the function that holds it
            ok = self.allows(q.rsplit(".", 1)[0], stack)
        self.memo[q] = ok
        return ok

    def _helper_ok(self, q, d, stack) -> bool:
        nm = d.name
        if nm.startswith("__") and nm.endswith("__"):
            return False
        if {last_attr(x) for x in d.decorator_list} - {"staticmethod", "classmethod"}:
            return False  # a decorator may register the function somewhere (commands, option hooks): not provably private
        if "." in q and nm in self.base_methods():
            return False  # overrides a framework method: invoked through the base class protocol
        if self.addon and "." in q and not nm.startswith("_"):
            if self._hooks is None:
                self._hooks = all_hook_names(self.ctx)
            if nm in self._hooks:
                return False  # the addon manager calls it for that event
        inside, outside = self.refs(nm)
        if outside or not inside:
            return False
        return all(is_call and self.allows(where, stack) for _, where, is_call in inside)


FLOW_PATHS = ("", "request", "client_conn")  # sub-objects of the flow the table knows; what is read from them is listed in AuthSpec.flow_attr


class AuthSpec(StrictSpec):
    """The hook methods evaluated over one (auth, mode, scheme, tunnelled) cell.  Values, not spellings: the flow, its request, the
    request's headers, the proxy mode object and the credentials are abstract objects that keep their identity through local aliases,
    helper parameters and return values; helpers of the addon (methods / module functions) are inlined; module- and class-level
    constants are read; ``match`` class patterns are isinstance tests."""

    max_depth = 5

    def __init__(self, ctx, cell: dict):
        super().__init__()
        self.ctx = ctx
        self.model = ctx.model
        self.mod = ctx.model.module(UA)
        self.cell = cell
        self._vetted: set = set()
        self._log_names = None

    # ---- inputs
    def flow_attr(self, path: str, expr):
        if path in FLOW_PATHS:
            return OBJ("fp", path)
        if path == "request.scheme":
            return C(self.cell["scheme"])
        if path == "request.headers":
            return OBJ("reqheaders")
        if path == "client_conn.proxy_mode":
            return OBJ("mode", self.cell["mode"])
        key = "f." + path
        if key in TUNNEL_OBSERVERS:
            return TUNNEL_OBSERVERS[key][0 if self.cell["tunnelled"] else 1]
        if any(k.startswith(key + ".") for k in TUNNEL_OBSERVERS):
            return OBJ("fp", path)
        raise AnalysisError(f"UpstreamAuth: the decision reads an unmodelled flow attribute {norm(expr)}")

    def const_of(self, vals):
        if len(vals) != 1:
            return None
        try:
            v = ast.literal_eval(vals[0])
        except Exception:
            return None
        return C(v) if isinstance(v, (str, bytes, int, bool, type(None))) else None

    def class_const(self, name):
        vals = []
        for st in self.model.cls(UA, "UpstreamAuth").body:
            if isinstance(st, ast.Assign) and any(isinstance(t, ast.Name) and t.id == name for t in st.targets):
                vals.append(st.value)
            elif isinstance(st, ast.AnnAssign) and isinstance(st.target, ast.Name) and st.target.id == name and st.value is not None:
                vals.append(st.value)
        return self.const_of(vals)

    def atom(self, expr, st, depth):
        if isinstance(expr, ast.Name):
            if st.has(f"{depth}:{expr.id}"):
                return None
            if expr.id in ("self", "cls"):
                return OBJ("self")
            return self.const_of(self.mod.assigns(expr.id))  # a module-level literal (PROXY_AUTH_HEADER = "Proxy-Authorization")
        if isinstance(expr, ast.Attribute):
            base = self.value(expr.value, st, depth)
            if is_obj(base, "self"):
                if expr.attr == "auth":
                    return OBJ("auth") if self.cell["auth"] else C(None)
                return self.class_const(expr.attr)
            if is_obj(base, "fp"):
                return self.flow_attr((base[2] + "." if base[2] else "") + expr.attr, expr)
            if is_obj(base, "reqheaders") or is_obj(base, "mode") or is_obj(base, "auth"):
                raise AnalysisError(f"UpstreamAuth: unmodelled attribute of the {base[1]} object: {norm(expr)}")
        return None

    # ---- conditions
    def mode_class(self, texpr):
        """name of the mode_specs class a type expression denotes (through import aliases), else None"""
        r = self.model.resolve_name(self.mod, texpr)
        if r is not None and r[0].rel == MODE_SPECS and isinstance(r[1], ast.ClassDef):
            return r[1].name
        n = last_attr(texpr)
        if n and isinstance(self.model.module(MODE_SPECS).get(n), ast.ClassDef) and (attr_chain(texpr) == n and n not in self.mod.imports or attr_chain(texpr).split(".")[0] == "mode_specs"):
            return n
        return None

    @staticmethod
    def type_elts(texpr):
        if isinstance(texpr, ast.Tuple):
            return [x for e in texpr.elts for x in AuthSpec.type_elts(e)]
        if isinstance(texpr, ast.BinOp) and isinstance(texpr.op, ast.BitOr):
            return AuthSpec.type_elts(texpr.left) + AuthSpec.type_elts(texpr.right)
        return [texpr]

    def decide_isinstance(self, cond, st, depth):
        if len(cond.args) != 2:
            return None
        v = self.value(cond.args[0], st, depth)
        elts = self.type_elts(cond.args[1])
        if is_obj(v, "mode"):
            out = False
            for e in elts:
                n = self.mode_class(e)
                if n is None:
                    raise AnalysisError(f"UpstreamAuth: isinstance of the proxy mode against something that is not a mode_specs class: {norm(cond)}")
                out = out or class_isa(self.model, MODE_SPECS, v[2], n)
            return out
        names = class_names(cond.args[1])
        if is_obj(v, "auth") and names:
            return any(n in ("bytes", "object") for n in names)  # parse_upstream_auth returns bytes
        if is_const(v) and names and all(n in ("bytes", "str", "int", "bool", "object") for n in names):
            return isinstance(v[1], tuple({"bytes": bytes, "str": str, "int": int, "bool": bool, "object": object}[n] for n in names))
        return None

    def decide_leaf(self, cond, st, depth):
        # type(mode) is / == Cls: exact class
        if isinstance(cond, ast.Compare) and len(cond.ops) == 1 and isinstance(cond.ops[0], (ast.Is, ast.IsNot, ast.Eq, ast.NotEq)):
            for a, b in ((cond.left, cond.comparators[0]), (cond.comparators[0], cond.left)):
                if isinstance(a, ast.Call) and isinstance(a.func, ast.Name) and a.func.id == "type" and len(a.args) == 1 and not a.keywords:
                    v = self.value(a.args[0], st, depth)
                    if is_obj(v, "mode"):
                        n = self.mode_class(b)
                        if n is None:
                            raise AnalysisError(f"UpstreamAuth: type() of the proxy mode compared with something that is not a mode_specs class: {norm(cond)}")
                        eq = v[2] == n
                        return eq if isinstance(cond.ops[0], (ast.Is, ast.Eq)) else not eq
        return StrictSpec.decide_leaf(self, cond, st, depth)

    def match_case(self, subject, pattern, st, depth):
        d = Spec.match_case(self, subject, pattern, st, depth)
        if d is None:
            raise AnalysisError(f"UpstreamAuth: match pattern not modelled: {norm(pattern)}")
        return d

    # ---- helpers of the addon are evaluated in place
    def inline(self, call, st, depth):
        f = call.func
        d = None
        if isinstance(f, ast.Attribute) and isinstance(f.value, ast.Name) and f.value.id in ("self", "cls", "UpstreamAuth"):
            r = self.model.method(UA, "UpstreamAuth", f.attr)
            d = r[1] if r is not None else None
        elif isinstance(f, ast.Name) and not st.has(f"{depth}:{f.id}"):
            d = self.mod.get(f.id)
        if not isinstance(d, ast.FunctionDef):
            return None
        if any(isinstance(a, ast.Starred) for a in call.args) or any(k.arg is None for k in call.keywords) or d.args.vararg or d.args.kwarg:
            raise AnalysisError(f"UpstreamAuth: call of a helper with star-arguments is not modelled: {norm(call)}")
        if id(d) not in self._vetted:
            self.vet(d)
            self._vetted.add(id(d))
        return d

    def value(self, expr, st, depth):
        if isinstance(expr, ast.Call):
            fn = self.inline(expr, st, depth)
            if fn is not None:
                # a helper called inside an expression (`if (h := _header_for(..)) and self.auth`): evaluated in place; it has to be a pure
                # decision there (one outcome, no header write) - with effects it is only modelled as a statement / whole condition
                o = Engine(self).call(fn, expr, {st}, depth)
                if o.exc or len(o.ret) != 1:
                    raise AnalysisError(f"UpstreamAuth: helper call inside an expression has {len(o.ret)} outcomes / raises: {norm(expr)}")
                r = next(iter(o.ret))
                if r.trace != st.trace:
                    raise AnalysisError(f"UpstreamAuth: helper with effects called inside an expression is not modelled: {norm(expr)}")
                return r.get("$ret")
        return StrictSpec.value(self, expr, st, depth)

    def call_ok(self, call) -> bool:
        """pure diagnostics: logging.<..>, <module-level logger>.<..>, also when the logger is obtained in place"""
        if self._log_names is None:
            self._log_names = set(self.log_roots)
            for stt in self.mod.tree.body:
                if isinstance(stt, ast.Assign) and isinstance(stt.value, ast.Call) and attr_chain(stt.value.func).split(".")[0] == "logging":
                    self._log_names |= {t.id for t in stt.targets if isinstance(t, ast.Name)}
        e = call.func
        while isinstance(e, (ast.Attribute, ast.Call)):
            e = e.value if isinstance(e, ast.Attribute) else e.func
        return isinstance(e, ast.Name) and e.id in self._log_names and isinstance(call.func, ast.Attribute)

    def write_event(self, target, value, stmt, st, depth):
        if isinstance(target, ast.Subscript) and is_obj(self.value(target.value, st, depth), "reqheaders"):
            k = self.value(target.slice, st, depth)
            if not (is_const(k) and isinstance(k[1], (str, bytes))):
                raise AnalysisError(f"UpstreamAuth: header name is not a literal in {norm(stmt)}")
            name = k[1].decode() if isinstance(k[1], bytes) else k[1]
            if not (is_obj(value, "auth") or value == C(None)):
                raise AnalysisError(f"UpstreamAuth: header value is not self.auth in {norm(stmt)}")
            return ("hdr", name.lower())
        raise AnalysisError(f"UpstreamAuth: unmodelled write {norm(stmt)}")


def expected_requestheaders(cell) -> set:
    if not cell["auth"]:
        return set()
    if cell["mode"] == "UpstreamMode" and cell["scheme"] == "http" and not cell["tunnelled"]:
        return {"proxy-authorization"}
    if cell["mode"] == "ReverseMode":
        return {"authorization"}
    return set()


PRETTY = {"proxy-authorization": "Proxy-Authorization", "authorization": "Authorization"}


def path_outcomes(ctx, fn, qual, cells):
    """[(cell, how, header names written)] by abstract evaluation on the path engine (every condition decided from the cell)."""
    params = [a.arg for a in fn.args.posonlyargs + fn.args.args]
    extra_ok = len(params) - 2 <= len(fn.args.defaults) and not fn.args.vararg and all(d is not None for d in fn.args.kw_defaults)
    ctx.require(len(params) >= 2 and params[0] == "self" and extra_ok, f"{qual}: unexpected signature {params} (hooks are called with the flow only)")
    f = params[1]
    StrictSpec().vet(fn)
    out = []
    for cell in cells:
        spec = AuthSpec(ctx, cell)
        bindings = {f: OBJ("fp", "")}
        for p, dflt in zip(params[len(params) - len(fn.args.defaults):], fn.args.defaults):
            if p != f:
                bindings[p] = spec.value(dflt, State(), 0)
        how, st = run_cell(spec, fn, bindings)
        out.append((cell, how, {e[1] for e in st.trace if e[0] == "hdr"}))
    return out


def interp_outcomes(ctx, fn, qual, cells):
    """The same table by interpretation (pyint) of the hook on a flow that carries exactly the inputs of the table: used when the hook is
    written in a shape the path engine does not evaluate (loops over a table, dict dispatch, comprehensions ...).  As on the path
    engine, a decision that reads another attribute of the flow is not evaluated (ANALYSIS-ERROR; R24.5 analyses those)."""
    it = HookInterp(ctx)
    meth = qual.split(".")[-1]
    out = []
    for cell in cells:
        outcome, _ = it.run(meth, CRED if cell["auth"] else None, cell["mode"], cell["scheme"] or "http", strict=True)
        if isinstance(outcome, str):
            out.append((cell, outcome.replace("raises ", "raise:"), set()))
            continue
        for h, v in outcome.items():
            if v != CRED:
                raise AnalysisError(f"UpstreamAuth: header value of {PRETTY.get(h, h)} is not self.auth")
        out.append((cell, "return", set(outcome)))
    return out


def eval_table(ctx, fn, qual, cells, expected):
    try:
        outcomes = path_outcomes(ctx, fn, qual, cells)
    except AnalysisError as e:
        # not a verdict: the shape is outside the abstract evaluation.  The decision is then *interpreted*; `tunnelled` has no
        # accepted observer (TUNNEL_OBSERVERS), so a tunnelled cell is decided like its untunnelled twin, exactly as on the path engine.
        if TUNNEL_OBSERVERS:
            raise
        try:
            outcomes = interp_outcomes(ctx, fn, qual, cells)
        except AnalysisError as e2:
            raise AnalysisError(f"{e} (and not interpretable either: {e2})")
        ctx.note(f"{qual}: table extracted by interpretation, the path engine does not evaluate this shape ({e})")
    bad = {"R24.2": 0, "R24.4": 0}
    for cell, how, got in outcomes:
        rule = "R24.4" if cell["tunnelled"] else "R24.2"
        ctx.cells += 1
        short = f"mode={cell['mode']} scheme={cell['scheme']} tunnelled={cell['tunnelled']}" + ("" if cell["auth"] else " auth=None")
        if how != "return":
            bad[rule] += 1
            ctx.fail(rule, (UA, qual, fn), f"{how} for {short}", "the hook raises instead of deciding", cell=cell)
            continue
        exp = expected(cell)
        for h in sorted(got - exp):
            bad[rule] += 1
            ctx.fail(rule, (UA, qual, fn), f"{PRETTY.get(h, h)} written for {short}",
                     "upstream credentials are attached to a request that is not sent to the upstream proxy / reverse target", cell=cell)
        for h in sorted(exp - got):
            bad[rule] += 1
            ctx.fail(rule, (UA, qual, fn), f"{PRETTY.get(h, h)} not written for {short}",
                     "the configured credentials are not sent where the property says they are", cell=cell)
        if len(ctx.samples) < 4 and got:
            ctx.sample({"function": qual, "cell": cell, "writes": sorted(got)})
    return bad


class HookInterp:
    """UpstreamAuth's hook methods interpreted (pyint) on one concrete flow.  ``run`` -> (outcome, world text) with outcome =
    {header name (lower case): value} of the credentials headers on the request afterwards | 'raises <Exc>'."""

    def __init__(self, ctx):
        from ._helpers_C import CachedModel
        from ._helpers_C import InitLayerInterp as LayerInterp  # (+ module-level initialisation statements, library exception hierarchy)

        self.ctx = ctx
        # one interpreter for all cells (module constants, class look-ups are the same in every cell); logging is a no-op; private helpers,
        # match, early returns, tables, module constants are interpreted like the code they replace
        self.it = LayerInterp(CachedModel(ctx.model))
        self.anc: dict = {}

    def run(self, meth, auth, mode, scheme, server_tls=None, client_tls=None, std_port=None, strict=False):
        """``strict``: the flow carries only the inputs of the R24.2 table (request.scheme, request.headers, client_conn.proxy_mode); a read
        of anything else ends the analysis (ANALYSIS-ERROR) instead of being evaluated on one arbitrary value."""
        from ..pyint import DictRec
        from ..pyint import Raised
        from ..pyint import Rec

        it = self.it
        if mode not in self.anc:
            self.anc[mode] = [c.name for _, c in self.ctx.model.mro(MODE_SPECS, mode)]
        anc = self.anc[mode]
        https = scheme == "https"
        s_tls = https if server_tls is None else server_tls
        c_tls = https if client_tls is None else client_tls
        port = (443 if https else 80) if std_port is None else ((443 if https else 80) if std_port else (8080 if https else 443))
        it.steps = 0
        it.writes = []
        it.log = []
        headers = DictRec("Headers", {"Host": "example.com", "Accept": "*/*"}, case_insensitive=True, _name="request.headers")
        req = Rec("Request", _name="request", scheme=scheme, headers=headers, method="CONNECT" if meth != "requestheaders" else "GET", host="example.com", port=port,
                  authority="example.com", path="/", http_version="HTTP/1.1", is_http2=False, is_http3=False, is_http11=True, is_http10=False, first_line_format="absolute")
        mode_rec = Rec(mode, _bases=tuple(anc[1:]), _impl=(MODE_SPECS, mode), scheme="http", transport_protocol="tcp", full_spec=mode, type_name=mode)
        flow = Rec("HTTPFlow", _name="flow", request=req, response=None, client_conn=Rec("Client", proxy_mode=mode_rec, tls=c_tls, tls_established=c_tls),
                   server_conn=Rec("Server", via=None, address=("example.com", port), tls=s_tls, tls_established=False, connected=False, timestamp_start=None, peername=None),
                   metadata=DictRec("dict", {}, _name="flow.metadata"), is_replay=None, live=True)
        if strict:
            req = Rec("Request", _name="request", scheme=scheme, headers=headers)
            flow = Rec("HTTPFlow", _name="flow", request=req, client_conn=Rec("Client", proxy_mode=Rec(mode, _bases=tuple(anc[1:]), _impl=(MODE_SPECS, mode))))
        self_rec = Rec("UpstreamAuth", _impl=(UA, "UpstreamAuth"), auth=auth)
        try:
            it.method(self_rec, meth, flow)
            outcome = {k.lower(): v for k, v in headers._items.items() if isinstance(k, str) and k.lower() in ("proxy-authorization", "authorization")}
        except Raised as r:
            outcome = f"raises {r.name}"
        world = "" if (server_tls, client_tls, std_port) == (None, None, None) else f" [flow.server_conn.tls={s_tls} flow.client_conn.tls={c_tls} request.port={port}]"
        return outcome, world


def r24_1(ctx):
    m = ctx.model
    mod = m.module(UA)
    m.cls(UA, "UpstreamAuth")
    # the two hook methods and the private helpers that run only on their behalf (an extracted `_set_credentials` is still "the hook")
    readers = exclusive_closure(ctx, UA, "UpstreamAuth", READERS, addon=True)
    configurers = exclusive_closure(ctx, UA, "UpstreamAuth", ("UpstreamAuth.configure",), addon=True)
    reads = [n for n in walk_in_order(mod.tree) if isinstance(n, ast.Attribute) and n.attr == "auth" and isinstance(n.ctx, ast.Load)]
    seen = set()
    for n in reads:
        q = qual_of(n)
        ok = q in readers
        if ok and q in seen:
            continue
        seen.add(q)
        ctx.check(ok, "R24.1", (UA, q, n), f".auth read in {q}", "the credentials are read outside the two hook methods that may attach them",
                  desc=f".auth read in {q}" + ("" if q in READERS else " (runs only on behalf of the hook methods)"))
    # the hook methods still get at the credentials somewhere (what they do with them is R24.2 / R24.5); otherwise the anchor moved
    for r in READERS:
        ctx.func(UA, r)
    ctx.require(any(q in readers for q in seen), "UpstreamAuth: self.auth is not read by the hook methods or their helpers (anchor moved)")
    # nothing else in the package can get hold of the credentials
    n_ref = 0
    builders = exclusive_closure(ctx, ADDONS_INIT, None, ("default_addons",))
    for mm in modules_mentioning(ctx, "UpstreamAuth", "upstream_auth", "upstreamauth"):
        for n in walk_in_order(mm.tree):
            if mm.rel == UA:
                if isinstance(n, ast.Name) and n.id == "parse_upstream_auth" and qual_of(n) not in configurers:
                    ctx.fail("R24.1", (UA, qual_of(n), n), "parse_upstream_auth referenced outside configure", "the encoded credentials are produced outside UpstreamAuth.configure")
                if isinstance(n, ast.Attribute) and n.attr == "upstream_auth" and qual_of(n) not in configurers:
                    ctx.fail("R24.1", (UA, qual_of(n), n), "options.upstream_auth read outside configure", "the configured credentials are read outside UpstreamAuth.configure")
                continue
            ident = None
            if isinstance(n, ast.Attribute) and n.attr in ("UpstreamAuth", "parse_upstream_auth", "upstream_auth"):
                ident = n
            elif isinstance(n, ast.Name) and n.id in ("UpstreamAuth", "parse_upstream_auth"):
                ident = n
            elif isinstance(n, ast.Constant) and isinstance(n.value, str) and n.value.lower() == "upstreamauth":
                ident = n
            elif isinstance(n, ast.alias) and n.name in ("UpstreamAuth", "parse_upstream_auth"):
                ident = n
            if ident is None:
                continue
            n_ref += 1
            par = getattr(ident, "_parent", None)
            if mm.rel == ADDONS_INIT and isinstance(ident, ast.alias) and ident.name == "UpstreamAuth":
                continue  # `from .upstream_auth import UpstreamAuth` next to default_addons: what is done with the name is checked where it is used
            ok = (
                mm.rel == ADDONS_INIT
                and last_attr(ident) == "UpstreamAuth"
                and isinstance(ident, (ast.Attribute, ast.Name))
                and isinstance(par, ast.Call)
                and par.func is ident
                and qual_of(ident) in builders
            )
            ctx.check(ok, "R24.1", (mm.rel, qual_of(ident), ident), f"{norm(ident)} referenced in {mm.rel}",
                      "code outside the addon can reach the UpstreamAuth credentials", desc=f"{norm(par) if ok else norm(ident)} in {qual_of(ident)}")
    ctx.require(n_ref >= 1, "UpstreamAuth is not instantiated anywhere in the package")
    ctx.require("UpstreamAuth" in default_addon_order(ctx), "UpstreamAuth() vanished from default_addons")
    ctx.expect_instances("R24.1", 2)  # >= 1 function reading the credentials + the one instantiation site


# ---------------------------------------------------------------------------------------------------
# R24.3: HttpUpstreamProxy interpreted (make -> __init__ -> start_handshake) in concrete worlds

HTTP_REL = "mitmproxy/http.py"
CONN_REL = "mitmproxy/connection.py"
LAYER_REL = "mitmproxy/proxy/layer.py"
TLS_REL = "mitmproxy/proxy/layers/tls.py"
ASSEMBLE = "assemble_request"
HOOK = "HttpConnectUpstreamHook"


def _b(x) -> bytes:
    if isinstance(x, bytes):
        return x
    if isinstance(x, str):
        return x.encode("utf-8", "surrogateescape")
    if isinstance(x, int) and not isinstance(x, bool):
        return str(x).encode()
    raise AnalysisError(f"upstream proxy harness: cannot serialise {x!r}")


class UpstreamWorld:
    """One environment of ``HttpUpstreamProxy``: the layer stack is built by interpreting ``make`` (and through it the constructor
    chain), then ``start_handshake`` of the layer it produced is interpreted.  The objects the layer only passes around are records
    created from the *signature* of the repository class (``HTTPFlow``, ``Request``, ``Server`` - identified by the class, not by the
    way it is imported or spelled); ``Headers`` is a case-insensitive mapping; ``http1.assemble_request`` is the trusted serialiser
    (restated: request line, header lines, body); ``HttpConnectUpstreamHook`` is answered the way UpstreamAuth.http_connect_upstream
    answers it when credentials are configured (R24.2): the header is put on the request of the flow handed to the hook."""

    def __init__(self, ctx):
        from ._helpers_C import CachedModel
        from ._helpers_C import InitLayerInterp as LayerInterp  # (+ module-level initialisation statements, library exception hierarchy)
        from ._helpers_C import OpenRec
        from ..pyint import ClassRef
        from ..pyint import DictRec
        from ..pyint import Func
        from ..pyint import Raised
        from ..pyint import Rec

        world = self
        self.Raised = Raised
        self.ctx = ctx
        self.model = CachedModel(ctx.model)
        self.OpenRec, self.DictRec, self.Rec, self.Func, self.ClassRef = OpenRec, DictRec, Rec, Func, ClassRef
        record_classes = {(HTTP_REL, "HTTPFlow"), (HTTP_REL, "Request"), (CONN_REL, "Server"), (CONN_REL, "Client"), (LAYER_REL, "NextLayer"), (TLS_REL, "ServerTLSLayer")}

        class External:
            """something imported from outside the repository and outside the trusted stdlib subset (h11's ReceiveBuffer): opaque"""

            _abstract_ok = True

            def __init__(self, target):
                self.target = target

            def __call__(self, *a, **k):
                return OpenRec("external", _name=f"{self.target}()")

            def __getattr__(self, attr):
                if attr.startswith("__"):
                    raise AttributeError(attr)
                return External(f"{self.target}.{attr}")

        class It(LayerInterp):
            def name(self, ident, env, mod, depth, node):
                try:
                    return super().name(ident, env, mod, depth, node)
                except AnalysisError:
                    if ident not in env and ident in mod.imports and world.model.module_by_dotted(mod.imports[ident].split(".")[0]) is None:
                        return External(mod.imports[ident])
                    raise

            def instantiate(self, c, args, kwargs, depth, where):
                k = c._key()
                if k == (HTTP_REL, "Headers"):
                    return world.make_headers(args, kwargs)
                if k in record_classes:
                    return world.make_record(self, c, args, kwargs, depth)
                return super().instantiate(c, args, kwargs, depth, where)

            def apply(self, f, args, kwargs, depth, node=None):
                if isinstance(f, Func) and not isinstance(f.node, ast.Lambda):
                    k = (f.mod.rel, getattr(f.node, "_qual", f.node.name))
                    if k[1] == ASSEMBLE and k[0].startswith("mitmproxy/net/http/http1/"):
                        return world.assemble(*args, **kwargs)
                    if k == (TUN, "TunnelLayer.start_handshake"):
                        from ._helpers_C import GenDone

                        world.super_handshakes += 1  # no CONNECT is sent: the tunnel is "established" at once; nothing of it is in the rule's alphabet
                        return GenDone([], None)
                return super().apply(f, args, kwargs, depth, node)

            def binop(self, op, l, r, node):
                if isinstance(op, ast.Div) and isinstance(l, Rec) and l._impl is not None:
                    for meth in ("__itruediv__", "__truediv__") if isinstance(getattr(node, "_parent", None), ast.AugAssign) or isinstance(node, ast.AugAssign) else ("__truediv__",):
                        hit = self.model.method(l._impl[0], l._impl[1], meth)
                        if hit is not None:
                            return self.apply(Func(hit[0], hit[1], bound=l), [r], {}, 0, node)
                return super().binop(op, l, r, node)

        self.it = It(self.model, respond=self.respond, trusted_modules={"time": __import__("time"), "uuid": __import__("uuid"), "collections": __import__("collections")})
        self.hook_seen: list = []
        self.assembled: list = []
        self.super_handshakes = 0
        self.servers: list = []

    # ---- stand-ins
    def make_record(self, it, c, args, kwargs, depth):
        """a record with the attributes the constructor's parameters name (dataclass: its keyword fields)"""
        qual = getattr(c.node, "_qual", c.node.name)
        mro = self.model.mro(c.mod.rel, qual)
        names = [cc.name for _, cc in mro]
        rec = self.OpenRec(c.node.name, _bases=tuple(names[1:]), _name=c.node.name.lower())
        init = self.model.method(c.mod.rel, qual, "__init__")
        if init is not None:
            a = init[1].args
            skip = {"self"} | {x.arg for x in (a.vararg, a.kwarg) if x is not None}
            env = it._bind_args(self.Func(init[0], init[1], bound=rec), list(args), dict(kwargs), depth)
            for k, v in env.items():
                if not k.startswith("$") and k not in skip:
                    object.__setattr__(rec, k, v)
        else:
            if args:
                raise AnalysisError(f"upstream proxy harness: positional arguments for the generated constructor of {c.node.name} are not modelled")
            for k, v in kwargs.items():
                object.__setattr__(rec, k, v)
        if c.node.name == "Server":
            self.servers.append(rec)
            for k, v in (("via", None), ("tls", False), ("sni", None), ("alpn_offers", ())):
                if k not in rec.__dict__:
                    object.__setattr__(rec, k, v)
            object.__setattr__(rec, "_name", f"server#{len(self.servers)}")
        return rec

    def make_headers(self, args, kwargs):
        if kwargs or (args and args[0]):
            fields = list(args[0]) if args else []
            if kwargs or not all(isinstance(x, (tuple, list)) and len(x) == 2 for x in fields):
                raise AnalysisError("upstream proxy harness: Headers(...) with keyword fields is not modelled")
        else:
            fields = []
        h = self.DictRec("Headers", dict(fields), case_insensitive=True, _name="headers")

        def insert(index, key, value):
            items = list(h._items.items())
            items.insert(index, (key, value))
            h._items.clear()
            h._items.update(items)

        def add(key, value):
            h._items[key] = value

        for fn in (insert, add):
            fn._abstract_ok = True
            object.__setattr__(h, fn.__name__, fn)
        return h

    def assemble(self, request, *rest, **kw):
        if rest or kw or not isinstance(request, self.Rec):
            raise AnalysisError("upstream proxy harness: unmodelled call of http1.assemble_request")
        d = request.__dict__
        hdrs = d.get("headers")
        if not isinstance(hdrs, self.DictRec):
            raise AnalysisError("upstream proxy harness: the request's headers are not a Headers object")
        try:
            line = _b(d["method"]) + b" " + _b(d["authority"]) + b" " + _b(d["http_version"])
            head = b"".join(_b(k) + b": " + _b(v) + b"\r\n" for k, v in hdrs._items.items())
            data = line + b"\r\n" + head + b"\r\n" + _b(d.get("content") or b"")
        except KeyError as e:
            raise AnalysisError(f"upstream proxy harness: assemble_request of a request without {e}")
        self.assembled.append((request, data))
        return data

    def respond(self, cmd):
        if isinstance(cmd, self.Rec) and cmd._cls == HOOK:
            flows = [v for v in cmd.__dict__.values() if isinstance(v, self.Rec) and v._cls == "HTTPFlow"]
            if len(flows) != 1:
                raise AnalysisError(f"upstream proxy harness: {HOOK} does not carry exactly one HTTPFlow")
            fl = flows[0]
            req = fl.__dict__.get("request")
            seen = {"flow": fl, "request": req, "method": None}
            if isinstance(req, self.Rec):
                seen["method"] = req.__dict__.get("method")
                hdrs = req.__dict__.get("headers")
                if not isinstance(hdrs, self.DictRec):
                    raise AnalysisError("upstream proxy harness: the CONNECT request's headers are not a Headers object")
                for k in [k for k in hdrs._items if hdrs._k(k) == "proxy-authorization"]:
                    del hdrs._items[k]
                hdrs._items["Proxy-Authorization"] = CRED  # what UpstreamAuth.http_connect_upstream does (R24.2)
            self.hook_seen.append(seen)
        return None

    # ---- one run
    def run(self, scheme: str, proxy_addr, dest_addr, send_connect: bool, host_header: bool):
        it = self.it
        OpenRec = self.OpenRec
        it.steps = 0
        it.writes = []
        it.log = []
        self.hook_seen, self.assembled, self.servers, self.super_handshakes = [], [], [], 0
        client = OpenRec("Client", _bases=("Connection",), _name="client")
        server = OpenRec("Server", _bases=("Connection",), _name="destination", address=dest_addr, via=(scheme, proxy_addr), tls=False, sni=None)
        opts = {"http_connect_send_host_header": host_header}
        options = self.DictRec("Options", dict(opts), _name="options", **opts)
        context = OpenRec("Context", _name="context", client=client, server=server, options=options, layers=[])
        up = self.model.module(UP)
        cref = self.ClassRef(up, self.model.cls(UP, "HttpUpstreamProxy"))
        make = self.model.method(UP, "HttpUpstreamProxy", "make")
        if make is None:
            raise AnalysisError("anchor vanished: HttpUpstreamProxy.make")
        res = {"context": context, "server": server, "client": client}
        try:
            it.apply(self.Func(make[0], make[1], bound=cref), [context, send_connect], {}, 0)
            layers = [l for l in context.__dict__["layers"] if isinstance(l, self.Rec) and l._cls == "HttpUpstreamProxy"]
            if len(layers) != 1:
                raise AnalysisError(f"upstream proxy harness: HttpUpstreamProxy.make registered {len(layers)} HttpUpstreamProxy layers with the context")
            layer = layers[0]
            res["layer"] = layer
            res["made_servers"] = list(self.servers)
            res["wired"] = any(v in self.servers for v in layer.__dict__.values() if isinstance(v, self.Rec))
            it.log = []
            sh = it.getattr(layer, "start_handshake", None, 0)
            it.apply(sh, [], {}, 0)
        except self.Raised as e:
            raise AnalysisError(f"upstream proxy harness: {e} escapes make()/start_handshake() for via={scheme}://{proxy_addr}, destination {dest_addr}, send_connect={send_connect}")
        res["cmds"] = [x for kind, x in it.log if kind == "cmd"]
        res["hooks"] = list(self.hook_seen)
        res["super"] = self.super_handshakes
        return res


def r24_3(ctx):
    from ..pyint import Rec

    m = ctx.model
    # (a) the hook is constructed only by start_handshake (or a helper that runs only on its behalf)
    starters = exclusive_closure(ctx, UP, "HttpUpstreamProxy", ("HttpUpstreamProxy.start_handshake",))
    sites = []
    for mm in modules_mentioning(ctx, HOOK):
        for n in walk_in_order(mm.tree):
            if isinstance(n, ast.Call) and last_attr(n.func) == HOOK:
                sites.append((mm.rel, qual_of(n), n))
            elif isinstance(n, (ast.Name, ast.Attribute)) and last_attr(n) == HOOK and isinstance(getattr(n, "ctx", None), ast.Load):
                par = getattr(n, "_parent", None)
                if not (isinstance(par, ast.Call) and par.func is n) and not isinstance(par, ast.Attribute) and mm.rel not in (HK,) and not _benign_ref(n):
                    raise AnalysisError(f"{mm.rel}::{qual_of(n)}: {HOOK} is referenced without being called (aliased / passed on): not modelled")
    ctx.require(sites, f"{HOOK} is not constructed anywhere")
    for rel, q, n in sites:
        ok = rel == UP and q in starters
        ctx.check(ok, "R24.3", (rel, q, n), f"{HOOK} constructed in {q}",
                  "the hook that attaches upstream credentials fires outside the CONNECT handshake with the upstream proxy",
                  desc=f"{HOOK} constructed in {q}" + ("" if q == "HttpUpstreamProxy.start_handshake" else " (runs only on behalf of start_handshake)"))
    meth = hook_method_sem(ctx, HK, HOOK)
    ctx.require(m.has(UA, f"UpstreamAuth.{meth}"), f"UpstreamAuth does not implement {meth} (hook name of {HOOK})")
    ctx.require(hook_method_sem(ctx, HK, "HttpRequestHeadersHook") == "requestheaders", "HttpRequestHeadersHook no longer dispatches to `requestheaders`")

    # (b) + (c): the layer built by make() and its handshake, interpreted
    fn = ctx.func(UP, "HttpUpstreamProxy.start_handshake")
    mk = ctx.func(UP, "HttpUpstreamProxy.make")
    init = ctx.func(UP, "HttpUpstreamProxy.__init__")
    ctx.func(TUN, "TunnelLayer.__init__")
    where = (UP, "HttpUpstreamProxy.start_handshake", fn)
    world = UpstreamWorld(ctx)
    bad: dict = {}
    wiring_bad: dict = {}
    n_worlds = n_hook = n_send = 0
    dests = (("example.com", 443), ("192.0.2.7", 8443), ("2001:db8::1", 443))
    for scheme, proxy_addr in (("http", ("proxy.example", 3128)), ("https", ("secure-proxy.example", 8443))):
        for dest in dests:
            for send_connect in (True, False):
                for host_header in (True, False):
                    r = world.run(scheme, proxy_addr, dest, send_connect, host_header)
                    n_worlds += 1
                    ctx.paths += 1
                    tag = f"via={scheme}://{proxy_addr[0]}:{proxy_addr[1]} destination={dest[0]} send_connect={send_connect}"
                    # the upstream proxy's connection: the Server make() builds for the address in ctx.server.via (by identity, whatever
                    # the layer calls the attribute it keeps it in)
                    proxies = [x for x in r["made_servers"] if x.__dict__.get("address") == proxy_addr and x is not r["server"]]
                    if len(proxies) != 1:
                        raise AnalysisError(f"HttpUpstreamProxy.make builds {len(proxies)} Server connections for the address in ctx.server.via ({tag})")
                    proxy = proxies[0]
                    cmds = r["cmds"]
                    hooks = r["hooks"]
                    sends = []
                    for c in cmds:
                        if isinstance(c, Rec) and c.isa("SendData"):
                            pub = [v for k, v in c.__dict__.items() if not k.startswith("_")]
                            conns, datas = [v for v in pub if isinstance(v, Rec)], [v for v in pub if isinstance(v, (bytes, bytearray))]
                            if len(conns) != 1 or len(datas) != 1:
                                raise AnalysisError(f"start_handshake: SendData command without exactly one connection and one payload ({tag})")
                            sends.append((conns[0], bytes(datas[0])))
                    if not send_connect:
                        if hooks:
                            bad.setdefault(f"{HOOK} fires although send_connect is false", tag)
                        continue
                    if not hooks:
                        raise AnalysisError(f"start_handshake: no {HOOK} is yielded although send_connect is true ({tag})")
                    n_hook += len(hooks)
                    for h in hooks:
                        if not isinstance(h["request"], Rec):
                            bad.setdefault(f"{HOOK} fires before the CONNECT request is attached to the flow", tag)
                        elif h["method"] not in (b"CONNECT", "CONNECT"):
                            bad.setdefault("the flow handed to the hook does not carry the CONNECT request (request is a CONNECT request: no)", tag)
                    for conn, data in sends:
                        n_send += 1
                        if conn is not proxy:
                            name = "the destination connection (ctx.server)" if conn is r["server"] else "the client connection" if conn is r["client"] else getattr(conn, "_name", repr(conn))
                            (wiring_bad if conn is r["server"] and not r["wired"] else bad).setdefault(f"SendData to {name} on the CONNECT handshake path", tag)
                    if not any(conn is proxy and CRED in data for conn, data in sends) and not any(k.startswith("SendData to") for k in list(bad) + list(wiring_bad)):
                        raise AnalysisError(f"start_handshake: the bytes sent to the upstream proxy do not carry the header the hook attached ({tag}); order of hook / assembly not modelled")
    for msg, tag in sorted(bad.items()):
        ctx.fail("R24.3", where, msg, "the CONNECT carrying the upstream credentials can reach a connection other than the upstream proxy, or fires when no CONNECT is sent", world=tag)
    if not bad:
        ctx.ok("R24.3", f"start_handshake interpreted in {n_worlds} worlds: {n_hook} hooks, all under send_connect, each with the flow whose request is the CONNECT")
        ctx.ok("R24.3", f"every SendData of the handshake ({n_send}) targets the upstream proxy's connection and the assembled CONNECT carries the header the hook attached")
    for msg, tag in sorted(wiring_bad.items()):
        ctx.fail("R24.3", (UP, "HttpUpstreamProxy.make", mk), msg, "the CONNECT with the credentials is sent to a connection that is not the configured upstream proxy", world=tag)
    if not wiring_bad:
        ctx.ok("R24.3", "make()/__init__ interpreted: the connection the handshake talks to is the Server built for ctx.server.via[1], distinct from the destination connection")
    ctx.ok("R24.3", f"UpstreamAuth.{meth} is the method {HOOK} dispatches to")


def _benign_ref(n) -> bool:
    p, c = getattr(n, "_parent", None), n
    while p is not None:
        if isinstance(p, ast.Call) and isinstance(p.func, ast.Name) and p.func.id in ("isinstance", "issubclass") and c is not p.func:
            return True  # a type test does not construct the hook
        if isinstance(p, ast.MatchClass) and p.cls is c:
            return True
        if isinstance(p, (ast.AnnAssign,)) and p.annotation is c:
            return True
        if isinstance(p, ast.arg) and p.annotation is c:
            return True
        if isinstance(p, (ast.FunctionDef, ast.AsyncFunctionDef)):
            return p.returns is c
        if isinstance(p, (ast.Import, ast.ImportFrom)):
            return True
        p, c = getattr(p, "_parent", None), p
    return False


def r24_5(ctx):
    """Decision of both hook methods extracted by interpreting their AST (pyint) - robust against refactors such as table dispatch."""
    import itertools

    hi = HookInterp(ctx)
    modes = mode_classes(ctx)
    AUTH = CRED
    n = 0
    bad = 0
    # Where a request goes is decided by the HTTP layer from (proxy mode, request.scheme) alone (GetHttpConnection.tls = request.scheme == "https",
    # C08 R08.3; CONNECT to the proxy iff tls or mode != upstream).  Everything else a hook can see on the flow is NOT a function of that pair at
    # hook time and is therefore an independent input of the table: the flow's server connection is the context's current one (for a top-level
    # request the unconnected placeholder: tls False, whatever the scheme), the client may or may not speak TLS to the proxy listener, and any
    # port goes with any scheme.  The reference outcome depends on (auth, mode, scheme) only, so a decision that keys on one of the
    # secondary attributes is caught in the world where that attribute disagrees with the scheme.
    secondary = list(itertools.product((None, False, True), (None, False, True), (None, False, True)))
    secondary.sort(key=lambda t: sum(x is not None for x in t))  # the world where everything follows the scheme first
    for meth in ("requestheaders", "http_connect_upstream"):
        fn = ctx.func(UA, f"UpstreamAuth.{meth}")
        for auth in (AUTH, None):
            for mode in modes if meth == "requestheaders" else ["UpstreamMode"]:
                for scheme in ("http", "https"):
                    if meth == "http_connect_upstream":
                        want = {"proxy-authorization": AUTH} if auth else {}
                    elif auth and mode == "UpstreamMode" and scheme == "http":
                        want = {"proxy-authorization": AUTH}
                    elif auth and mode == "ReverseMode":
                        want = {"authorization": AUTH}
                    else:
                        want = {}
                    failed = None
                    for server_tls, client_tls, std_port in secondary:
                        https = scheme == "https"
                        s_tls = https if server_tls is None else server_tls
                        c_tls = https if client_tls is None else client_tls
                        port = (443 if https else 80) if std_port is None else ((443 if https else 80) if std_port else (8080 if https else 443))
                        if (server_tls, client_tls, std_port) != (None, None, None) and (s_tls, c_tls, port) == (https, https, 443 if https else 80):
                            continue
                        outcome, world = hi.run(meth, auth, mode, scheme, server_tls, client_tls, std_port)
                        n += 1
                        ctx.cells += 1
                        if outcome != want and failed is None:
                            failed = (outcome, world)
                            break
                    if failed is not None:
                        bad += 1
                        outcome, world = failed
                        got_txt = outcome if isinstance(outcome, str) else sorted(outcome)
                        ctx.fail("R24.5", (UA, f"UpstreamAuth.{meth}", fn), f"{meth}: mode={mode} scheme={scheme} auth={'set' if auth else 'unset'} -> {got_txt}, expected {sorted(want)}{world}",
                                 "upstream credentials are attached to a request that does not go to the upstream proxy / reverse target (or withheld where they belong)"
                                 + ("; the decision follows an attribute of the flow that does not determine where the request is sent (only proxy mode and request.scheme do)" if world else ""))
    if not bad:
        ctx.ok("R24.5", f"{n} cells (auth x mode x scheme x independent server_conn.tls / client_conn.tls / port, both hook methods) interpreted from the AST agree with the reference")


def r24_tables(ctx):
    modes = mode_classes(ctx)
    for need in ("UpstreamMode", "ReverseMode", "RegularMode"):
        ctx.require(need in modes, f"mode_specs.{need} vanished")
    rh = ctx.func(UA, "UpstreamAuth.requestheaders")
    cells = []
    for auth in (True, False):
        for mode in modes:
            for scheme in ("http", "https"):
                for tun in ((False, True) if mode == "UpstreamMode" else (False,)):
                    cells.append({"auth": auth, "mode": mode, "scheme": scheme, "tunnelled": tun})
    bad = eval_table(ctx, rh, "UpstreamAuth.requestheaders", cells, expected_requestheaders)
    n_t = sum(1 for c in cells if c["tunnelled"])
    if not bad["R24.2"]:
        ctx.ok("R24.2", f"requestheaders: {len(cells) - n_t} cells (auth x {len(modes)} modes x scheme, not tunnelled) agree")
    if not bad["R24.4"]:
        ctx.ok("R24.4", f"requestheaders: {n_t} tunnelled cells write nothing")
    hc = ctx.func(UA, "UpstreamAuth.http_connect_upstream")
    cells2 = [{"auth": a, "mode": "UpstreamMode", "scheme": "", "tunnelled": False} for a in (True, False)]
    bad2 = eval_table(ctx, hc, "UpstreamAuth.http_connect_upstream", cells2, lambda c: {"proxy-authorization"} if c["auth"] else set())
    if not bad2["R24.2"]:
        ctx.ok("R24.2", "http_connect_upstream: 2 cells agree (Proxy-Authorization iff auth)")
    ctx.expect_instances("R24.2", 1)
    ctx.assume("tunnelled=yes: plain-HTTP request received inside a client CONNECT tunnel in upstream mode; it is relayed through the tunnel to the origin")



def check(ctx):
    ctx.rule("R24.5", "both hook methods, interpreted from their AST on every (auth, mode, scheme) cell, write exactly the reference headers with the configured value")
    ctx.rule("R24.1", "UpstreamAuth.auth is read only in requestheaders / http_connect_upstream; class, option and parser are referenced nowhere else")
    ctx.rule("R24.2", "decision table of the two hook methods: Proxy-Authorization iff (Upstream, http, not tunnelled) or CONNECT-to-proxy; Authorization iff Reverse")
    ctx.rule("R24.4", "requests received inside a client CONNECT tunnel (upstream mode) never get Proxy-Authorization: they are relayed to the origin (F-C24)")
    ctx.rule("R24.3", "HttpConnectUpstreamHook only in start_handshake under send_connect, flow request is the CONNECT, bytes go to tunnel_connection = Server(via)")
    ctx.trust("addon manager dispatches a hook to the addon method named after it; http1.assemble_request serialises exactly the request given")
    ctx.guard(r24_1, ctx)
    ctx.guard(r24_5, ctx)
    ctx.guard(r24_tables, ctx)

    ctx.guard(r24_3, ctx)
    ctx.expect_instances("R24.3", 5)


MUTANTS = [
    Mutant("table-dispatch-loses-scheme", UA, """            if (
                isinstance(f.client_conn.proxy_mode, mode_specs.UpstreamMode)
                and f.request.scheme == "http"
            ):
                f.request.headers["Proxy-Authorization"] = self.auth
            elif isinstance(f.client_conn.proxy_mode, mode_specs.ReverseMode):
                f.request.headers["Authorization"] = self.auth
""", """            header = {mode_specs.UpstreamMode: "Proxy-Authorization", mode_specs.ReverseMode: "Authorization"}.get(type(f.client_conn.proxy_mode))
            if header:
                f.request.headers[header] = self.auth
""", "R24.5"),
    Mutant("scheme-read-from-server-connection", UA, "                and f.request.scheme == \"http\"\n", "                and not f.server_conn.tls\n", "R24.5"),
    Mutant("scheme-read-from-client-tls", UA, "                and f.request.scheme == \"http\"\n", "                and not f.client_conn.tls_established\n", "R24.5"),
    Mutant("scheme-guessed-from-port", UA, "                and f.request.scheme == \"http\"\n", "                and f.request.port != 443\n", "R24.5"),
    Mutant("header-value-not-configured-auth", UA, '                f.request.headers["Authorization"] = self.auth', '                f.request.headers["Authorization"] = b"Basic Og=="', "R24.5"),
    Mutant("auth-read-in-new-hook", UA, "    def requestheaders(self, f: http.HTTPFlow):\n",
           "    def request(self, f: http.HTTPFlow):\n        if self.auth:\n            f.request.headers[\"Proxy-Authorization\"] = self.auth\n\n    def requestheaders(self, f: http.HTTPFlow):\n", "R24.1"),
    Mutant("private-helper-reused-by-another-hook", UA, "    def requestheaders(self, f: http.HTTPFlow):\n",
           "    def _creds(self):\n        return self.auth\n\n    def response(self, f):\n        f.response.headers[\"X-Upstream-Auth\"] = self._creds()\n\n    def requestheaders(self, f: http.HTTPFlow):\n", "R24.1"),
    Mutant("creds-exported-elsewhere", "mitmproxy/addons/proxyauth.py", "from mitmproxy import ctx\n", "from mitmproxy import ctx\nfrom mitmproxy.addons.upstream_auth import parse_upstream_auth\n", "R24.1"),
    Mutant("scheme-check-dropped", UA, "                and f.request.scheme == \"http\"\n", "", "R24.2"),
    Mutant("tunnelled-https-gets-header-too", UA, "                and f.request.scheme == \"http\"\n", "", "R24.4"),
    Mutant("reverse-branch-becomes-else", UA, "            elif isinstance(f.client_conn.proxy_mode, mode_specs.ReverseMode):\n", "            else:\n", "R24.2"),
    Mutant("reverse-gets-proxy-header", UA, "                f.request.headers[\"Authorization\"] = self.auth", "                f.request.headers[\"Proxy-Authorization\"] = self.auth", "R24.2"),
    Mutant("upstream-check-is-regular", UA, "isinstance(f.client_conn.proxy_mode, mode_specs.UpstreamMode)", "isinstance(f.client_conn.proxy_mode, (mode_specs.UpstreamMode, mode_specs.RegularMode))", "R24.2"),
    Mutant("connect-hook-writes-authorization", UA, "        if self.auth:\n            f.request.headers[\"Proxy-Authorization\"] = self.auth\n\n",
           "        if self.auth:\n            f.request.headers[\"Authorization\"] = self.auth\n\n", "R24.2"),
    Mutant("connect-sent-to-inner-conn", UP, "yield commands.SendData(self.tunnel_connection, raw)", "yield commands.SendData(self.conn, raw)", "R24.3"),
    Mutant("send-connect-guard-dropped", UP, "        if not self.send_connect:\n            return (yield from super().start_handshake())\n        assert self.conn.address\n", "        assert self.conn.address\n", "R24.3"),
    Mutant("make-passes-destination-conn", UP, "stack /= cls(ctx, http_proxy, send_connect)", "stack /= cls(ctx, ctx.server, send_connect)", "R24.3"),
    Mutant("init-swaps-connections", UP, "tunnel_connection=tunnel_conn, conn=ctx.server", "tunnel_connection=ctx.server, conn=tunnel_conn", "R24.3"),
    Mutant("hook-also-on-handshake-data", UP, "        self.buf += data\n        response_head = ", "        yield HttpConnectUpstreamHook(http.HTTPFlow(self.context.client, self.conn))\n        self.buf += data\n        response_head = ", "R24.3"),
    Mutant("hook-helper-reused-on-handshake-data", UP, """        yield HttpConnectUpstreamHook(flow)
        raw = http1.assemble_request(flow.request)
        yield commands.SendData(self.tunnel_connection, raw)

    def receive_handshake_data(
        self, data: bytes
    ) -> layer.CommandGenerator[tuple[bool, str | None]]:
        if not self.send_connect:
            return (yield from super().receive_handshake_data(data))
""", """        yield from self._announce(flow)
        raw = http1.assemble_request(flow.request)
        yield commands.SendData(self.tunnel_connection, raw)

    def _announce(self, flow):
        yield HttpConnectUpstreamHook(flow)

    def receive_handshake_data(
        self, data: bytes
    ) -> layer.CommandGenerator[tuple[bool, str | None]]:
        if not self.send_connect:
            return (yield from super().receive_handshake_data(data))
        yield from self._announce(http.HTTPFlow(self.context.client, self.conn))
""", "R24.3"),
    Mutant("request-not-connect", UP, "            method=b\"CONNECT\",\n", "            method=b\"GET\",\n", "R24.3"),
]
