"""C24 - upstream credentials are only sent to the upstream proxy / reverse target.

Decided:
  R24.1 who-may-use: ``UpstreamAuth.auth`` is read only inside ``requestheaders`` and ``http_connect_upstream``; the class,
        the ``upstream_auth`` option value and ``parse_upstream_auth`` are referenced nowhere else in the package (the
        addon instance is only created in ``default_addons``), so no other code can obtain the credentials.
  R24.2 decision table by abstract evaluation of both hook methods over auth {unset, set} x every ProxyMode subclass x
        scheme {http, https}:  ``requestheaders`` writes ``Proxy-Authorization`` iff auth and UpstreamMode and http;
        ``Authorization`` iff auth and ReverseMode; nothing else; ``http_connect_upstream`` writes exactly
        ``Proxy-Authorization`` iff auth.  The value written is ``self.auth``, the target is the flow's request headers.
  R24.4 the same table with the third input *tunnelled* (UpstreamMode only): a request received inside a client CONNECT
        tunnel is relayed through the tunnel to the origin, so nothing may be written for it.  Reported under its own
        rule id because it fires on today's tree (F-C24, known finding): a standing R24.2 finding would make every R24.2
        self-test mutant vacuously "caught".
  R24.5 the same decision extracted by *interpreting* both hook methods (pyint), with the attributes of the flow that do not determine
        where the request is sent as INDEPENDENT inputs: the HTTP layer routes by (proxy mode, request.scheme) alone
        (GetHttpConnection.tls = request.scheme == "https"; CONNECT to the proxy iff tls or mode != upstream), while at hook time
        ``flow.server_conn`` is the context's current - for a top-level request still unconnected - server (tls False whatever the
        scheme), the client may or may not speak TLS to the listener and any port goes with any scheme.  Every (auth, mode, scheme) cell
        is therefore evaluated in the worlds server_conn.tls x client_conn.tls x port that agree / disagree with the scheme; the
        reference outcome depends on (auth, mode, scheme) only.  A decision keyed on a stand-in for the scheme is *analysed* and
        reported here; R24.2's strict path table still refuses flow attributes it does not model (exit 2 unless another rule fires).
  R24.3 ``HttpConnectUpstreamHook`` is constructed only in ``HttpUpstreamProxy.start_handshake``, only on paths where
        ``self.send_connect`` is true, with the flow whose request is the CONNECT built there; the bytes assembled from
        that request go to ``self.tunnel_connection`` and nothing is sent to another connection on those paths; the
        tunnel connection is the ``Server`` built from ``ctx.server.via`` (``make`` / ``__init__`` wiring).
NOT decided: what an addon that re-targets ``server_conn.via`` causes; the bytes on the wire (HTTP/1 assembly is trusted); that the HTTP
layer really sends a request only on a connection matching its scheme (connection reuse: C08 R08.1/R08.2 - a relaxed
``connection_spec_matches`` that lets a plain request ride an existing CONNECT+TLS tunnel is a C08 violation and invisible here).

`tunnelled` is an input the property needs (a plain-HTTP request sent through a client CONNECT tunnel in upstream mode is
relayed to the origin, see /verif/findings/F-C24).  The accepted ways for the addon to observe it are listed in
``TUNNEL_OBSERVERS``; a decision that reads any other flow attribute is an unmodelled shape (ANALYSIS-ERROR).
"""

from __future__ import annotations

import ast

from ..core import AnalysisError
from ..core import norm
from ..model import attr_chain
from ..model import last_attr
from ..model import qual_of
from ..model import walk_in_order
from ..paths import C
from ..paths import GenericSpec
from ..paths import is_const
from ..paths import traces_of
from ..selftest import Mutant
from ._helpers_C import class_isa
from ._helpers_C import default_addon_order
from ._helpers_C import hook_method
from ._helpers_C import is_obj
from ._helpers_C import isinstance_targets
from ._helpers_C import mode_classes
from ._helpers_C import MODE_SPECS
from ._helpers_C import modules_mentioning
from ._helpers_C import OBJ
from ._helpers_C import run_cell
from ._helpers_C import StrictSpec

PROP = "C24"
REG = {
    "strength": "strong",
    "technique": "who-may-use scan (package wide) + decision-table extraction by abstract evaluation of UpstreamAuth's hook methods "
    "+ CFG path enumeration of HttpUpstreamProxy.start_handshake (hook guard, send target) + constructor wiring dataflow",
    "claim": "UpstreamAuth.auth is read only by the two hook methods; over all (auth, proxy mode class, scheme, tunnelled) cells they "
    "write Proxy-Authorization exactly for non-tunnelled plain-HTTP requests in upstream mode and for the CONNECT sent to the "
    "upstream proxy, Authorization exactly in reverse mode; the CONNECT carrying the header is sent to the tunnel (proxy) connection only.",
    "note": "HTTP/1 assembly and the addon manager's hook dispatch are trusted; addons re-targeting server_conn.via are out of scope.",
}

UA = "mitmproxy/addons/upstream_auth.py"
UP = "mitmproxy/proxy/layers/http/_upstream_proxy.py"
HK = "mitmproxy/proxy/layers/http/_hooks.py"
TUN = "mitmproxy/proxy/tunnel.py"
READERS = ("UpstreamAuth.requestheaders", "UpstreamAuth.http_connect_upstream")

# accepted idioms by which requestheaders may observe "this request is inside a CONNECT tunnel":
#   normalised expression text (flow parameter spelled `f`) -> value when tunnelled / when not tunnelled
TUNNEL_OBSERVERS: dict[str, tuple] = {}


class AuthSpec(StrictSpec):
    def __init__(self, model, flow_param: str, cell: dict):
        super().__init__()
        self.model = model
        self.f = flow_param
        self.cell = cell

    def atom(self, expr, st, depth):
        ch = attr_chain(expr)
        if ch == "self.auth":
            return OBJ("auth") if self.cell["auth"] else C(None)
        if ch == f"{self.f}.client_conn.proxy_mode":
            return OBJ("mode", self.cell["mode"])
        if ch == f"{self.f}.request.scheme":
            return C(self.cell["scheme"])
        if ch == f"{self.f}.request.headers":
            return OBJ("reqheaders")
        if ch in (self.f, f"{self.f}.request", f"{self.f}.client_conn"):
            return OBJ(ch[len(self.f):] or "flow")
        if ch.startswith(self.f + "."):
            key = "f." + ch[len(self.f) + 1 :]
            if key in TUNNEL_OBSERVERS:
                return TUNNEL_OBSERVERS[key][0 if self.cell["tunnelled"] else 1]
            raise AnalysisError(f"UpstreamAuth: the decision reads an unmodelled flow attribute {norm(expr)}")
        return None

    def decide_isinstance(self, cond, st, depth):
        v = self.value(cond.args[0], st, depth)
        if is_obj(v, "mode"):
            return any(class_isa(self.model, MODE_SPECS, v[2], n) for n in isinstance_targets(cond))
        return None

    def write_event(self, target, value, stmt, st, depth):
        if isinstance(target, ast.Subscript) and is_obj(self.value(target.value, st, depth), "reqheaders"):
            k = self.value(target.slice, st, depth)
            if not (is_const(k) and isinstance(k[1], (str, bytes))):
                raise AnalysisError(f"UpstreamAuth: header name is not a literal in {norm(stmt)}")
            name = k[1].decode() if isinstance(k[1], bytes) else k[1]
            if not (is_obj(value, "auth") or value == C(None)):
                raise AnalysisError(f"UpstreamAuth: header value is not self.auth in {norm(stmt)}")
            return ("hdr", name.lower())
        raise AnalysisError(f"UpstreamAuth: unmodelled write {norm(stmt)}")


def expected_requestheaders(cell) -> set:
    if not cell["auth"]:
        return set()
    if cell["mode"] == "UpstreamMode" and cell["scheme"] == "http" and not cell["tunnelled"]:
        return {"proxy-authorization"}
    if cell["mode"] == "ReverseMode":
        return {"authorization"}
    return set()


PRETTY = {"proxy-authorization": "Proxy-Authorization", "authorization": "Authorization"}


def eval_table(ctx, fn, qual, cells, expected):
    params = [a.arg for a in fn.args.args]
    ctx.require(len(params) == 2 and params[0] == "self", f"{qual}: unexpected signature {params}")
    f = params[1]
    StrictSpec().vet(fn)
    bad = {"R24.2": 0, "R24.4": 0}
    for cell in cells:
        rule = "R24.4" if cell["tunnelled"] else "R24.2"
        spec = AuthSpec(ctx.model, f, cell)
        how, st = run_cell(spec, fn, {f: OBJ("flow")})
        ctx.cells += 1
        short = f"mode={cell['mode']} scheme={cell['scheme']} tunnelled={cell['tunnelled']}" + ("" if cell["auth"] else " auth=None")
        if how != "return":
            bad[rule] += 1
            ctx.fail(rule, (UA, qual, fn), f"{how} for {short}", "the hook raises instead of deciding", cell=cell)
            continue
        got = {e[1] for e in st.trace if e[0] == "hdr"}
        exp = expected(cell)
        for h in sorted(got - exp):
            bad[rule] += 1
            ctx.fail(rule, (UA, qual, fn), f"{PRETTY.get(h, h)} written for {short}",
                     "upstream credentials are attached to a request that is not sent to the upstream proxy / reverse target", cell=cell)
        for h in sorted(exp - got):
            bad[rule] += 1
            ctx.fail(rule, (UA, qual, fn), f"{PRETTY.get(h, h)} not written for {short}",
                     "the configured credentials are not sent where the property says they are", cell=cell)
        if len(ctx.samples) < 4 and got:
            ctx.sample({"function": qual, "cell": cell, "writes": sorted(got)})
    return bad


def r24_1(ctx):
    m = ctx.model
    mod = m.module(UA)
    m.cls(UA, "UpstreamAuth")
    reads = [n for n in walk_in_order(mod.tree) if isinstance(n, ast.Attribute) and n.attr == "auth" and isinstance(n.ctx, ast.Load)]
    for n in reads:
        q = qual_of(n)
        ctx.check(q in READERS, "R24.1", (UA, q, n), f".auth read in {q}", "the credentials are read outside the two hook methods that may attach them",
                  desc=f"{norm(n)} read in {q} (line-independent)")
    ctx.expect_instances("R24.1", 5)
    # nothing else in the package can get hold of the credentials
    n_ref = 0
    for mm in modules_mentioning(ctx, "UpstreamAuth", "upstream_auth", "upstreamauth"):
        for n in walk_in_order(mm.tree):
            if mm.rel == UA:
                if isinstance(n, ast.Name) and n.id == "parse_upstream_auth" and qual_of(n) != "UpstreamAuth.configure":
                    ctx.fail("R24.1", (UA, qual_of(n), n), "parse_upstream_auth referenced outside configure", "the encoded credentials are produced outside UpstreamAuth.configure")
                if isinstance(n, ast.Attribute) and n.attr == "upstream_auth" and qual_of(n) != "UpstreamAuth.configure":
                    ctx.fail("R24.1", (UA, qual_of(n), n), "options.upstream_auth read outside configure", "the configured credentials are read outside UpstreamAuth.configure")
                continue
            ident = None
            if isinstance(n, ast.Attribute) and n.attr in ("UpstreamAuth", "parse_upstream_auth", "upstream_auth"):
                ident = n
            elif isinstance(n, ast.Name) and n.id in ("UpstreamAuth", "parse_upstream_auth"):
                ident = n
            elif isinstance(n, ast.Constant) and isinstance(n.value, str) and n.value.lower() == "upstreamauth":
                ident = n
            elif isinstance(n, ast.alias) and n.name in ("UpstreamAuth", "parse_upstream_auth"):
                ident = n
            if ident is None:
                continue
            n_ref += 1
            par = getattr(ident, "_parent", None)
            ok = (
                mm.rel == "mitmproxy/addons/__init__.py"
                and isinstance(ident, ast.Attribute)
                and ident.attr == "UpstreamAuth"
                and isinstance(par, ast.Call)
                and par.func is ident
                and qual_of(ident) == "default_addons"
            )
            ctx.check(ok, "R24.1", (mm.rel, qual_of(ident), ident), f"{norm(ident)} referenced in {mm.rel}",
                      "code outside the addon can reach the UpstreamAuth credentials", desc=f"{norm(par) if ok else norm(ident)} in default_addons")
    ctx.require(n_ref >= 1, "UpstreamAuth is not instantiated anywhere in the package")
    ctx.require("UpstreamAuth" in default_addon_order(ctx), "UpstreamAuth() vanished from default_addons")


class HandshakeSpec(GenericSpec):
    def __init__(self):
        super().__init__(keep=lambda ev: ev[0] in ("yield", "yield_from", "send") or (ev[0] == "assign" and ev[1].endswith(".request")), record_conds=True)

    def events(self, node, st):
        out = []
        for ev in GenericSpec.events(self, node, st):
            out.append(ev)
        for n in ast.walk(node) if not isinstance(node, (ast.If, ast.While, ast.For, ast.Try, ast.With)) else []:
            if isinstance(n, ast.Yield) and isinstance(n.value, ast.Call) and last_attr(n.value.func) == "SendData":
                a = n.value.args
                if len(a) != 2:
                    raise AnalysisError(f"start_handshake: unmodelled SendData call {norm(n)}")
                out.append(("send", attr_chain(a[0]) or norm(a[0]), norm(a[1])))
        return out

    def cond_event(self, expr, value, st):
        if attr_chain(expr) == "self.send_connect":
            return ("send_connect", value)
        if "send_connect" in ast.unparse(expr):
            raise AnalysisError(f"start_handshake: unmodelled test of send_connect: {norm(expr)}")
        return None


def single_assignment(fn, name: str):
    vals = []
    for n in walk_in_order(fn):
        if isinstance(n, ast.Assign):
            for t in n.targets:
                if isinstance(t, ast.Name) and t.id == name:
                    vals.append(n.value)
                elif isinstance(t, (ast.Tuple, ast.List)) and any(isinstance(e, ast.Name) and e.id == name for e in t.elts):
                    vals.append(n)
        elif isinstance(n, (ast.AnnAssign, ast.AugAssign)) and isinstance(n.target, ast.Name) and n.target.id == name:
            vals.append(n)
        elif isinstance(n, ast.NamedExpr) and n.target.id == name:
            vals.append(n)
    if len(vals) != 1:
        raise AnalysisError(f"{fn.name}: `{name}` is assigned {len(vals)} times (the rule models exactly one assignment)")
    return vals[0]


def r24_3(ctx):
    m = ctx.model
    # (a) the hook is constructed at exactly one place
    sites = []
    for mm in modules_mentioning(ctx, "HttpConnectUpstreamHook"):
        for n in walk_in_order(mm.tree):
            if isinstance(n, ast.Call) and last_attr(n.func) == "HttpConnectUpstreamHook":
                sites.append((mm.rel, qual_of(n), n))
    ctx.require(sites, "HttpConnectUpstreamHook is not constructed anywhere")
    for rel, q, n in sites:
        ctx.check((rel, q) == (UP, "HttpUpstreamProxy.start_handshake"), "R24.3", (rel, q, n), f"HttpConnectUpstreamHook constructed in {q}",
                  "the hook that attaches upstream credentials fires outside the CONNECT handshake with the upstream proxy",
                  desc="HttpConnectUpstreamHook constructed in HttpUpstreamProxy.start_handshake")
    meth = hook_method(ctx, HK, "HttpConnectUpstreamHook")
    ctx.require(m.has(UA, f"UpstreamAuth.{meth}"), f"UpstreamAuth does not implement {meth} (hook name of HttpConnectUpstreamHook)")
    ctx.require(hook_method(ctx, HK, "HttpRequestHeadersHook") == "requestheaders", "HttpRequestHeadersHook no longer dispatches to `requestheaders`")

    # (b) paths of start_handshake
    fn = ctx.func(UP, "HttpUpstreamProxy.start_handshake")
    where = (UP, "HttpUpstreamProxy.start_handshake", fn)
    hooks = [n for n in walk_in_order(fn) if isinstance(n, ast.Call) and last_attr(n.func) == "HttpConnectUpstreamHook"]
    if len(hooks) != 1:
        if not hooks:
            raise AnalysisError("start_handshake no longer yields HttpConnectUpstreamHook")
        raise AnalysisError("start_handshake constructs HttpConnectUpstreamHook more than once (not modelled)")
    hook = hooks[0]
    ctx.require(len(hook.args) == 1 and isinstance(hook.args[0], ast.Name), f"unmodelled hook argument {norm(hook)}")
    flowvar = hook.args[0].id
    fl = single_assignment(fn, flowvar)
    ctx.require(isinstance(fl, ast.Call) and last_attr(fl.func) == "HTTPFlow", f"start_handshake: `{flowvar}` is not a fresh HTTPFlow: {norm(fl)}")
    # the request attached to the flow is the CONNECT
    reqs = [n for n in walk_in_order(fn) if isinstance(n, ast.Assign) and any(attr_chain(t) == f"{flowvar}.request" for t in n.targets)]
    ctx.require(len(reqs) == 1, f"start_handshake assigns {flowvar}.request {len(reqs)} times")
    rv = reqs[0].value
    ctx.require(isinstance(rv, ast.Call) and attr_chain(rv.func).split(".")[-1] in ("Request", "make"), f"unmodelled request construction {norm(rv)}")
    consts = [a for a in list(rv.args) + [k.value for k in rv.keywords] if isinstance(a, ast.Constant)]
    is_connect = any(c.value in (b"CONNECT", "CONNECT") for c in consts)
    ctx.check(is_connect, "R24.3", where, f"{flowvar}.request is a CONNECT request", "the flow handed to http_connect_upstream is not the CONNECT sent to the upstream proxy",
              desc=f"{flowvar}.request = Request(method=CONNECT)")
    traces, eng = traces_of(fn, HandshakeSpec())
    ctx.paths += len(traces)
    bad = {}
    n_hook = 0
    for tr, how, _ in traces:
        ih = next((i for i, e in enumerate(tr) if e == ("yield", "HttpConnectUpstreamHook")), -1)
        if ih < 0:
            continue
        n_hook += 1
        if not any(e == ("send_connect", True) for e in tr[:ih]):
            bad.setdefault("HttpConnectUpstreamHook fires on a path where self.send_connect is not known to be true", tr)
        if not any(e[0] == "assign" and e[1] == f"{flowvar}.request" for e in tr[:ih]):
            bad.setdefault("HttpConnectUpstreamHook fires before the CONNECT request is attached to the flow", tr)
        sends = [e for e in tr if e[0] == "send"]
        for e in sends:
            if e[1] != "self.tunnel_connection":
                bad.setdefault(f"SendData to {e[1]} on the CONNECT handshake path", tr)
        after = [e for e in tr[ih:] if e[0] == "send" and e[1] == "self.tunnel_connection"]
        for e in after:
            # the payload is assemble_request(<flow>.request)
            payload = ast.parse(e[2], mode="eval").body
            if isinstance(payload, ast.Name):
                payload = single_assignment(fn, payload.id)
            ok = isinstance(payload, ast.Call) and last_attr(payload.func) == "assemble_request" and len(payload.args) == 1 and attr_chain(payload.args[0]) == f"{flowvar}.request"
            if not ok:
                raise AnalysisError(f"start_handshake: payload of SendData is not assemble_request({flowvar}.request): {e[2]}")
    ctx.require(n_hook >= 1, "start_handshake: no path yields the hook (path enumeration broke)")
    for msg, tr in sorted(bad.items()):
        ctx.fail("R24.3", where, msg, "the CONNECT carrying the upstream credentials can reach a connection other than the upstream proxy, or fires when no CONNECT is sent",
                 trace=[list(e) for e in tr])
    if not bad:
        ctx.ok("R24.3", f"start_handshake: {n_hook} hook paths, all under send_connect, every SendData targets self.tunnel_connection")

    # (c) wiring: tunnel_connection is the Server built from ctx.server.via
    tl_init = ctx.func(TUN, "TunnelLayer.__init__")
    tparams = [a.arg for a in tl_init.args.args][1:]
    ctx.require(tparams[:3] == ["context", "tunnel_connection", "conn"], f"TunnelLayer.__init__ signature changed: {tparams}")
    sets = {attr_chain(s.targets[0]): attr_chain(s.value) for s in tl_init.body if isinstance(s, ast.Assign) and len(s.targets) == 1}
    ctx.require(sets.get("self.tunnel_connection") == "tunnel_connection" and sets.get("self.conn") == "conn", "TunnelLayer.__init__ no longer stores tunnel_connection / conn as given")
    init = ctx.func(UP, "HttpUpstreamProxy.__init__")
    iparams = [a.arg for a in init.args.args][1:]
    ctx.require(len(iparams) == 3, f"HttpUpstreamProxy.__init__ signature changed: {iparams}")
    sup = [c for c in walk_in_order(init) if isinstance(c, ast.Call) and norm(c.func) == "super().__init__"]
    ctx.require(len(sup) == 1, "HttpUpstreamProxy.__init__ no longer calls super().__init__ once")
    bound = dict(zip(tparams, sup[0].args))
    bound.update({k.arg: k.value for k in sup[0].keywords if k.arg})
    tc = bound.get("tunnel_connection")
    ctx.require(tc is not None, "HttpUpstreamProxy.__init__ does not pass tunnel_connection")
    ok = isinstance(tc, ast.Name) and tc.id == iparams[1]
    if not ok and not (attr_chain(tc).endswith(".server") or isinstance(tc, ast.Name)):
        raise AnalysisError(f"HttpUpstreamProxy.__init__: unmodelled tunnel_connection argument {norm(tc)}")
    ctx.check(ok, "R24.3", (UP, "HttpUpstreamProxy.__init__", init), f"tunnel_connection={norm(tc)}",
              "the tunnel (proxy) connection of HttpUpstreamProxy is not the connection handed in by make()", desc=f"__init__: tunnel_connection={norm(tc)}")
    mk = ctx.func(UP, "HttpUpstreamProxy.make")
    mparams = [a.arg for a in mk.args.args]
    calls = [c for c in walk_in_order(mk) if isinstance(c, ast.Call) and isinstance(c.func, ast.Name) and c.func.id in (mparams[0], "HttpUpstreamProxy")]
    ctx.require(len(calls) == 1 and len(calls[0].args) >= 2, "HttpUpstreamProxy.make no longer instantiates cls(ctx, proxy_conn, send_connect) once")
    arg = calls[0].args[1]
    ok = False
    if isinstance(arg, ast.Name):
        srv = single_assignment(mk, arg.id)
        if isinstance(srv, ast.Call) and last_attr(srv.func) == "Server":
            addr = {k.arg: k.value for k in srv.keywords}.get("address")
            if isinstance(addr, ast.Name):
                src = single_assignment(mk, addr.id)
                ok = (
                    isinstance(src, ast.Assign)
                    and isinstance(src.targets[0], ast.Tuple)
                    and len(src.targets[0].elts) == 2
                    and getattr(src.targets[0].elts[1], "id", None) == addr.id
                    and attr_chain(src.value) == f"{mparams[1]}.server.via"
                )
            elif addr is not None and norm(addr) == f"{mparams[1]}.server.via[1]":
                ok = True
        if not ok and not (isinstance(srv, ast.Call) and last_attr(srv.func) == "Server"):
            raise AnalysisError(f"HttpUpstreamProxy.make: unmodelled proxy connection {norm(srv)}")
    elif not attr_chain(arg).endswith(".server"):
        raise AnalysisError(f"HttpUpstreamProxy.make: unmodelled proxy connection argument {norm(arg)}")
    ctx.check(ok, "R24.3", (UP, "HttpUpstreamProxy.make", mk), f"proxy connection argument {norm(arg)}",
              "the tunnel connection is not a Server for the address in ctx.server.via (the upstream proxy)", desc=f"make: cls(ctx, {norm(arg)}=Server(address=via[1]), ...)")


def r24_5(ctx):
    """Decision of both hook methods extracted by interpreting their AST (pyint) - robust against refactors such as table dispatch."""
    from ..pyint import DictRec
    from ..pyint import Interp
    from ..pyint import Raised
    from ..pyint import Rec

    import itertools

    modes = mode_classes(ctx)
    AUTH = b"Basic dXNlcjpwYXNz"
    n = 0
    bad = 0
    # Where a request goes is decided by the HTTP layer from (proxy mode, request.scheme) alone (GetHttpConnection.tls = request.scheme == "https",
    # C08 R08.3; CONNECT to the proxy iff tls or mode != upstream).  Everything else a hook can see on the flow is NOT a function of that pair at
    # hook time and is therefore an independent input of the table: the flow's server connection is the context's current one (for a top-level
    # request the unconnected placeholder: tls False, whatever the scheme), the client may or may not speak TLS to the proxy listener, and any
    # port goes with any scheme.  The reference outcome depends on (auth, mode, scheme) only, so a decision that keys on one of the
    # secondary attributes is caught in the world where that attribute disagrees with the scheme.
    secondary = list(itertools.product((None, False, True), (None, False, True), (None, False, True)))
    secondary.sort(key=lambda t: sum(x is not None for x in t))  # the world where everything follows the scheme first
    for meth in ("requestheaders", "http_connect_upstream"):
        fn = ctx.func(UA, f"UpstreamAuth.{meth}")
        for auth in (AUTH, None):
            for mode in modes if meth == "requestheaders" else ["UpstreamMode"]:
                for scheme in ("http", "https"):
                    anc = [c.name for _, c in ctx.model.mro(MODE_SPECS, mode)]
                    if meth == "http_connect_upstream":
                        want = {"proxy-authorization": AUTH} if auth else {}
                    elif auth and mode == "UpstreamMode" and scheme == "http":
                        want = {"proxy-authorization": AUTH}
                    elif auth and mode == "ReverseMode":
                        want = {"authorization": AUTH}
                    else:
                        want = {}
                    failed = None
                    for server_tls, client_tls, std_port in secondary:
                        https = scheme == "https"
                        s_tls = https if server_tls is None else server_tls
                        c_tls = https if client_tls is None else client_tls
                        port = (443 if https else 80) if std_port is None else ((443 if https else 80) if std_port else (8080 if https else 443))
                        if (server_tls, client_tls, std_port) != (None, None, None) and (s_tls, c_tls, port) == (https, https, 443 if https else 80):
                            continue
                        it = Interp(ctx.model, trusted_modules={"base64": __import__("base64"), "re": __import__("re")})
                        headers = DictRec("Headers", {"Host": "example.com", "Accept": "*/*"}, case_insensitive=True, _name="request.headers")
                        req = Rec("Request", _name="request", scheme=scheme, headers=headers, method="CONNECT" if meth == "http_connect_upstream" else "GET", host="example.com", port=port,
                                  authority="example.com", path="/", http_version="HTTP/1.1", is_http2=False, is_http3=False, is_http11=True, is_http10=False, first_line_format="absolute")
                        mode_rec = Rec(mode, _bases=tuple(anc[1:]), _impl=(MODE_SPECS, mode), scheme="http", transport_protocol="tcp", full_spec=mode, type_name=mode)
                        flow = Rec("HTTPFlow", _name="flow", request=req, response=None, client_conn=Rec("Client", proxy_mode=mode_rec, tls=c_tls, tls_established=c_tls),
                                   server_conn=Rec("Server", via=None, address=("example.com", port), tls=s_tls, tls_established=False, connected=False, timestamp_start=None, peername=None),
                                   metadata=DictRec("dict", {}, _name="flow.metadata"), is_replay=None, live=True)
                        self_rec = Rec("UpstreamAuth", _impl=(UA, "UpstreamAuth"), auth=auth)
                        try:
                            it.method(self_rec, meth, flow)
                            outcome = {k.lower(): v for k, v in headers._items.items() if k.lower() in ("proxy-authorization", "authorization")}
                        except Raised as r:
                            outcome = f"raises {r.name}"
                        n += 1
                        ctx.cells += 1
                        if outcome != want and failed is None:
                            failed = (outcome, "" if (server_tls, client_tls, std_port) == (None, None, None) else f" [flow.server_conn.tls={s_tls} flow.client_conn.tls={c_tls} request.port={port}]")
                            break
                    if failed is not None:
                        bad += 1
                        outcome, world = failed
                        got_txt = outcome if isinstance(outcome, str) else sorted(outcome)
                        ctx.fail("R24.5", (UA, f"UpstreamAuth.{meth}", fn), f"{meth}: mode={mode} scheme={scheme} auth={'set' if auth else 'unset'} -> {got_txt}, expected {sorted(want)}{world}",
                                 "upstream credentials are attached to a request that does not go to the upstream proxy / reverse target (or withheld where they belong)"
                                 + ("; the decision follows an attribute of the flow that does not determine where the request is sent (only proxy mode and request.scheme do)" if world else ""))
    if not bad:
        ctx.ok("R24.5", f"{n} cells (auth x mode x scheme x independent server_conn.tls / client_conn.tls / port, both hook methods) interpreted from the AST agree with the reference")


def r24_tables(ctx):
    modes = mode_classes(ctx)
    for need in ("UpstreamMode", "ReverseMode", "RegularMode"):
        ctx.require(need in modes, f"mode_specs.{need} vanished")
    rh = ctx.func(UA, "UpstreamAuth.requestheaders")
    cells = []
    for auth in (True, False):
        for mode in modes:
            for scheme in ("http", "https"):
                for tun in ((False, True) if mode == "UpstreamMode" else (False,)):
                    cells.append({"auth": auth, "mode": mode, "scheme": scheme, "tunnelled": tun})
    bad = eval_table(ctx, rh, "UpstreamAuth.requestheaders", cells, expected_requestheaders)
    n_t = sum(1 for c in cells if c["tunnelled"])
    if not bad["R24.2"]:
        ctx.ok("R24.2", f"requestheaders: {len(cells) - n_t} cells (auth x {len(modes)} modes x scheme, not tunnelled) agree")
    if not bad["R24.4"]:
        ctx.ok("R24.4", f"requestheaders: {n_t} tunnelled cells write nothing")
    hc = ctx.func(UA, "UpstreamAuth.http_connect_upstream")
    cells2 = [{"auth": a, "mode": "UpstreamMode", "scheme": "", "tunnelled": False} for a in (True, False)]
    bad2 = eval_table(ctx, hc, "UpstreamAuth.http_connect_upstream", cells2, lambda c: {"proxy-authorization"} if c["auth"] else set())
    if not bad2["R24.2"]:
        ctx.ok("R24.2", "http_connect_upstream: 2 cells agree (Proxy-Authorization iff auth)")
    ctx.expect_instances("R24.2", 1)
    ctx.assume("tunnelled=yes: plain-HTTP request received inside a client CONNECT tunnel in upstream mode; it is relayed through the tunnel to the origin")



def check(ctx):
    ctx.rule("R24.5", "both hook methods, interpreted from their AST on every (auth, mode, scheme) cell, write exactly the reference headers with the configured value")
    ctx.rule("R24.1", "UpstreamAuth.auth is read only in requestheaders / http_connect_upstream; class, option and parser are referenced nowhere else")
    ctx.rule("R24.2", "decision table of the two hook methods: Proxy-Authorization iff (Upstream, http, not tunnelled) or CONNECT-to-proxy; Authorization iff Reverse")
    ctx.rule("R24.4", "requests received inside a client CONNECT tunnel (upstream mode) never get Proxy-Authorization: they are relayed to the origin (F-C24)")
    ctx.rule("R24.3", "HttpConnectUpstreamHook only in start_handshake under send_connect, flow request is the CONNECT, bytes go to tunnel_connection = Server(via)")
    ctx.trust("addon manager dispatches a hook to the addon method named after it; http1.assemble_request serialises exactly the request given")
    ctx.guard(r24_1, ctx)
    ctx.guard(r24_5, ctx)
    ctx.guard(r24_tables, ctx)

    ctx.guard(r24_3, ctx)
    ctx.expect_instances("R24.3", 5)


MUTANTS = [
    Mutant("table-dispatch-loses-scheme", UA, """            if (
                isinstance(f.client_conn.proxy_mode, mode_specs.UpstreamMode)
                and f.request.scheme == "http"
            ):
                f.request.headers["Proxy-Authorization"] = self.auth
            elif isinstance(f.client_conn.proxy_mode, mode_specs.ReverseMode):
                f.request.headers["Authorization"] = self.auth
""", """            header = {mode_specs.UpstreamMode: "Proxy-Authorization", mode_specs.ReverseMode: "Authorization"}.get(type(f.client_conn.proxy_mode))
            if header:
                f.request.headers[header] = self.auth
""", "R24.5"),
    Mutant("scheme-read-from-server-connection", UA, "                and f.request.scheme == \"http\"\n", "                and not f.server_conn.tls\n", "R24.5"),
    Mutant("scheme-read-from-client-tls", UA, "                and f.request.scheme == \"http\"\n", "                and not f.client_conn.tls_established\n", "R24.5"),
    Mutant("scheme-guessed-from-port", UA, "                and f.request.scheme == \"http\"\n", "                and f.request.port != 443\n", "R24.5"),
    Mutant("header-value-not-configured-auth", UA, '                f.request.headers["Authorization"] = self.auth', '                f.request.headers["Authorization"] = b"Basic Og=="', "R24.5"),
    Mutant("auth-read-in-new-hook", UA, "    def requestheaders(self, f: http.HTTPFlow):\n",
           "    def request(self, f: http.HTTPFlow):\n        if self.auth:\n            f.request.headers[\"Proxy-Authorization\"] = self.auth\n\n    def requestheaders(self, f: http.HTTPFlow):\n", "R24.1"),
    Mutant("creds-exported-elsewhere", "mitmproxy/addons/proxyauth.py", "from mitmproxy import ctx\n", "from mitmproxy import ctx\nfrom mitmproxy.addons.upstream_auth import parse_upstream_auth\n", "R24.1"),
    Mutant("scheme-check-dropped", UA, "                and f.request.scheme == \"http\"\n", "", "R24.2"),
    Mutant("tunnelled-https-gets-header-too", UA, "                and f.request.scheme == \"http\"\n", "", "R24.4"),
    Mutant("reverse-branch-becomes-else", UA, "            elif isinstance(f.client_conn.proxy_mode, mode_specs.ReverseMode):\n", "            else:\n", "R24.2"),
    Mutant("reverse-gets-proxy-header", UA, "                f.request.headers[\"Authorization\"] = self.auth", "                f.request.headers[\"Proxy-Authorization\"] = self.auth", "R24.2"),
    Mutant("upstream-check-is-regular", UA, "isinstance(f.client_conn.proxy_mode, mode_specs.UpstreamMode)", "isinstance(f.client_conn.proxy_mode, (mode_specs.UpstreamMode, mode_specs.RegularMode))", "R24.2"),
    Mutant("connect-hook-writes-authorization", UA, "        if self.auth:\n            f.request.headers[\"Proxy-Authorization\"] = self.auth\n\n",
           "        if self.auth:\n            f.request.headers[\"Authorization\"] = self.auth\n\n", "R24.2"),
    Mutant("connect-sent-to-inner-conn", UP, "yield commands.SendData(self.tunnel_connection, raw)", "yield commands.SendData(self.conn, raw)", "R24.3"),
    Mutant("send-connect-guard-dropped", UP, "        if not self.send_connect:\n            return (yield from super().start_handshake())\n        assert self.conn.address\n", "        assert self.conn.address\n", "R24.3"),
    Mutant("make-passes-destination-conn", UP, "stack /= cls(ctx, http_proxy, send_connect)", "stack /= cls(ctx, ctx.server, send_connect)", "R24.3"),
    Mutant("init-swaps-connections", UP, "tunnel_connection=tunnel_conn, conn=ctx.server", "tunnel_connection=ctx.server, conn=tunnel_conn", "R24.3"),
    Mutant("hook-also-on-handshake-data", UP, "        self.buf += data\n        response_head = ", "        yield HttpConnectUpstreamHook(http.HTTPFlow(self.context.client, self.conn))\n        self.buf += data\n        response_head = ", "R24.3"),
    Mutant("request-not-connect", UP, "            method=b\"CONNECT\",\n", "            method=b\"GET\",\n", "R24.3"),
]
