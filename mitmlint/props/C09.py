"""C09 - connection lifecycle events pair up; at most five upstream connections per destination.

Decided (path facts of ``mitmproxy/proxy/server.py``; every path of the function, exceptional exits included).  All rules work on
*values*, not on the text of locals: helper methods of ``ConnectionHandler`` / helper functions of the module are inlined (so an
extracted method is analysed in place), hook objects, the per-address semaphore, the connection, the tasks are followed through local
aliases and helper parameters (``_helpers_B.SymFlowSpec`` on a depth-aware engine), and the "who may fire / write" clauses are closed
over the call graph (a private helper called from nowhere else counts as its caller).
  R09.1 ``open_connection`` (``handle_connection`` inlined): no address -> none of the server hooks; otherwise exactly one
        ``ServerConnectHook``, followed by exactly one of ``ServerConnectedHook`` | ``ServerConnectErrorHook``; every
        ``ServerConnectedHook`` is followed by exactly one ``ServerDisconnectedHook`` on *all* exits (return, re-raised
        cancellation); an ``OpenConnectionCompleted`` answer is handed to ``server_event`` exactly once on every path (the answer object
        is followed by value: built in place, in a local or as the argument of a helper); every wait on an external awaitable between
        server_connect and its outcome is inside a ``CancelledError`` handler.  The six lifecycle hook classes are instantiated
        nowhere else in the package.
  R09.2 ``handle_client``: ``ClientConnectedHook`` is the first hook, ``ClientDisconnectedHook`` fires exactly once on every path
        and only after the task created for ``handle_connection`` was awaited; afterwards the handler of everything left in
        ``self.transports`` is cancelled and awaited (whatever the loop looks like: over values / items / a prepared list of the
        handlers); the branch taken when ``client.error`` is set (tested directly, negated, via bool() or a local) closes the writer.
  R09.3 connect call, connected hook, ``handle_connection`` and disconnected hook all happen while a slot of
        ``self.max_conns[<conn>.address]`` is held (``async with`` or ``await <sem>.acquire()`` ... ``<sem>.release()`` balanced on
        every exit; a ``with helper(<sem>)`` on a generator-based ``@contextmanager`` / ``@asynccontextmanager`` is analysed by inlining
        the generator around the with-body: the code before its ``yield`` runs on entry, the body runs at the yield, so a
        ``try: yield`` / ``finally: <sem>.release()`` is the same release-on-every-exit as the written-out ``try/finally``), the key is the
        address that is connected to; ``max_conns`` is a ``defaultdict`` whose factory - *called* abstractly, whatever callable it is:
        lambda, ``functools.partial``, module function, static / class / ordinary method, with module and class constants each bound once
        in the package - creates a fresh ``asyncio.Semaphore(n)``, 1 <= n <= 5; written only while the handler is constructed.
  R09.4 ``handle_connection`` removes ``self.transports[connection]`` (``pop`` / ``del``) exactly once on every exit (EOF, OSError,
        close error, cancellation re-raised after the pop) and closes the writer before; every suspending await is inside a
        ``CancelledError`` handler.
Not decided: asyncio scheduling.  Refinement (printed in the evidence): exceptions/cancellation are modelled at every statement
of a ``try`` body for the classes its handlers name (i.e. where the code itself guards); awaits outside such a try
(``server_event``, ``handle_hook``) are assumed not to be interrupted.  ``raise AssertionError`` paths are treated like failed
``assert`` (not behaviours).
"""

from __future__ import annotations

import ast

from ..core import AnalysisError
from ..core import norm
from ..model import attr_chain
from ..model import call_name
from ..model import calls_in
from ..model import enclosing_func
from ..model import eval_order
from ..model import last_attr
from ..model import qual_of
from ..paths import count
from ..paths import index_of
from ..paths import R
from ..selftest import Mutant
from ._helpers_B import binding_sites
from ._helpers_B import cancel_guarded
from ._helpers_B import ceval
from ._helpers_B import class_helper_resolver
from ._helpers_B import is_sym
from ._helpers_B import MiniInterp
from ._helpers_B import NotAnAtom
from ._helpers_B import S
from ._helpers_B import CONN_HANDLER_ATOMIC
from ._helpers_B import handle_client_paths
from ._helpers_B import only_reachable_from
from ._helpers_B import SymFlowSpec
from ._helpers_B import traces_of_v

PROP = "C09"
REG = {
    "strength": "partial",
    "technique": "CFG path enumeration with implicit exception edges into the code's own handlers, helper inlining, with-region events; constant/table checks",
    "claim": "on every modelled path of open_connection / handle_client / handle_connection the lifecycle hooks pair up as stated, the "
    "connect-and-serve region is inside the per-address semaphore (bound <= 5), and the transport entry is removed on every exit.",
    "note": "Cancellation is modelled only where the code guards it (try bodies whose handlers name the exception); server_event and "
    "handle_hook awaits are assumed not to be interrupted. Loops unrolled once.",
}
F = "mitmproxy/proxy/server.py"
SH = "mitmproxy/proxy/server_hooks.py"

S_CONNECT, S_CONNECTED, S_ERR, S_DISC = "ServerConnectHook", "ServerConnectedHook", "ServerConnectErrorHook", "ServerDisconnectedHook"
C_CONN, C_DISC = "ClientConnectedHook", "ClientDisconnectedHook"
LIFECYCLE = (S_CONNECT, S_CONNECTED, S_ERR, S_DISC, C_CONN, C_DISC)


def is_hook(name=None):
    return lambda e: e[0] == "hook" and (name is None or e[1] == name)


def _terminal(res):
    """terminal paths that are behaviours (assertion failures excluded)"""
    return [(t, how, st) for t, how, st in res if how != "raise:AssertionError"]


def _helpers(ctx, inline=()):
    """resolver inlining every helper method of ConnectionHandler / helper function of proxy/server.py (``extract method`` is transparent);
    the methods that are events of the rules' alphabet stay calls, except those named in ``inline``"""
    return class_helper_resolver(ctx.model, F, "ConnectionHandler", [a for a in CONN_HANDLER_ATOMIC if a not in inline])


class OpenSpec(SymFlowSpec):
    """open_connection for R09.1: SymFlowSpec plus the answer to the layer by value - ``events.OpenConnectionCompleted(..)`` is S('answer')
    wherever it is built (in place, in a local, as the argument of a helper) and ('answer',) is the event of handing it to
    ``self.server_event``."""

    ANSWER = "OpenConnectionCompleted"

    def sym_value(self, expr, st, depth):
        if isinstance(expr, ast.Call) and last_attr(expr.func) == self.ANSWER:
            return S("answer")
        return super().sym_value(expr, st, depth)

    def sym_events(self, node, st):
        out = list(super().sym_events(node, st))
        for n in eval_order(node):
            if isinstance(n, ast.Call) and call_name(n) == "self.server_event" and len(n.args) == 1 and is_sym(self.sym(n.args[0], st), "answer"):
                out.append(("answer",))
        return out


def _r09_1(ctx):
    m = ctx.model
    oc = ctx.func(F, "ConnectionHandler.open_connection")
    hcl = ctx.func(F, "ConnectionHandler.handle_client")
    ctx.func(F, "ConnectionHandler.handle_connection")
    for h in LIFECYCLE:
        m.cls(SH, h)

    def keep(ev):
        return ev[0] in ("hook", "extwait", "answer")

    res, eng = traces_of_v(oc, OpenSpec(keep=keep, resolver=_helpers(ctx, inline=("handle_connection",)), hook_classes=LIFECYCLE, extwaits=True))
    ctx.require("handle_connection" in eng.inlined, "open_connection no longer awaits self.handle_connection(...)")
    term = _terminal(res)
    ctx.paths += len(term)
    where = (F, "ConnectionHandler.open_connection", oc)
    bad = {"no-hooks-without-address": 0, "one-outcome": 0, "disconnect": 0, "answer": 0}
    kinds = set()
    waits: dict = {}  # external wait between server_connect and its outcome -> [node, text, guarded on every path]
    for t, how, st in term:
        hooks = [e[1] for e in t if e[0] == "hook"]
        unknown = [h for h in hooks if h not in LIFECYCLE]
        ctx.require(not unknown, f"open_connection fires hooks the rule does not know: {unknown}")
        n_connect, n_ok, n_err, n_disc = (hooks.count(x) for x in (S_CONNECT, S_CONNECTED, S_ERR, S_DISC))
        kinds.add((n_connect, n_ok, n_err, n_disc, how.split(":")[0]))
        if n_connect == 0:
            if hooks:
                bad["no-hooks-without-address"] += 1
        else:
            i = index_of(t, is_hook(S_CONNECT))
            before = [e for e in t[:i] if e[0] == "hook"]
            if n_connect != 1 or n_ok + n_err != 1 or before:
                bad["one-outcome"] += 1
            j = index_of(t, lambda e: e[0] == "hook" and e[1] in (S_CONNECTED, S_ERR), i + 1)
            for e in t[i + 1 : j if j >= 0 else len(t)]:
                if e[0] == "extwait":
                    w = waits.setdefault(id(e[3]), [e[3], e[1], True])
                    w[2] = w[2] and e[2]
        # every connected is followed by exactly one disconnected
        if n_disc != n_ok or (n_ok and index_of(t, is_hook(S_DISC)) < index_of(t, is_hook(S_CONNECTED))):
            bad["disconnect"] += 1
        # the layer is answered exactly once (it is blocked on OpenConnection), before serving the connection
        n_ans = count(t, lambda e: e[0] == "answer")
        if n_ans != 1:
            bad["answer"] += 1
    if not any(bad.values()):
        # vacuity guard of the four path facts below (when one of them is violated the violation is the answer, e.g. the error hook dropped
        # from the one helper that reports all failed attempts)
        ctx.require(any(k[0] == 0 for k in kinds) and any(k[1] >= 1 for k in kinds) and any(k[2] >= 1 for k in kinds),
                    f"open_connection: expected a no-address path, a connected path and a connect-error path, got {sorted(kinds)}")
        ctx.require(any(k[4] == "raise" and k[1] == 1 for k in kinds), "open_connection: the exceptional exit of handle_connection is no longer modelled")
    ctx.note(f"R09.1 open_connection path kinds (connect, connected, error, disconnected, exit): {sorted(kinds)}")
    ctx.check(bad["no-hooks-without-address"] == 0, "R09.1", where, "server hooks on a path without ServerConnectHook",
              f"{bad['no-hooks-without-address']} path(s) fire server_connected/error/disconnected without a preceding server_connect", desc="no hook without server_connect")
    ctx.check(bad["one-outcome"] == 0, "R09.1", where, "exactly one of ServerConnectedHook | ServerConnectErrorHook after ServerConnectHook",
              f"{bad['one-outcome']} path(s) fire server_connect and then not exactly one of server_connected / server_connect_error", desc="server_connect -> exactly one outcome")
    ctx.check(bad["disconnect"] == 0, "R09.1", where, "ServerDisconnectedHook after ServerConnectedHook on every exit",
              f"{bad['disconnect']} path(s) (exceptional exits included) do not pair server_connected with exactly one later server_disconnected", desc="server_connected -> exactly one server_disconnected on all exits")
    ctx.check(bad["answer"] == 0, "R09.1", where, "OpenConnectionCompleted exactly once",
              f"{bad['answer']} path(s) do not answer the OpenConnection command exactly once", desc="OpenConnectionCompleted exactly once per path")
    # cancellation between server_connect and its outcome: every wait on an external awaitable there (the per-address slot, the
    # connect call) must sit inside a handler for CancelledError (in its own function or at the call site of the helper it was moved to)
    # - the path enumeration above then shows that the handler reports an outcome
    ctx.require(len(waits) >= 2 or any(bad.values()), f"open_connection: expected the slot wait and the connect call between server_connect and server_connected, found {[w[1] for w in waits.values()]}")
    for node, what, guarded in sorted(waits.values(), key=lambda w: (w[0].lineno, w[0].col_offset)):
        ctx.check(guarded, "R09.1", (F, qual_of(node), node), f"wait `{what}` between server_connect and its outcome is cancellation-guarded",
                  f"`{what}` can be cancelled (client disconnect) after server_connect fired, outside any handler for asyncio.CancelledError: "
                  "the attempt then has neither server_connected nor server_connect_error and the layer's OpenConnection is never answered", desc=f"{what}: inside a CancelledError handler")
    # who may fire: the function itself or a helper that is called from nowhere else (call-graph closure)
    sites = {}
    for p in sorted((m.repo / "mitmproxy").rglob("*.py")):
        rel = p.relative_to(m.repo).as_posix()
        if rel == SH or rel.startswith("mitmproxy/contrib/"):
            continue
        src = m.source(rel)
        if not any(h + "(" in src for h in LIFECYCLE):
            continue
        for c in calls_in(m.module(rel).tree):
            cls = call_name(c).split(".")[-1]
            if cls in LIFECYCLE:
                sites.setdefault(cls, []).append((rel, qual_of(c), c))
    for cls in LIFECYCLE:
        root = hcl if cls.startswith("Client") else oc
        want = root._qual
        got = sites.get(cls, [])
        ctx.require(got or any(bad.values()), f"{cls} is instantiated nowhere (anchor vanished)")
        for rel, q, c in got:
            fn = enclosing_func(c)
            ok = fn is not None and (fn is root or (rel == F and only_reachable_from(m, rel, fn, [root])))
            ctx.check(ok, "R09.1", (rel, q, c), f"{cls}(...) instantiated outside {want}",
                      "a lifecycle hook is fired from a second place: the once-per-connection pairing is no longer decided by open_connection/handle_client",
                      desc=f"{cls} only in {want}" + ("" if fn is root else f" (helper {q}, called from nowhere else)"))
    ctx.expect_instances("R09.1", 4 + 6 + 2)  # 4 path facts + at least one instantiation site per lifecycle hook class (7 today)


def _r09_2(ctx):
    # value-based projection (see _helpers_B.HandleClientSpec): helper methods are inlined, the client.error test is recognised through
    # negation / bool() / a local holding it, the tasks that are cancelled / awaited are identified by what they *are* (the task created for
    # handle_connection, the handlers of what is left in self.transports) and not by the names of locals or the shape of the loop
    hc, term, eng = handle_client_paths(ctx, LIFECYCLE)
    ctx.paths += len(term)
    where = (F, "ConnectionHandler.handle_client", hc)
    bad = {"first": 0, "once": 0, "after-handler": 0, "close": 0, "cancel": 0}
    served = cancelled = refused = uncancelled_wait = 0
    loops = set()
    is_serve = lambda e: e[0] == "call" and e[1].split(".")[-1] == "handle_connection"  # noqa: E731
    is_close = lambda e: e[0] == "call" and e[1].split(".")[-1] in ("close", "abort")  # noqa: E731
    for t, how, st in term:
        hooks = [e[1] for e in t if e[0] == "hook"]
        ctx.require(all(h in (C_CONN, C_DISC) for h in hooks), f"handle_client fires hooks the rule does not know: {hooks}")
        if not hooks or hooks[0] != C_CONN or hooks.count(C_CONN) != 1:
            bad["first"] += 1
        refused += any(e[0] == "cerr" and e[1] for e in t)
        if hooks.count(C_DISC) != 1 or hooks[-1:] != [C_DISC]:
            bad["once"] += 1
            continue
        d = index_of(t, is_hook(C_DISC))
        s = index_of(t, is_serve)
        if s >= 0:
            served += 1
            w = index_of(t, lambda e: e == ("wait", "client-task"), s)
            if not (0 <= w < d) or s > d:
                bad["after-handler"] += 1
        if any(e[0] == "cerr" and e[1] for e in t[:d]):
            if s >= 0 or not any(is_close(e) for e in t[:d]):
                bad["close"] += 1
        # after the hook: cancel + await every remaining handler
        tail = t[d + 1 :]
        if ("wait", "remaining") in tail and not any(e[0] == "loop" for e in tail):
            uncancelled_wait += 1  # the remaining handlers are awaited but there is no loop over them that could cancel them
        for k, e in enumerate(tail):
            if e[0] == "loop" and e[1]:
                loops.add(e[2])
                nxt = index_of(tail, lambda x: x[0] == "loop", k + 1)
                seg = tail[k + 1 : nxt if nxt >= 0 else len(tail)]
                if ("hcond", False) in seg:
                    continue  # this transport has no handler task: nothing to cancel
                c = index_of(seg, lambda x: x == ("cancel", "remaining"))
                w = index_of(tail, lambda x: x == ("wait", "remaining"), k + 1 + max(c, 0))
                if c < 0 or w < 0:
                    bad["cancel"] += 1
                else:
                    cancelled += 1
    ctx.require(served > 0, "handle_client: no path creates the client connection handler (anchor changed)")
    ctx.require(refused > 0, "handle_client: no path tests client.error (anchor changed shape)")
    if not loops and uncancelled_wait:
        bad["cancel"] += uncancelled_wait
    else:
        ctx.require((cancelled > 0 or bad["cancel"]) and len(loops) == 1, "handle_client: the loop cancelling the remaining transports was not found after ClientDisconnectedHook")
    ctx.check(bad["first"] == 0, "R09.2", where, "ClientConnectedHook first, once", f"{bad['first']} path(s) do not start with exactly one client_connected", desc="client_connected first and once")
    ctx.check(bad["once"] == 0, "R09.2", where, "ClientDisconnectedHook exactly once, last hook", f"{bad['once']} path(s) do not end with exactly one client_disconnected", desc="client_disconnected exactly once on every path")
    ctx.check(bad["after-handler"] == 0, "R09.2", where, "await asyncio.wait([handler]) before ClientDisconnectedHook",
              f"{bad['after-handler']} path(s) fire client_disconnected without having awaited the connection handler task", desc="client_disconnected only after the handler finished")
    ctx.check(bad["close"] == 0, "R09.2", where, "killed client: writer closed", f"{bad['close']} path(s) with client.error set still serve the client or do not close its writer", desc="client.error branch closes the writer and serves nothing")
    ctx.check(bad["cancel"] == 0, "R09.2", where, "remaining transports cancelled and awaited",
              f"{bad['cancel']} path(s) leave a transport handler running after client_disconnected (no cancel / no await)", desc="remaining handlers cancelled and awaited")
    ctx.expect_instances("R09.2", 5)


CONNECT_FUNCS = ("open_connection", "open_udp_connection")  # asyncio.open_connection / mitmproxy_rs.udp.open_udp_connection, however imported
SEM_QUERIES = ("locked", "_value")  # pure queries of asyncio.Semaphore


def _reftext(v, expr):
    return v[1] if isinstance(v, tuple) and len(v) == 2 and v[0] == "r" else norm(expr)


class SemSpec(SymFlowSpec):
    """open_connection projected onto the per-address limit, by value: ``X.max_conns[key]`` is S('sem', key) wherever it flows (local alias,
    helper parameter); events ('acquire', key) when ``await <sem>.acquire()`` completes or ``async with <sem>`` is entered,
    ('release', key) for ``<sem>.release()`` / leaving the ``async with``; ('connect', callee, (address texts), node) for the connect calls;
    ('serve', connection text, node) for handle_connection; the hooks.  Any other use of the semaphore value than acquire / release / a pure
    query / isinstance / formatting / a plain local alias is not modelled (AnalysisError)."""

    def __init__(self, **kw):
        super().__init__(keep=lambda ev: ev[0] in ("acquire", "release", "connect", "serve", "except") or (ev[0] == "hook" and ev[1] in (S_CONNECTED, S_DISC)), **kw)
        self._with: dict = {}

    def sym_value(self, expr, st, depth):
        if isinstance(expr, ast.Subscript) and attr_chain(expr.value).endswith(".max_conns"):
            return S("sem", _reftext(self.value(expr.slice, st, depth), expr.slice))
        if isinstance(expr, ast.Subscript) and isinstance(expr.slice, ast.Constant) and isinstance(expr.slice.value, int):
            b = self.value(expr.value, st, depth)
            if isinstance(b, tuple) and len(b) == 2 and b[0] == "r":
                return R(f"{b[1]}[{expr.slice.value}]")  # host = conn.address[0]
        return None

    def bind(self, target, value_expr, st, depth, value=None):
        # host, port = conn.address: the elements stay references into the address
        if isinstance(target, (ast.Tuple, ast.List)) and value_expr is not None and all(isinstance(e, ast.Name) for e in target.elts):
            v = value if value is not None else self.value(value_expr, st, depth)
            if isinstance(v, tuple) and len(v) == 2 and v[0] == "r":
                for i, e in enumerate(target.elts):
                    st = st.set(f"{depth}:{e.id}", R(f"{v[1]}[{i}]"))
                return st
        return super().bind(target, value_expr, st, depth, value=value)

    def _address_of(self, call, st):
        """texts of the address(es) a connect call is made to: ``f(*addr, ..)`` or ``f(addr[0], addr[1], ..)``"""
        star = tuple(_reftext(self.sym(a.value, st), a.value) for a in call.args if isinstance(a, ast.Starred))
        if star or len(call.args) < 2:
            return star
        h, p = (_reftext(self.sym(a, st), a) for a in call.args[:2])
        if h.endswith("[0]") and p.endswith("[1]") and h[:-3] == p[:-3]:
            return (h[:-3],)
        return ()

    def _check_use(self, n):
        p = getattr(n, "_parent", None)
        if isinstance(p, ast.Attribute) and p.attr in ("acquire", "release"):
            # only the plain forms are events of the alphabet: `await <sem>.acquire()` and `<sem>.release()`; the bound method handed to
            # something else (wait_for(<sem>.acquire(), ..), stack.callback(<sem>.release), ...) is not modelled
            c = getattr(p, "_parent", None)
            called = isinstance(c, ast.Call) and c.func is p and not c.args and not c.keywords
            if not called or (p.attr == "acquire" and not isinstance(getattr(c, "_parent", None), ast.Await)):
                raise AnalysisError(f"open_connection: `{norm(c if called else p)[:60]}` - the per-address semaphore is acquired / released other than by "
                                    f"`await <sem>.acquire()` / `<sem>.release()` / `async with <sem>` (not modelled): {norm(c)[:80]}")
        ok = (
            (isinstance(p, ast.Attribute) and p.attr in ("acquire", "release") + SEM_QUERIES)
            or isinstance(p, (ast.withitem, ast.FormattedValue, ast.Compare, ast.Assert, ast.Expr))
            or (isinstance(p, (ast.Assign, ast.AnnAssign, ast.NamedExpr)) and p.value is n and all(isinstance(t, ast.Name) for t in (p.targets if isinstance(p, ast.Assign) else [p.target])))
            or (isinstance(p, ast.Call) and isinstance(p.func, ast.Name) and p.func.id in ("isinstance", "type", "id", "repr", "str") and p.args and p.args[0] is n)
            or (isinstance(p, ast.Call) and n in p.args and (call_name(p) == "self.log" or call_name(p).split(".")[0] in ("logger", "logging", "log")))
        )
        if not ok:
            raise AnalysisError(f"open_connection: the per-address semaphore `{norm(n)}` is used other than by acquire / release / a pure query (not modelled): {norm(p)[:80]}")

    def sym_events(self, node, st):
        out = []
        for n in eval_order(node):
            if isinstance(n, (ast.Name, ast.Subscript)) and isinstance(getattr(n, "ctx", None), ast.Load) and is_sym(self.sym(n, st), "sem"):
                self._check_use(n)
            if isinstance(n, ast.Await) and isinstance(n.value, ast.Call) and isinstance(n.value.func, ast.Attribute) and n.value.func.attr == "acquire":
                v = self.sym(n.value.func.value, st)
                if is_sym(v, "sem"):
                    out.append(("acquire", v[2]))
            elif isinstance(n, ast.Call) and isinstance(n.func, ast.Attribute) and n.func.attr == "release":
                v = self.sym(n.func.value, st)
                if is_sym(v, "sem"):
                    out.append(("release", v[2]))
            elif isinstance(n, ast.Call) and last_attr(n.func) in CONNECT_FUNCS and not call_name(n).startswith(("self.", "cls.")):
                out.append(("connect", call_name(n), self._address_of(n, st), n))
            elif isinstance(n, ast.Call) and call_name(n) == "self.handle_connection":
                out.append(("serve", _reftext(self.sym(n.args[0], st), n.args[0]) if len(n.args) == 1 else "?", n))
        return out

    def with_enter(self, node, s):
        out = []
        for i in node.items:
            v = self.sym(i.context_expr, s)
            if is_sym(v, "sem"):
                ctx_ok = isinstance(node, ast.AsyncWith)
                if not ctx_ok:
                    raise AnalysisError("open_connection: plain `with` on an asyncio.Semaphore")
                self._with.setdefault(id(node), []).append(v[2])
                out.append(("acquire", v[2]))
        return tuple(out)

    def with_exit(self, node):
        return tuple(("release", k) for k in reversed(self._with.get(id(node), [])))


class _FreshSem:
    """abstract value: an ``asyncio.Semaphore(n)`` created by the call that is being evaluated"""

    def __init__(self, n):
        self.n = n


SEM_CLASSES = ("asyncio.Semaphore", "asyncio.BoundedSemaphore", "asyncio.locks.Semaphore", "asyncio.locks.BoundedSemaphore")


def _semaphore_bound(ctx, mod, factory, owner="ConnectionHandler"):
    """n of the ``asyncio.Semaphore(n)`` every call of the defaultdict factory creates.  The factory is *called* (abstractly, with no
    arguments) whatever callable it is: a lambda, ``functools.partial(..)``, a function of the module, a static / class / ordinary method of
    the handler reached through ``self`` / ``cls`` / the class, or a module constant holding one of these; function bodies are interpreted
    (MiniInterp), names are module constants, ``self.X`` / ``cls.X`` / ``Class.X`` class constants (each bound exactly once in the package).
    The result must be a semaphore created *during* the call (one created while a constant or a default argument is evaluated is shared
    between the addresses: not modelled)."""
    model = ctx.model
    shared = [0]  # > 0 while a module / class constant or a default argument is evaluated
    what = "max_conns factory"

    def bound_once(name, kind):
        sites = binding_sites(model, name)
        if len(sites) != 1:
            raise AnalysisError(f"max_conns: the {kind} `{name}` the semaphore factory depends on is bound {len(sites)} times in the package "
                                f"({sorted({r for r, _ in sites})}): which value reaches the factory is not modelled")

    def dotted(e):
        ch = attr_chain(e)
        if not ch:
            return ""
        head, _, rest = ch.partition(".")
        if head in mod.imports and not mod.assigns(head) and mod.get(head) is None:
            return mod.imports[head] + ("." + rest if rest else "")
        return ""

    def make_sem(*a, **k):
        if len(a) > 1 or set(k) - {"value"} or (a and k):
            raise AnalysisError(f"max_conns: unmodelled Semaphore arguments {a} {k}")
        n = a[0] if a else k.get("value", 1)  # asyncio.Semaphore(value=1)
        if not isinstance(n, int) or isinstance(n, bool):
            raise AnalysisError(f"max_conns: Semaphore size {n!r} is not an integer constant")
        if shared[0]:
            raise AnalysisError("max_conns: the semaphore is created once (module / class constant or default argument) and shared between the addresses (not modelled)")
        return _FreshSem(n)

    def make_partial(f, *a, **k):
        if not callable(f):
            raise AnalysisError("max_conns: functools.partial of something that is not a modelled callable")
        return lambda *b, **kk: f(*a, *b, **{**k, **kk})

    def class_attr(name):
        """(value node | def node) of the class-level binding of ``name`` along the MRO of the handler class"""
        for _, c in model.mro(F, owner):
            for st in c.body:
                if isinstance(st, (ast.FunctionDef, ast.AsyncFunctionDef)) and st.name == name:
                    return st
                if isinstance(st, ast.Assign) and any(isinstance(t, ast.Name) and t.id == name for t in st.targets):
                    return st.value
                if isinstance(st, ast.AnnAssign) and isinstance(st.target, ast.Name) and st.target.id == name and st.value is not None:
                    return st.value
        return None

    def self_like(e):
        """'inst' for self, 'cls' for cls / type(self) / self.__class__ / the handler class by name, else None"""
        if isinstance(e, ast.Name):
            if e.id == "self":
                return "inst"
            if e.id == "cls" or e.id in [c.name for _, c in model.mro(F, owner)]:
                return "cls"
        if isinstance(e, ast.Attribute) and e.attr == "__class__" and self_like(e.value) == "inst":
            return "cls"
        if isinstance(e, ast.Call) and isinstance(e.func, ast.Name) and e.func.id == "type" and len(e.args) == 1 and self_like(e.args[0]) == "inst":
            return "cls"
        return None

    def function(fn, bound):
        """python callable interpreting the def ``fn``; ``bound`` = its first parameter is the receiver"""
        if isinstance(fn, ast.AsyncFunctionDef) or any(isinstance(n, (ast.Yield, ast.YieldFrom)) for n in ast.walk(fn)):
            raise AnalysisError(f"max_conns: the semaphore factory {fn.name} is a coroutine / generator function")
        a = fn.args
        if a.vararg or a.kwarg or a.kwonlyargs or a.posonlyargs:
            raise AnalysisError(f"max_conns: signature of {fn.name} not modelled")
        params = [x.arg for x in a.args][1 if bound else 0:]
        defaults = dict(zip([x.arg for x in a.args][len(a.args) - len(a.defaults):], a.defaults))
        bound_once(fn.name, "function")

        def run(*vals, **kw):
            if len(vals) > len(params) or set(kw) - set(params):
                raise AnalysisError(f"max_conns: call of {fn.name} does not fit its signature")
            env = dict(zip(params, vals))
            env.update(kw)
            for p_ in params:
                if p_ not in env:
                    if p_ not in defaults:
                        raise AnalysisError(f"max_conns: {fn.name} called without `{p_}`")
                    shared[0] += 1
                    try:
                        env[p_] = ceval(defaults[p_], {}, atom, what)
                    finally:
                        shared[0] -= 1
            return MiniInterp(atom=atom, what=f"{what} {fn.name}").run(fn, env)

        return run

    def method_kind(fn):
        ds = [last_attr(d) for d in fn.decorator_list]
        if ds == ["staticmethod"]:
            return "static"
        if ds == ["classmethod"]:
            return "class"
        if not ds:
            return "plain"
        raise AnalysisError(f"max_conns: decorators of {fn.name} not modelled: {ds}")

    def constant(node):
        shared[0] += 1
        try:
            return ceval(node, {}, atom, what)
        finally:
            shared[0] -= 1

    def callable_of(e, env):
        """python callable modelling what the expression ``e`` (the callee of a call, or a callable passed around) denotes, else None"""
        if isinstance(e, ast.Name) and e.id in env:
            return env[e.id] if callable(env[e.id]) else None
        d = dotted(e)
        if d in SEM_CLASSES:
            return make_sem
        if d == "functools.partial":
            return make_partial
        if isinstance(e, ast.Name):
            fn = mod.get(e.id)
            if isinstance(fn, (ast.FunctionDef, ast.AsyncFunctionDef)):
                if fn.decorator_list:
                    raise AnalysisError(f"max_conns: decorators of {fn.name} not modelled")
                return function(fn, bound=False)
        if isinstance(e, ast.Attribute):
            recv = self_like(e.value)
            if recv is not None:
                target = class_attr(e.attr)
                if isinstance(target, (ast.FunctionDef, ast.AsyncFunctionDef)):
                    kind = method_kind(target)
                    return function(target, bound=(kind == "class" or (kind == "plain" and recv == "inst")))
        return None

    def atom(n, env):
        if isinstance(n, ast.Call):
            f = callable_of(n.func, env)
            if f is None:
                raise NotAnAtom
            args = []
            for x in n.args:
                if isinstance(x, ast.Starred):
                    args.extend(ceval(x.value, env, atom, what))
                else:
                    args.append(ceval(x, env, atom, what))
            kws = {}
            for k in n.keywords:
                if k.arg is None:
                    kws.update(ceval(k.value, env, atom, what))
                else:
                    kws[k.arg] = ceval(k.value, env, atom, what)
            return f(*args, **kws)
        if isinstance(n, (ast.Name, ast.Attribute)):
            f = callable_of(n, env)
            if f is not None:
                return f
        if isinstance(n, ast.Name) and mod.assigns(n.id):
            bound_once(n.id, "module constant")
            return constant(model.const(F, n.id))
        if isinstance(n, ast.Attribute) and self_like(n.value) is not None:
            target = class_attr(n.attr)
            if target is not None and not isinstance(target, (ast.FunctionDef, ast.AsyncFunctionDef)):
                bound_once(n.attr, "class constant")
                return constant(target)
        raise NotAnAtom

    f = ceval(factory, {}, atom, what)
    if not callable(f):
        raise AnalysisError(f"max_conns: the defaultdict factory {norm(factory)} is not a modelled callable")
    try:
        made = f()
    except AnalysisError:
        raise
    except Exception as ex:  # the abstract call itself failed (arity ...): not a shape the rule models
        raise AnalysisError(f"max_conns: calling the defaultdict factory {norm(factory)} fails in the model: {ex!r}")
    if not isinstance(made, _FreshSem):
        raise AnalysisError(f"max_conns: the defaultdict factory {norm(factory)} is not modelled (expected a callable creating a fresh asyncio.Semaphore(n), got {made!r})")
    return made.n


def _r09_3(ctx):
    oc = ctx.func(F, "ConnectionHandler.open_connection")
    res, eng = traces_of_v(oc, SemSpec(resolver=_helpers(ctx), hook_classes=LIFECYCLE))
    term = _terminal(res)
    ctx.paths += len(term)
    outside = set()
    seen: dict = {}
    keys = set()
    unbalanced = 0
    connects: dict = {}
    serves: dict = {}
    for t, how, st in term:
        depth = 0
        for e in t:
            if e[0] == "except":
                continue
            if e[0] == "acquire":
                keys.add(e[1])
                depth += 1
            elif e[0] == "release":
                keys.add(e[1])
                depth -= 1
            else:
                if e[0] == "connect":
                    label = e[1]
                    connects[id(e[3])] = e
                elif e[0] == "serve":
                    label = "self.handle_connection"
                    serves[id(e[2])] = e
                else:
                    label = e[1]
                seen[label] = e[0]
                if depth <= 0:
                    outside.add(label)
        if depth != 0:
            unbalanced += 1
    ctx.require(len(keys) == 1, f"open_connection: expected exactly one per-address semaphore self.max_conns[<address>] to be acquired, found keys {sorted(keys)}")
    key_chain = next(iter(keys))
    ctx.require(key_chain.count(".") >= 1, f"max_conns is keyed by {key_chain} (an attribute of the connection is modelled)")
    conn_prefix = key_chain.rsplit(".", 1)[0]
    ctx.require({S_CONNECTED, S_DISC, "self.handle_connection"} <= set(seen) and "connect" in seen.values(), f"open_connection: connect/serve events not found ({sorted(seen)})")
    where = (F, "ConnectionHandler.open_connection", oc)
    ctx.check(unbalanced == 0, "R09.3", where, "max_conns[address] acquired and released in pairs on every exit",
              f"{unbalanced} exit path(s) (exceptional ones included) keep or over-release a slot of max_conns[address]: the limit of five drifts", desc=f"acquire / release of max_conns[{key_chain}] balanced on all {len(term)} exits")
    for label in sorted(seen):
        ctx.check(label not in outside, "R09.3", where, f"{label} outside the per-address semaphore",
                  "part of the connect-and-serve region runs without holding max_conns[address]: more than five connections to one address can be open",
                  desc=f"{label} while holding max_conns[{key_chain}]")
    # the key is the address that is being connected to
    for _, name, star, c in sorted(connects.values(), key=lambda e: e[3].lineno):
        ctx.require(len(star) == 1, f"open_connection: the address {norm(c)[:80]} connects to is not modelled (expected `*<conn>.address` or its two elements)")
        ctx.check(star[0] == key_chain, "R09.3", (F, qual_of(c), c), f"{name}(*{key_chain})",
                  f"the connection is made to {star[0] if star else '?'} but the semaphore is keyed by {key_chain}", desc=f"{name} connects to the semaphore key")
    for _, arg, c in serves.values():
        ctx.require(arg == conn_prefix, f"handle_connection serves {arg} but the semaphore is keyed by {key_chain}")
    # the semaphore table: written only while the handler is constructed, a defaultdict of fresh Semaphore(n), 1 <= n <= 5
    init = ctx.func(F, "ConnectionHandler.__init__")
    mod = ctx.model.module(F)
    writes = []
    for n in ast.walk(mod.tree):
        if isinstance(n, (ast.Assign, ast.AugAssign, ast.AnnAssign, ast.Delete)):
            targets = n.targets if isinstance(n, (ast.Assign, ast.Delete)) else [n.target]
            if isinstance(n, ast.AnnAssign) and n.value is None:
                continue
            for t in targets:
                base = t.value if isinstance(t, ast.Subscript) else t
                if attr_chain(base).endswith(".max_conns"):
                    writes.append(n)
    ctx.require(len(writes) >= 1, "no assignment to max_conns found")
    for w in writes:
        v = getattr(w, "value", None)
        fn = enclosing_func(w)
        placed = fn is not None and (fn is init or only_reachable_from(ctx.model, F, fn, [init]))
        whole = isinstance(w, (ast.Assign, ast.AnnAssign)) and all(not isinstance(t, ast.Subscript) for t in (w.targets if isinstance(w, ast.Assign) else [w.target]))
        n_ok = None
        if placed and whole:
            ctx.require(isinstance(v, ast.Call) and last_attr(v.func) == "defaultdict" and len(v.args) == 1 and not v.keywords, f"max_conns is no longer a defaultdict(factory): {norm(w)} (not modelled)")
            n_ok = _semaphore_bound(ctx, mod, v.args[0])
        ctx.check(placed and whole and 1 <= n_ok <= 5, "R09.3", (F, qual_of(w), w), norm(w),
                  "max_conns is not a defaultdict of fresh asyncio.Semaphore(n) with 1 <= n <= 5 created in __init__ (the bound of the property is five)",
                  desc=f"max_conns = defaultdict(lambda: Semaphore({n_ok}))")
    # entries are never dropped / replaced, and slots are taken and given back only by open_connection (and its helpers)
    rel = []
    for c in calls_in(mod.tree):
        f = c.func
        if not isinstance(f, ast.Attribute):
            continue
        if attr_chain(f.value).endswith(".max_conns") and f.attr in ("pop", "popitem", "clear", "__delitem__", "__setitem__", "update", "setdefault"):
            rel.append(c)
        elif isinstance(f.value, ast.Subscript) and attr_chain(f.value.value).endswith(".max_conns") and f.attr in ("release", "acquire"):
            fn = enclosing_func(c)
            if not (fn is oc or (fn is not None and only_reachable_from(ctx.model, F, fn, [oc]))):
                rel.append(c)
    ctx.check(not rel, "R09.3", (F, "<module>", rel[0] if rel else 0), "manual acquire/release of max_conns", "the per-address semaphore is manipulated outside the async with", desc="no manual acquire/release/pop of max_conns")
    ctx.expect_instances("R09.3", 5 + 2 + 1 + 1)


class ConnSpec(SymFlowSpec):
    """handle_connection projected onto: ('pop', key text) for ``self.transports.pop(key[, default])`` / ``del self.transports[key]``,
    ('call', '<x>.close'), ('except', Cls), ('extwait', callee, guarded, node) for every await that can really suspend: an external
    awaitable, or a method of the handler that (transitively) awaits one."""

    def __init__(self, model, **kw):
        super().__init__(keep=lambda ev: ev[0] in ("pop", "except") or (ev[0] == "call" and ev[1].endswith(".close")), extwaits=True,
                         guard_also=lambda t: any(self._is_pop(n) for st in t.finalbody for n in ast.walk(st)), **kw)
        self.model = model

    @staticmethod
    def _is_pop(n):
        if isinstance(n, ast.Call) and isinstance(n.func, ast.Attribute) and n.func.attr == "pop" and attr_chain(n.func.value) == "self.transports" and n.args:
            return n.args[0]
        if isinstance(n, ast.Delete):
            for t in n.targets:
                if isinstance(t, ast.Subscript) and attr_chain(t.value) == "self.transports":
                    return t.slice
        return None

    def external_awaits(self, fn, seen):
        """awaits in fn (transitively through awaited methods of the same class) whose awaitable is not repository code"""
        out = []
        for n in ast.walk(fn):
            if not isinstance(n, ast.Await):
                continue
            v = n.value
            callee = call_name(v) if isinstance(v, ast.Call) else ""
            if callee.startswith("self.") and callee.count(".") == 1 and self.model.method(F, "ConnectionHandler", callee[5:]) is not None:
                name = callee[5:]
                if name not in seen:
                    seen.add(name)
                    out.extend(self.external_awaits(self.model.method(F, "ConnectionHandler", name)[1], seen))
            else:
                out.append(n)
        return out

    def sym_events(self, node, st):
        out = []
        for n in list(eval_order(node)):
            k = self._is_pop(n)
            if k is not None:
                out.append(("pop", _reftext(self.sym(k, st), k)))
            if isinstance(n, ast.Await) and isinstance(n.value, ast.Call):
                callee = call_name(n.value)
                if callee.startswith("self.") and callee.count(".") == 1:
                    r = self.model.method(F, "ConnectionHandler", callee[5:])
                    if r is not None:
                        ext = self.external_awaits(r[1], {callee[5:]})
                        if ext:  # (else: suspends at most on an uncontended lock - the stated cancellation model of C09)
                            out.append(("extwait", callee, cancel_guarded(n, self.call_stack, also=self.guard_also), n))
        return out


def _r09_4(ctx):
    hconn = ctx.func(F, "ConnectionHandler.handle_connection")
    params = [a.arg for a in hconn.args.args]
    ctx.require(len(params) == 2, "handle_connection signature changed")
    conn = params[1]
    spec = ConnSpec(ctx.model, resolver=_helpers(ctx), unroll=1)
    res, eng = traces_of_v(hconn, spec, bindings={conn: R(conn)})
    term = _terminal(res)
    ctx.paths += len(term)
    bad_pop = bad_close = n_pops = 0
    hows = set()
    for t, how, st in term:
        hows.add(how)
        pops = [e for e in t if e[0] == "pop"]
        n_pops += len(pops)
        for e in pops:
            ctx.require(e[1] == conn, f"handle_connection pops self.transports[{e[1]}] - not its own connection")
        if len(pops) != 1:
            bad_pop += 1
        i = index_of(t, lambda e: e[0] == "pop")
        # the writer is closed (or closing it failed with OSError) before the entry is forgotten
        closed = any(e[0] == "call" and e[1].endswith(".close") for e in t[: max(i, 0)]) or any(e == ("except", "OSError") for e in t[: max(i, 0)])
        if not closed:
            bad_close += 1
    waits = spec.wait_log  # (not read off the terminal paths: the path through a completed drain is cut off by the loop bound)
    ctx.require(n_pops > 0, "handle_connection no longer removes its entry from self.transports (anchor changed)")
    ctx.require("return" in hows and any(h.startswith("raise:") for h in hows), f"handle_connection: expected returning and re-raising exits, got {sorted(hows)}")
    where = (F, "ConnectionHandler.handle_connection", hconn)
    ctx.check(bad_pop == 0, "R09.4", where, "self.transports.pop(connection) exactly once on every exit",
              f"{bad_pop} exit path(s) (of {len(term)}) leave the connection in self.transports or pop it twice: resources remain after the connection ended", desc=f"pop exactly once on all {len(term)} exits ({sorted(hows)})")
    ctx.check(bad_close == 0, "R09.4", where, "writer.close() before the pop", f"{bad_close} exit path(s) forget the transport without closing its writer", desc="writer closed before the pop on all exits")
    # cancellation can be delivered at every await that really suspends.  The path enumeration above models it where the code
    # has a handler; an await that suspends on an external awaitable *outside* any CancelledError handler lets the exception
    # leave the function before the close / pop at its end.
    for node, callee, guarded in sorted(waits.values(), key=lambda w: (w[0].lineno, w[0].col_offset)):
        ctx.check(guarded, "R09.4", (F, qual_of(node), node), f"await {callee}(...) inside a CancelledError handler",
                  f"`{norm(node)[:80]}` can be cancelled while suspended but is not inside a handler for asyncio.CancelledError: the exception leaves handle_connection "
                  "before the writer is closed and self.transports.pop(connection) runs - the connection's resources remain after it ended",
                  desc=f"suspending await {callee} is cancellation-guarded")
    ctx.require(len(waits) >= 3, f"handle_connection: expected at least 3 suspending awaits (read, drain, wait), found {len(waits)}")
    ctx.assume("`await self.server_event(...)` only waits for an asyncio.Lock that is never held across a suspension (its body has no await): cancellation is not modelled there")
    ctx.expect_instances("R09.4", 2 + 3)


def check(ctx):
    ctx.rule("R09.1", "open_connection: server_connect -> exactly one of connected|error; connected -> exactly one disconnected on all exits; hooks fired nowhere else")
    ctx.rule("R09.2", "handle_client: client_connected first, client_disconnected exactly once after the handler finished; remaining transports cancelled and awaited")
    ctx.rule("R09.3", "connect-and-serve region inside async with max_conns[address]; max_conns = defaultdict(Semaphore(n<=5))")
    ctx.rule("R09.4", "handle_connection pops its transport exactly once on every exit, after closing the writer")
    ctx.assume("cancellation/OSError are modelled at every statement of a try body whose handlers name them; awaits of server_event/handle_hook outside such a try are not interrupted")
    ctx.assume("`raise AssertionError(...)` paths are not behaviours (same as failed assert)")
    ctx.trust("asyncio.Semaphore / async with acquire-release pairing")
    ctx.trust("contextlib.contextmanager / asynccontextmanager: the generator runs to its single yield on entry, the with-body's exception is thrown at the yield, the rest runs on exit")
    _r09_1(ctx)
    _r09_2(ctx)
    _r09_3(ctx)
    _r09_4(ctx)


MUTANTS = [
    Mutant("disconnect-hook-not-in-finally", F,
           "                try:\n                    await self.handle_connection(command.connection)\n                finally:\n                    self.log(f\"server disconnect {addr}\")",
           "                await self.handle_connection(command.connection)\n                if True:\n                    self.log(f\"server disconnect {addr}\")", "R09.1"),
    Mutant("killed-before-connect-no-error-hook", F,
           "            await self.handle_hook(server_hooks.ServerConnectErrorHook(hook_data))\n            await self.server_event(\n                events.OpenConnectionCompleted(command, f\"Connection killed: {err}\")",
           "            await self.server_event(\n                events.OpenConnectionCompleted(command, f\"Connection killed: {err}\")", "R09.1"),
    Mutant("connect-error-hook-only-for-oserror", F,
           "                await self.handle_hook(server_hooks.ServerConnectErrorHook(hook_data))\n                await self.server_event(events.OpenConnectionCompleted(command, err))\n",
           "                if not isinstance(e, asyncio.CancelledError):\n                    await self.handle_hook(server_hooks.ServerConnectErrorHook(hook_data))\n                await self.server_event(events.OpenConnectionCompleted(command, err))\n", "R09.1"),
    Mutant("cancelled-slot-wait-not-answered", F,
           "            await self.server_event(events.OpenConnectionCompleted(command, err))\n            raise\n", "            raise\n", "R09.1"),
    Mutant("answered-twice", F,
           "                await self.server_event(events.OpenConnectionCompleted(command, None))\n",
           "                asyncio_utils.create_task(self.server_event(events.OpenConnectionCompleted(command, None)), name=\"answer\", keep_ref=True)\n"
           "                await self.server_event(events.OpenConnectionCompleted(command, None))\n", "R09.1"),
    Mutant("no-address-fires-connect-error", F,
           "            self.log(f\"Cannot open connection, no hostname given.\")\n",
           "            self.log(f\"Cannot open connection, no hostname given.\")\n            await self.handle_hook(server_hooks.ServerConnectErrorHook(None))\n", "R09.1"),
    Mutant("hook-task-fires-second-disconnect", F,
           "        if hook.blocking:\n            await self.server_event(events.HookCompleted(hook))\n",
           "        if hook.blocking:\n            await self.server_event(events.HookCompleted(hook))\n        else:\n            await self.handle_hook(server_hooks.ClientDisconnectedHook(self.client))\n", "R09.1"),
    Mutant("client-disconnected-only-when-served", F,
           "        self.client.timestamp_end = time.time()\n        await self.handle_hook(server_hooks.ClientDisconnectedHook(self.client))\n",
           "        self.client.timestamp_end = time.time()\n        if not self.client.error:\n            await self.handle_hook(server_hooks.ClientDisconnectedHook(self.client))\n", "R09.2"),
    Mutant("client-handler-not-awaited", F, "            await asyncio.wait([handler])\n            if not handler.cancelled() and (e := handler.exception()):",
           "            await asyncio.sleep(0)\n            if handler.done() and not handler.cancelled() and (e := handler.exception()):", "R09.2"),
    Mutant("killed-client-branches-swapped", F, "        if self.client.error:\n            self.log(\"client kill connection\")", "        if not self.client.error:\n            self.log(\"client kill connection\")", "R09.2"),
    Mutant("remaining-transports-awaited-not-cancelled", F, "            for io in self.transports.values():\n                if io.handler:\n                    io.handler.cancel(\"client disconnected\")\n", "", "R09.2"),
    Mutant("remaining-transports-not-cancelled", F, "                if io.handler:\n                    io.handler.cancel(\"client disconnected\")\n", "                if io.handler:\n                    pass\n", "R09.2"),
    Mutant("semaphore-released-before-serving", F,
           "                await self.server_event(events.OpenConnectionCompleted(command, None))\n\n                try:\n                    await self.handle_connection(command.connection)\n",
           "                await self.server_event(events.OpenConnectionCompleted(command, None))\n                max_conns.release()\n\n                try:\n                    await self.handle_connection(command.connection)\n", "R09.3"),
    Mutant("semaphore-not-released", F, "        finally:\n            max_conns.release()\n", "        finally:\n            pass\n", "R09.3"),
    # reverse of the F-C09 fix (2faf2dc6e): the slot is awaited outside any CancelledError handler
    Mutant("F-C09-reverted-slot-wait-unguarded", F,
           "        try:\n            await max_conns.acquire()\n        except asyncio.CancelledError:\n",
           "        await max_conns.acquire()\n        try:\n            pass\n        except asyncio.CancelledError:\n", "R09.1"),
    Mutant("drain-unguarded", F, "            try:\n                await self.drain_writers()\n            except asyncio.CancelledError as e:\n                cancelled = e\n                break\n",
           "            await self.drain_writers()\n", "R09.4"),
    Mutant("semaphore-bound-50", F, "collections.defaultdict(lambda: asyncio.Semaphore(5))", "collections.defaultdict(lambda: asyncio.Semaphore(50))", "R09.3"),
    Mutant("semaphore-shared-not-fresh", F, "self.max_conns = collections.defaultdict(lambda: asyncio.Semaphore(5))",
           "self.max_conns = collections.defaultdict(lambda: asyncio.Semaphore(5))\n        self.max_conns[None] = asyncio.Semaphore(1000)", "R09.3"),
    Mutant("semaphore-keyed-by-sockname", F, "        max_conns = self.max_conns[command.connection.address]\n", "        max_conns = self.max_conns[command.connection.sockname]\n", "R09.3"),
    Mutant("pop-skipped-when-cancelled", F, "        self.transports.pop(connection)\n\n        if cancelled:\n            raise cancelled\n",
           "        if cancelled:\n            raise cancelled\n        self.transports.pop(connection)\n", "R09.4"),
    Mutant("pop-inside-try-close", F, "            writer.close()\n        except OSError:\n            pass\n        self.transports.pop(connection)\n",
           "            writer.close()\n            self.transports.pop(connection)\n        except OSError:\n            pass\n", "R09.4"),
    Mutant("writer-not-closed-on-exit", F, "            assert writer\n            writer.close()\n        except OSError:\n            pass\n        self.transports.pop(connection)",
           "            assert writer\n        except OSError:\n            pass\n        self.transports.pop(connection)", "R09.4"),
]
