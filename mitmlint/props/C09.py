"""C09 - connection lifecycle events pair up; at most five upstream connections per destination.

Decided (path facts of ``mitmproxy/proxy/server.py``; every path of the function, exceptional exits included):
  R09.1 ``open_connection`` (``handle_connection`` inlined): no address -> none of the server hooks; otherwise exactly one
        ``ServerConnectHook``, followed by exactly one of ``ServerConnectedHook`` | ``ServerConnectErrorHook``; every
        ``ServerConnectedHook`` is followed by exactly one ``ServerDisconnectedHook`` on *all* exits (return, re-raised
        cancellation); an ``OpenConnectionCompleted`` answer is sent on every path.  The six lifecycle hook classes are
        instantiated nowhere else in the package.
  R09.2 ``handle_client``: ``ClientConnectedHook`` is the first hook, ``ClientDisconnectedHook`` fires exactly once on every path
        and only after the connection-handler task was awaited; afterwards every remaining transport handler is cancelled and
        awaited; the killed-client branch closes the client writer.
  R09.3 connect call, connected hook, ``handle_connection`` and disconnected hook all lie inside
        ``async with self.max_conns[<conn>.address]``; ``max_conns`` is a ``defaultdict`` producing ``asyncio.Semaphore(n)``,
        1 <= n <= 5, written only in ``__init__``.
  R09.4 ``handle_connection`` removes ``self.transports[connection]`` exactly once on every exit (EOF, OSError, close error,
        cancellation re-raised after the pop) and closes the writer before.
Not decided: asyncio scheduling.  Refinement (printed in the evidence): exceptions/cancellation are modelled at every statement
of a ``try`` body for the classes its handlers name (i.e. where the code itself guards); awaits outside such a try
(``server_event``, ``handle_hook``) are assumed not to be interrupted.  ``raise AssertionError`` paths are treated like failed
``assert`` (not behaviours).
"""

from __future__ import annotations

import ast

from ..core import AnalysisError
from ..core import norm
from ..model import attr_chain
from ..model import call_name
from ..model import calls_in
from ..model import walk_in_order
from ..paths import count
from ..paths import index_of
from ..paths import traces_of
from ..selftest import Mutant
from ._helpers_B import FlowSpec

PROP = "C09"
REG = {
    "strength": "partial",
    "technique": "CFG path enumeration with implicit exception edges into the code's own handlers, helper inlining, with-region events; constant/table checks",
    "claim": "on every modelled path of open_connection / handle_client / handle_connection the lifecycle hooks pair up as stated, the "
    "connect-and-serve region is inside the per-address semaphore (bound <= 5), and the transport entry is removed on every exit.",
    "note": "Cancellation is modelled only where the code guards it (try bodies whose handlers name the exception); server_event and "
    "handle_hook awaits are assumed not to be interrupted. Loops unrolled once.",
}
F = "mitmproxy/proxy/server.py"
SH = "mitmproxy/proxy/server_hooks.py"

S_CONNECT, S_CONNECTED, S_ERR, S_DISC = "ServerConnectHook", "ServerConnectedHook", "ServerConnectErrorHook", "ServerDisconnectedHook"
C_CONN, C_DISC = "ClientConnectedHook", "ClientDisconnectedHook"
LIFECYCLE = (S_CONNECT, S_CONNECTED, S_ERR, S_DISC, C_CONN, C_DISC)
CONNECT_CALLS = ("asyncio.open_connection", "mitmproxy_rs.udp.open_udp_connection")


def is_hook(name=None):
    return lambda e: e[0] == "hook" and (name is None or e[1] == name)


def _terminal(res):
    """terminal paths that are behaviours (assertion failures excluded)"""
    return [(t, how, st) for t, how, st in res if how != "raise:AssertionError"]


def _r09_1(ctx):
    m = ctx.model
    oc = ctx.func(F, "ConnectionHandler.open_connection")
    hconn = ctx.func(F, "ConnectionHandler.handle_connection")
    for h in LIFECYCLE:
        m.cls(SH, h)

    def resolver(call):
        return hconn if call_name(call) == "self.handle_connection" else None

    def keep(ev):
        if ev[0] == "hook":
            return True
        if ev[0] == "call" and ev[1].endswith("OpenConnectionCompleted"):
            return True
        return False

    res, eng = traces_of(oc, FlowSpec(keep=keep, resolver=resolver))
    ctx.require("handle_connection" in eng.inlined, "open_connection no longer awaits self.handle_connection(...)")
    term = _terminal(res)
    ctx.paths += len(term)
    where = (F, "ConnectionHandler.open_connection", oc)
    bad = {"no-hooks-without-address": 0, "one-outcome": 0, "disconnect": 0, "answer": 0}
    kinds = set()
    for t, how, st in term:
        hooks = [e[1] for e in t if e[0] == "hook"]
        unknown = [h for h in hooks if h not in LIFECYCLE]
        ctx.require(not unknown, f"open_connection fires hooks the rule does not know: {unknown}")
        n_connect, n_ok, n_err, n_disc = (hooks.count(x) for x in (S_CONNECT, S_CONNECTED, S_ERR, S_DISC))
        kinds.add((n_connect, n_ok, n_err, n_disc, how.split(":")[0]))
        if n_connect == 0:
            if hooks:
                bad["no-hooks-without-address"] += 1
        else:
            i = index_of(t, is_hook(S_CONNECT))
            before = [e for e in t[:i] if e[0] == "hook"]
            if n_connect != 1 or n_ok + n_err != 1 or before:
                bad["one-outcome"] += 1
        # every connected is followed by exactly one disconnected
        if n_disc != n_ok or (n_ok and index_of(t, is_hook(S_DISC)) < index_of(t, is_hook(S_CONNECTED))):
            bad["disconnect"] += 1
        # the layer is answered exactly once (it is blocked on OpenConnection), before serving the connection
        n_ans = count(t, lambda e: e[0] == "call" and e[1].endswith("OpenConnectionCompleted"))
        if n_ans != 1:
            bad["answer"] += 1
    ctx.require(any(k[0] == 0 for k in kinds) and any(k[1] >= 1 for k in kinds) and any(k[2] >= 1 for k in kinds),
                f"open_connection: expected a no-address path, a connected path and a connect-error path, got {sorted(kinds)}")
    ctx.require(any(k[4] == "raise" and k[1] == 1 for k in kinds), "open_connection: the exceptional exit of handle_connection is no longer modelled")
    ctx.note(f"R09.1 open_connection path kinds (connect, connected, error, disconnected, exit): {sorted(kinds)}")
    ctx.check(bad["no-hooks-without-address"] == 0, "R09.1", where, "server hooks on a path without ServerConnectHook",
              f"{bad['no-hooks-without-address']} path(s) fire server_connected/error/disconnected without a preceding server_connect", desc="no hook without server_connect")
    ctx.check(bad["one-outcome"] == 0, "R09.1", where, "exactly one of ServerConnectedHook | ServerConnectErrorHook after ServerConnectHook",
              f"{bad['one-outcome']} path(s) fire server_connect and then not exactly one of server_connected / server_connect_error", desc="server_connect -> exactly one outcome")
    ctx.check(bad["disconnect"] == 0, "R09.1", where, "ServerDisconnectedHook after ServerConnectedHook on every exit",
              f"{bad['disconnect']} path(s) (exceptional exits included) do not pair server_connected with exactly one later server_disconnected", desc="server_connected -> exactly one server_disconnected on all exits")
    ctx.check(bad["answer"] == 0, "R09.1", where, "OpenConnectionCompleted exactly once",
              f"{bad['answer']} path(s) do not answer the OpenConnection command exactly once", desc="OpenConnectionCompleted exactly once per path")
    # cancellation between server_connect and its outcome: every wait on an external awaitable there (the per-address slot, the
    # connect call) must sit inside a handler for CancelledError - the path enumeration above then shows that the handler reports an outcome
    def _hook_line(name):
        ls = [c.lineno for c in calls_in(oc) if call_name(c).split(".")[-1] == name]
        ctx.require(ls, f"open_connection no longer constructs {name}")
        return ls

    lo, hi = min(_hook_line(S_CONNECT)), min(_hook_line(S_CONNECTED))

    def _guarded(node):
        p, child = getattr(node, "_parent", None), node
        while p is not None and p is not oc:
            if isinstance(p, ast.Try) and child in p.body:
                for h in p.handlers:
                    names = [""] if h.type is None else [e.attr if isinstance(e, ast.Attribute) else getattr(e, "id", "") for e in (h.type.elts if isinstance(h.type, ast.Tuple) else [h.type])]
                    if any(x in ("", "CancelledError", "BaseException") for x in names):
                        return True
            child, p = p, getattr(p, "_parent", None)
        return False

    waits = []
    for n in walk_in_order(oc):
        if not (lo < getattr(n, "lineno", 0) < hi):
            continue
        if isinstance(n, ast.Await):
            callee = call_name(n.value) if isinstance(n.value, ast.Call) else norm(n.value)
            if callee.startswith("self."):
                continue  # handle_hook / server_event: see the stated cancellation model
            waits.append((n, callee))
        elif isinstance(n, ast.AsyncWith):
            waits.append((n, "async with " + ", ".join(norm(i.context_expr) for i in n.items)))
    ctx.require(len(waits) >= 2, f"open_connection: expected the slot wait and the connect call between server_connect and server_connected, found {[w[1] for w in waits]}")
    for n, what in waits:
        ctx.check(_guarded(n), "R09.1", (F, "ConnectionHandler.open_connection", n), f"wait `{what}` between server_connect and its outcome is cancellation-guarded",
                  f"`{what}` can be cancelled (client disconnect) after server_connect fired, outside any handler for asyncio.CancelledError: "
                  "the attempt then has neither server_connected nor server_connect_error and the layer's OpenConnection is never answered", desc=f"{what}: inside a CancelledError handler")
    # who may fire
    sites = {}
    for p in sorted((m.repo / "mitmproxy").rglob("*.py")):
        rel = p.relative_to(m.repo).as_posix()
        if rel == SH or rel.startswith("mitmproxy/contrib/"):
            continue
        src = m.source(rel)
        if not any(h + "(" in src for h in LIFECYCLE):
            continue
        for c in calls_in(m.module(rel).tree):
            cls = call_name(c).split(".")[-1]
            if cls in LIFECYCLE:
                from ..model import qual_of

                sites.setdefault(cls, []).append((rel, qual_of(c), c))
    for cls in LIFECYCLE:
        want = "ConnectionHandler.handle_client" if cls.startswith("Client") else "ConnectionHandler.open_connection"
        got = sites.get(cls, [])
        ctx.require(got, f"{cls} is instantiated nowhere (anchor vanished)")
        for rel, q, c in got:
            ctx.check(rel == F and q == want, "R09.1", (rel, q, c), f"{cls}(...) instantiated outside {want}",
                      "a lifecycle hook is fired from a second place: the once-per-connection pairing is no longer decided by open_connection/handle_client",
                      desc=f"{cls} only in {want}")
    ctx.expect_instances("R09.1", 4 + 6 + 2)  # 4 path facts + at least one instantiation site per lifecycle hook class (7 today)


def _r09_2(ctx):
    hc = ctx.func(F, "ConnectionHandler.handle_client")

    def keep(ev):
        if ev[0] == "hook":
            return True
        if ev[0] == "await" and ev[1] == "asyncio.wait":
            return True
        if ev[0] == "call" and (ev[1] == "self.handle_connection" or ev[1].endswith(".cancel") or ev[1].endswith(".close")):
            return True
        if ev[0] == "cond" and ev[1] in ("self.client.error", "self.transports") or ev[0] == "cond" and ev[1].endswith(".handler"):
            return True
        return ev[0] == "loop"

    res, eng = traces_of(hc, FlowSpec(keep=keep, loops=True))
    term = _terminal(res)
    ctx.paths += len(term)
    where = (F, "ConnectionHandler.handle_client", hc)
    bad = {"first": 0, "once": 0, "after-handler": 0, "close": 0, "cancel": 0}
    served = cancelled = 0
    loops = set()
    for t, how, st in term:
        hooks = [e[1] for e in t if e[0] == "hook"]
        ctx.require(all(h in (C_CONN, C_DISC) for h in hooks), f"handle_client fires hooks the rule does not know: {hooks}")
        if not hooks or hooks[0] != C_CONN or hooks.count(C_CONN) != 1:
            bad["first"] += 1
        if hooks.count(C_DISC) != 1 or hooks[-1:] != [C_DISC]:
            bad["once"] += 1
            continue
        d = index_of(t, is_hook(C_DISC))
        s = index_of(t, lambda e: e[0] == "call" and e[1] == "self.handle_connection")
        if s >= 0:
            served += 1
            w = index_of(t, lambda e: e == ("await", "asyncio.wait"), s)
            if not (0 <= w < d) or s > d:
                bad["after-handler"] += 1
        if any(e[0] == "cond" and e[1] == "self.client.error" and e[2] for e in t[:d]):
            if s >= 0 or not any(e[0] == "call" and e[1].endswith(".close") for e in t[:d]):
                bad["close"] += 1
        # after the hook: cancel + await every remaining handler
        tail = t[d + 1 :]
        for k, e in enumerate(tail):
            if e[0] == "loop" and e[1]:
                loops.add(e[2])
                rest = tail[k + 1 :]
                hcond = next((x for x in rest if x[0] in ("cond", "loop")), None)
                if hcond is not None and hcond[0] == "cond" and hcond[1].endswith(".handler") and hcond[2]:
                    cancelled += 1
                    c = index_of(rest, lambda x: x[0] == "call" and x[1].endswith(".handler.cancel"))
                    w = index_of(rest, lambda x: x == ("await", "asyncio.wait"), max(c, 0))
                    if c < 0 or w < 0:
                        bad["cancel"] += 1
    ctx.require(served > 0, "handle_client: no path creates the client connection handler (anchor changed)")
    ctx.require(cancelled > 0 and len(loops) == 1, "handle_client: the loop cancelling the remaining transports was not found after ClientDisconnectedHook")
    loop = next(iter(loops))
    ctx.require(norm(loop.iter) in ("self.transports.values()", "list(self.transports.values())"), f"handle_client: cancel loop iterates {norm(loop.iter)} (not modelled)")
    ctx.check(bad["first"] == 0, "R09.2", where, "ClientConnectedHook first, once", f"{bad['first']} path(s) do not start with exactly one client_connected", desc="client_connected first and once")
    ctx.check(bad["once"] == 0, "R09.2", where, "ClientDisconnectedHook exactly once, last hook", f"{bad['once']} path(s) do not end with exactly one client_disconnected", desc="client_disconnected exactly once on every path")
    ctx.check(bad["after-handler"] == 0, "R09.2", where, "await asyncio.wait([handler]) before ClientDisconnectedHook",
              f"{bad['after-handler']} path(s) fire client_disconnected without having awaited the connection handler task", desc="client_disconnected only after the handler finished")
    ctx.check(bad["close"] == 0, "R09.2", where, "killed client: writer closed", f"{bad['close']} path(s) with client.error set still serve the client or do not close its writer", desc="client.error branch closes the writer and serves nothing")
    ctx.check(bad["cancel"] == 0, "R09.2", where, "remaining transports cancelled and awaited",
              f"{bad['cancel']} path(s) leave a transport handler running after client_disconnected (no cancel / no await)", desc="remaining handlers cancelled and awaited")
    ctx.expect_instances("R09.2", 5)


def _r09_3(ctx):
    oc = ctx.func(F, "ConnectionHandler.open_connection")
    hconn_name = "self.handle_connection"
    # the per-address limit is held either by `async with self.max_conns[key]:` or by the explicit idiom
    #   lim = self.max_conns[key]; await lim.acquire(); try: ... finally: lim.release()
    withs = [n for n in walk_in_order(oc) if isinstance(n, ast.AsyncWith) and any(norm(i.context_expr).startswith("self.max_conns[") for i in n.items)]
    aliases = [n for n in walk_in_order(oc) if isinstance(n, ast.Assign) and len(n.targets) == 1 and isinstance(n.targets[0], ast.Name) and norm(n.value).startswith("self.max_conns[")]
    ctx.require(len(withs) + len(aliases) == 1, f"open_connection: {len(withs)} `async with self.max_conns[...]` blocks and {len(aliases)} `x = self.max_conns[...]` aliases (exactly one holder modelled)")
    if withs:
        sem = next(i.context_expr for i in withs[0].items if norm(i.context_expr).startswith("self.max_conns["))
        anchor_node = withs[0]
        ACQ = REL_ = None
    else:
        sem = aliases[0].value
        anchor_node = aliases[0]
        alias = aliases[0].targets[0].id
        ACQ, REL_ = f"{alias}.acquire", f"{alias}.release"
        others = [n for n in ast.walk(oc) if isinstance(n, ast.Name) and n.id == alias and isinstance(n.ctx, ast.Load) and not (isinstance(getattr(n, "_parent", None), ast.Attribute) and n._parent.attr in ("acquire", "release"))]
        ctx.require(not others, f"open_connection: the semaphore alias `{alias}` is used other than by .acquire()/.release() (not modelled)")
    key = sem.slice
    key_chain = attr_chain(key)
    ctx.require(key_chain.count(".") >= 1, f"max_conns is keyed by {norm(key)} (an attribute of the connection is modelled)")
    conn_prefix = key_chain.rsplit(".", 1)[0]
    SEM = norm(sem)

    def keep(ev):
        if ev[0] in ("enter", "exit"):
            return ev[1] == SEM
        if ACQ and ev[0] in ("await", "call") and ev[1] in (ACQ, REL_):
            return True
        if ev[0] == "hook":
            return ev[1] in (S_CONNECTED, S_DISC)
        return ev[0] in ("await", "call") and (ev[1] in CONNECT_CALLS or ev[1] == hconn_name)

    res, eng = traces_of(oc, FlowSpec(keep=keep))
    term = _terminal(res)
    ctx.paths += len(term)
    outside = set()
    seen = set()
    unbalanced = 0
    for t, how, st in term:
        depth = 0
        for e in t:
            if e[0] == "except" or (ACQ and e == ("call", ACQ)):
                continue  # (an interrupted acquire raises before its await event is recorded: no slot is held in its handler)
            if e[0] == "enter" or (ACQ and e == ("await", ACQ)):
                depth += 1
            elif e[0] == "exit" or (ACQ and e == ("call", REL_)):
                depth -= 1
            else:
                label = e[1]
                seen.add(label)
                if depth <= 0:
                    outside.add(label)
        if depth != 0:
            unbalanced += 1
    ctx.require({S_CONNECTED, S_DISC, hconn_name} <= seen and seen & set(CONNECT_CALLS), f"open_connection: connect/serve events not found ({sorted(seen)})")
    where = (F, "ConnectionHandler.open_connection", anchor_node)
    if ACQ:
        ctx.check(unbalanced == 0, "R09.3", where, f"{ACQ}() paired with {REL_}() on every exit",
                  f"{unbalanced} exit path(s) (exceptional ones included) keep or over-release a slot of max_conns[address]: the limit of five drifts", desc=f"{ACQ} / {REL_} balanced on all {len(term)} exits")
    for label in sorted(seen):
        ctx.check(label not in outside, "R09.3", where, f"{label} outside the per-address semaphore",
                  "part of the connect-and-serve region runs without holding max_conns[address]: more than five connections to one address can be open",
                  desc=f"{label} inside async with {SEM}")
    # the key is the address that is being connected to
    connects = [c for c in calls_in(oc) if call_name(c) in CONNECT_CALLS]
    for c in connects:
        star = [a.value for a in c.args if isinstance(a, ast.Starred)]
        ctx.check(len(star) == 1 and attr_chain(star[0]) == key_chain, "R09.3", (F, "ConnectionHandler.open_connection", c), f"{call_name(c)}(*{key_chain})",
                  f"the connection is made to {norm(star[0]) if star else '?'} but the semaphore is keyed by {key_chain}", desc=f"{call_name(c)} connects to the semaphore key")
    serve = [c for c in calls_in(oc, hconn_name)]
    for c in serve:
        ctx.require(len(c.args) == 1 and attr_chain(c.args[0]) == conn_prefix, f"handle_connection serves {norm(c)} but the semaphore is keyed by {key_chain}")
    # the semaphore table
    init = ctx.func(F, "ConnectionHandler.__init__")
    mod = ctx.model.module(F)
    writes = []
    for n in ast.walk(mod.tree):
        if isinstance(n, (ast.Assign, ast.AugAssign, ast.AnnAssign)):
            targets = n.targets if isinstance(n, ast.Assign) else [n.target]
            if isinstance(n, ast.AnnAssign) and n.value is None:
                continue
            for t in targets:
                base = t.value if isinstance(t, ast.Subscript) else t
                if attr_chain(base).endswith(".max_conns"):
                    writes.append(n)
    ctx.require(len(writes) >= 1, "no assignment to max_conns found")
    n_ok = None
    for w in writes:
        v = getattr(w, "value", None)
        from ..model import enclosing_func

        ok = (
            enclosing_func(w) is init
            and isinstance(w, ast.Assign)
            and isinstance(v, ast.Call)
            and call_name(v).split(".")[-1] == "defaultdict"
            and len(v.args) == 1
            and isinstance(v.args[0], ast.Lambda)
            and not v.args[0].args.args
            and isinstance(v.args[0].body, ast.Call)
            and call_name(v.args[0].body) in ("asyncio.Semaphore", "asyncio.BoundedSemaphore")
            and len(v.args[0].body.args) == 1
            and isinstance(v.args[0].body.args[0], ast.Constant)
            and isinstance(v.args[0].body.args[0].value, int)
        )
        if ok:
            n_ok = v.args[0].body.args[0].value
        ctx.check(ok and 1 <= n_ok <= 5, "R09.3", (F, "ConnectionHandler.__init__", w), norm(w),
                  "max_conns is not a defaultdict of fresh asyncio.Semaphore(n) with 1 <= n <= 5 created in __init__ (the bound of the property is five)",
                  desc=f"max_conns = defaultdict(lambda: Semaphore({n_ok}))")
    rel = [c for c in calls_in(mod.tree) if ".max_conns" in call_name(c) and call_name(c).split(".")[-1] in ("release", "acquire", "pop", "clear", "__delitem__")]
    ctx.check(not rel, "R09.3", (F, "<module>", rel[0] if rel else 0), "manual acquire/release of max_conns", "the per-address semaphore is manipulated outside the async with", desc="no manual acquire/release/pop of max_conns")
    ctx.expect_instances("R09.3", 5 + 2 + 1 + 1)


def _r09_4(ctx):
    hconn = ctx.func(F, "ConnectionHandler.handle_connection")
    params = [a.arg for a in hconn.args.args]
    ctx.require(len(params) == 2, "handle_connection signature changed")
    conn = params[1]
    POP = "self.transports.pop"

    def keep(ev):
        return (ev[0] == "call" and (ev[1] == POP or ev[1].endswith(".close"))) or ev[0] == "except"

    res, eng = traces_of(hconn, FlowSpec(keep=keep, unroll=1))
    term = _terminal(res)
    ctx.paths += len(term)
    pops = calls_in(hconn, POP)
    ctx.require(pops, "handle_connection no longer calls self.transports.pop (anchor changed)")
    for c in pops:
        ctx.require(c.args and isinstance(c.args[0], ast.Name) and c.args[0].id == conn, f"handle_connection pops {norm(c)} - not its own connection")
    bad_pop = bad_close = 0
    hows = set()
    for t, how, st in term:
        hows.add(how)
        if count(t, lambda e: e == ("call", POP)) != 1:
            bad_pop += 1
        i = index_of(t, lambda e: e == ("call", POP))
        # the writer is closed (or closing it failed with OSError) before the entry is forgotten
        closed = any(e[0] == "call" and e[1].endswith(".close") for e in t[: max(i, 0)]) or any(e == ("except", "OSError") for e in t[: max(i, 0)])
        if not closed:
            bad_close += 1
    ctx.require("return" in hows and any(h.startswith("raise:") for h in hows), f"handle_connection: expected returning and re-raising exits, got {sorted(hows)}")
    where = (F, "ConnectionHandler.handle_connection", hconn)
    ctx.check(bad_pop == 0, "R09.4", where, "self.transports.pop(connection) exactly once on every exit",
              f"{bad_pop} exit path(s) (of {len(term)}) leave the connection in self.transports or pop it twice: resources remain after the connection ended", desc=f"pop exactly once on all {len(term)} exits ({sorted(hows)})")
    ctx.check(bad_close == 0, "R09.4", where, "writer.close() before the pop", f"{bad_close} exit path(s) forget the transport without closing its writer", desc="writer closed before the pop on all exits")
    # cancellation can be delivered at every await that really suspends.  The path enumeration above models it where the code
    # has a handler; an await that suspends on an external awaitable *outside* any CancelledError handler lets the exception
    # leave the function before the close / pop at its end.
    m = ctx.model

    def external_awaits(fn, seen):
        """awaits in fn (transitively through awaited methods of the same class) whose awaitable is not repository code"""
        out = []
        for n in ast.walk(fn):
            if not isinstance(n, ast.Await):
                continue
            v = n.value
            callee = call_name(v) if isinstance(v, ast.Call) else ""
            if callee.startswith("self.") and callee.count(".") == 1 and m.has(F, "ConnectionHandler." + callee[5:]):
                name = callee[5:]
                if name not in seen:
                    seen.add(name)
                    out.extend(external_awaits(m.func(F, "ConnectionHandler." + name), seen))
            else:
                out.append(n)
        return out

    def guarded(node):
        p = getattr(node, "_parent", None)
        child = node
        while p is not None and p is not hconn:
            if isinstance(p, ast.Try) and child in p.body:
                names = [last for h in p.handlers for last in ([""] if h.type is None else [e.attr if isinstance(e, ast.Attribute) else getattr(e, "id", "") for e in (h.type.elts if isinstance(h.type, ast.Tuple) else [h.type])])]
                if any(x in ("", "CancelledError", "BaseException") for x in names):
                    return True
                if any(isinstance(c, ast.Call) and call_name(c) == POP for st in p.finalbody for c in ast.walk(st)):
                    return True
            child, p = p, getattr(p, "_parent", None)
        return False

    n_susp = 0
    for aw in [n for n in ast.walk(hconn) if isinstance(n, ast.Await)]:
        v = aw.value
        callee = call_name(v) if isinstance(v, ast.Call) else norm(v)
        if callee.startswith("self.") and callee.count(".") == 1 and m.has(F, "ConnectionHandler." + callee[5:]):
            ext = external_awaits(m.func(F, "ConnectionHandler." + callee[5:]), {callee[5:]})
            if not ext:
                continue  # suspends at most on an (uncontended) lock: the stated cancellation model of C09
            why = f"{callee} awaits {norm(ext[0].value)[:60]}"
        else:
            why = "external awaitable"
        n_susp += 1
        ctx.check(guarded(aw), "R09.4", (F, "ConnectionHandler.handle_connection", aw), f"await {callee}(...) inside a CancelledError handler",
                  f"`{norm(aw)[:80]}` can be cancelled while suspended ({why}) but is not inside a handler for asyncio.CancelledError: the exception leaves handle_connection "
                  "before the writer is closed and self.transports.pop(connection) runs - the connection's resources remain after it ended",
                  desc=f"suspending await {callee} is cancellation-guarded")
    ctx.require(n_susp >= 3, f"handle_connection: expected at least 3 suspending awaits (read, drain, wait), found {n_susp}")
    ctx.assume("`await self.server_event(...)` only waits for an asyncio.Lock that is never held across a suspension (its body has no await): cancellation is not modelled there")
    ctx.expect_instances("R09.4", 2 + 3)


def check(ctx):
    ctx.rule("R09.1", "open_connection: server_connect -> exactly one of connected|error; connected -> exactly one disconnected on all exits; hooks fired nowhere else")
    ctx.rule("R09.2", "handle_client: client_connected first, client_disconnected exactly once after the handler finished; remaining transports cancelled and awaited")
    ctx.rule("R09.3", "connect-and-serve region inside async with max_conns[address]; max_conns = defaultdict(Semaphore(n<=5))")
    ctx.rule("R09.4", "handle_connection pops its transport exactly once on every exit, after closing the writer")
    ctx.assume("cancellation/OSError are modelled at every statement of a try body whose handlers name them; awaits of server_event/handle_hook outside such a try are not interrupted")
    ctx.assume("`raise AssertionError(...)` paths are not behaviours (same as failed assert)")
    ctx.trust("asyncio.Semaphore / async with acquire-release pairing")
    _r09_1(ctx)
    _r09_2(ctx)
    _r09_3(ctx)
    _r09_4(ctx)


MUTANTS = [
    Mutant("disconnect-hook-not-in-finally", F,
           "                try:\n                    await self.handle_connection(command.connection)\n                finally:\n                    self.log(f\"server disconnect {addr}\")",
           "                await self.handle_connection(command.connection)\n                if True:\n                    self.log(f\"server disconnect {addr}\")", "R09.1"),
    Mutant("killed-before-connect-no-error-hook", F,
           "            await self.handle_hook(server_hooks.ServerConnectErrorHook(hook_data))\n            await self.server_event(\n                events.OpenConnectionCompleted(command, f\"Connection killed: {err}\")",
           "            await self.server_event(\n                events.OpenConnectionCompleted(command, f\"Connection killed: {err}\")", "R09.1"),
    Mutant("connect-error-hook-only-for-oserror", F,
           "                await self.handle_hook(server_hooks.ServerConnectErrorHook(hook_data))\n                await self.server_event(events.OpenConnectionCompleted(command, err))\n",
           "                if not isinstance(e, asyncio.CancelledError):\n                    await self.handle_hook(server_hooks.ServerConnectErrorHook(hook_data))\n                await self.server_event(events.OpenConnectionCompleted(command, err))\n", "R09.1"),
    Mutant("no-address-fires-connect-error", F,
           "            self.log(f\"Cannot open connection, no hostname given.\")\n",
           "            self.log(f\"Cannot open connection, no hostname given.\")\n            await self.handle_hook(server_hooks.ServerConnectErrorHook(None))\n", "R09.1"),
    Mutant("hook-task-fires-second-disconnect", F,
           "        if hook.blocking:\n            await self.server_event(events.HookCompleted(hook))\n",
           "        if hook.blocking:\n            await self.server_event(events.HookCompleted(hook))\n        else:\n            await self.handle_hook(server_hooks.ClientDisconnectedHook(self.client))\n", "R09.1"),
    Mutant("client-disconnected-only-when-served", F,
           "        self.client.timestamp_end = time.time()\n        await self.handle_hook(server_hooks.ClientDisconnectedHook(self.client))\n",
           "        self.client.timestamp_end = time.time()\n        if not self.client.error:\n            await self.handle_hook(server_hooks.ClientDisconnectedHook(self.client))\n", "R09.2"),
    Mutant("client-handler-not-awaited", F, "            await asyncio.wait([handler])\n            if not handler.cancelled() and (e := handler.exception()):",
           "            await asyncio.sleep(0)\n            if handler.done() and not handler.cancelled() and (e := handler.exception()):", "R09.2"),
    Mutant("remaining-transports-not-cancelled", F, "                if io.handler:\n                    io.handler.cancel(\"client disconnected\")\n", "                if io.handler:\n                    pass\n", "R09.2"),
    Mutant("semaphore-released-before-serving", F,
           "                await self.server_event(events.OpenConnectionCompleted(command, None))\n\n                try:\n                    await self.handle_connection(command.connection)\n",
           "                await self.server_event(events.OpenConnectionCompleted(command, None))\n                max_conns.release()\n\n                try:\n                    await self.handle_connection(command.connection)\n", "R09.3"),
    Mutant("semaphore-not-released", F, "        finally:\n            max_conns.release()\n", "        finally:\n            pass\n", "R09.3"),
    # reverse of the F-C09 fix (2faf2dc6e): the slot is awaited outside any CancelledError handler
    Mutant("F-C09-reverted-slot-wait-unguarded", F,
           "        try:\n            await max_conns.acquire()\n        except asyncio.CancelledError:\n",
           "        await max_conns.acquire()\n        try:\n            pass\n        except asyncio.CancelledError:\n", "R09.1"),
    Mutant("drain-unguarded", F, "            try:\n                await self.drain_writers()\n            except asyncio.CancelledError as e:\n                cancelled = e\n                break\n",
           "            await self.drain_writers()\n", "R09.4"),
    Mutant("semaphore-bound-50", F, "collections.defaultdict(lambda: asyncio.Semaphore(5))", "collections.defaultdict(lambda: asyncio.Semaphore(50))", "R09.3"),
    Mutant("semaphore-shared-not-fresh", F, "self.max_conns = collections.defaultdict(lambda: asyncio.Semaphore(5))",
           "self.max_conns = collections.defaultdict(lambda: asyncio.Semaphore(5))\n        self.max_conns[None] = asyncio.Semaphore(1000)", "R09.3"),
    Mutant("semaphore-keyed-by-sockname", F, "        max_conns = self.max_conns[command.connection.address]\n", "        max_conns = self.max_conns[command.connection.sockname]\n", "R09.3"),
    Mutant("pop-skipped-when-cancelled", F, "        self.transports.pop(connection)\n\n        if cancelled:\n            raise cancelled\n",
           "        if cancelled:\n            raise cancelled\n        self.transports.pop(connection)\n", "R09.4"),
    Mutant("pop-inside-try-close", F, "            writer.close()\n        except OSError:\n            pass\n        self.transports.pop(connection)\n",
           "            writer.close()\n            self.transports.pop(connection)\n        except OSError:\n            pass\n", "R09.4"),
    Mutant("writer-not-closed-on-exit", F, "            assert writer\n            writer.close()\n        except OSError:\n            pass\n        self.transports.pop(connection)",
           "            assert writer\n        except OSError:\n            pass\n        self.transports.pop(connection)", "R09.4"),
]
