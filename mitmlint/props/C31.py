"""C31 - Content-Encoding round-trips and the codec cache is transparent.

Decided:
  R31.1 memo-key completeness and entry consistency of the shared one-entry cache in net/encoding.py, for both
        ``decode`` and ``encode``: the coding is lower-cased once before it is used as table key / cache key; the
        cache-hit predicate compares EVERY parameter that influences the result (input, lower-cased coding, errors)
        with the matching field of the entry and returns the opposite field; the entry is written in namedtuple field
        order with (input, coding, errors, result) where ``result`` was computed on that very path from exactly these
        values by the codec of the right direction; nobody else writes ``_cache``.
  R31.2 ``custom_decode`` and ``custom_encode`` have the same keys and every key maps to the decode_x / encode_x pair
        of the same codec x (or ``identity`` on both sides).
  R31.3 ``Message.set_content``: encodes with the coding read from the Content-Encoding header - the same header
        ``get_content`` decodes with; an invalid coding removes the header and stores the body raw; unless
        Transfer-Encoding is present, Content-Length := len(raw_content) after the last raw_content assignment.
        ``get_content`` never returns a ``str`` codec result.  ``Message.decode`` reads the content, removes the header
        and only then re-assigns the content; ``Message.encode`` sets the header before re-assigning the raw body.
NOT decided: that the codecs themselves round-trip (zlib/brotli/zstd are libraries); that a cached entry produced by
decode is byte-identical to what encode would produce (by design it is not).
Dropped from DESIGN R31.1: the ``isinstance(x, bytes)`` conjunct and "only the five compressing codecs are cached" are
NOT armed - removing either does not change any result (str inputs never equal a cached bytes body; entries of other
codecs would be keyed completely as well), so they are not necessary conditions.
"""

from __future__ import annotations

import ast

from ..model import attr_chain
from ..model import last_attr
from ..selftest import Mutant
from ._helpers_E import dict_literal
from ._helpers_E import expect
from ._helpers_E import params
from ._helpers_E import paths
from ._helpers_E import show

PROP = "C31"
REG = {
    "strength": "partial",
    "technique": "memo-key completeness (hit predicate vs. parameters vs. entry written, per path) + codec table symmetry + path ordering rules on Message",
    "claim": "the shared codec cache is keyed by every parameter that influences the result and is filled only with results computed "
    "from exactly the keyed values; encode/decode tables are symmetric; Message.set_content/get_content/decode/encode agree on the "
    "Content-Encoding header, fall back to the raw body for invalid codings and keep Content-Length = len(raw_content).",
    "note": "Codec libraries are trusted. Implicit exception edges: any call inside a try body may raise what the handlers catch.",
}

ENC = "mitmproxy/net/encoding.py"
HTTP = "mitmproxy/http.py"
CE = "content-encoding"


def _conjuncts(e):
    if isinstance(e, ast.BoolOp) and isinstance(e.op, ast.And):
        out = []
        for v in e.values:
            out += _conjuncts(v)
        return out
    return [e]


def _eq_sides(e):
    if isinstance(e, ast.Compare) and len(e.ops) == 1 and isinstance(e.ops[0], ast.Eq):
        return frozenset((ast.unparse(e.left), ast.unparse(e.comparators[0])))
    return None


def _local_def(fn, name):
    src = [s.value for s in ast.walk(fn) if isinstance(s, ast.Assign) and any(isinstance(t, ast.Name) and t.id == name for t in s.targets)]
    return src[0] if len(src) == 1 else None


def _cache_side(ctx, direction):
    """R31.1 for encoding.decode / encoding.encode."""
    m = ctx.model
    fn = ctx.func(ENC, direction)
    ps = params(fn, drop_self=False)
    ctx.require(len(ps) == 3, f"encoding.{direction}(input, encoding, errors) signature changed: {ps}")
    inp, enc, err = ps
    infield, outfield = ("encoded", "decoded") if direction == "decode" else ("decoded", "encoded")
    nt = m.const(ENC, "CachedDecode")
    ok = isinstance(nt, ast.Call) and last_attr(nt.func) == "namedtuple" and len(nt.args) == 2 and isinstance(nt.args[1], ast.Constant)
    ctx.require(ok, "CachedDecode is no longer a namedtuple with a literal field string")
    fields = nt.args[1].value.replace(",", " ").split()
    ctx.require(sorted(fields) == ["decoded", "encoded", "encoding", "errors"], f"CachedDecode fields changed: {fields}")
    good = True

    def fail(construct, reason, node=None):
        nonlocal good
        good = False
        ctx.fail("R31.1", (ENC, direction, node or fn), f"{direction}: {construct}", reason)

    # 1. lower-casing
    lows = [s for s in fn.body if isinstance(s, ast.Assign) and isinstance(s.value, ast.Call) and isinstance(s.value.func, ast.Attribute)
            and s.value.func.attr in ("lower", "casefold") and attr_chain(s.value.func.value) == enc and isinstance(s.targets[0], ast.Name)]
    if len(lows) != 1:
        fail("coding is not lower-cased", "mixed-case codings (e.g. GZip) miss the codec table and the cache key differs from the key written")
        encv, low_line = enc, 0
    else:
        encv, low_line = lows[0].targets[0].id, lows[0].lineno
        early = [n for n in ast.walk(fn) if isinstance(n, ast.Name) and n.id in (enc, encv) and isinstance(n.ctx, ast.Load) and n.lineno < low_line and n._parent is not lows[0].value.func]
        if encv != enc:
            early += [n for n in ast.walk(fn) if isinstance(n, ast.Name) and n.id == enc and isinstance(n.ctx, ast.Load) and n.lineno > low_line]
        if early:
            fail("coding used before/without lower-casing", "the codec table / cache are consulted with the raw header spelling", early[0])

    # 2. hit predicate
    hits = []
    for n in ast.walk(fn):
        if isinstance(n, ast.If):
            rets = [s for s in n.body if isinstance(s, ast.Return) and s.value is not None and attr_chain(s.value).startswith("_cache.")]
            if rets:
                hits.append((n, rets[0]))
    ctx.require(len(hits) == 1, f"encoding.{direction}: {len(hits)} cache-hit branches (expected one 'if <hit>: return _cache.<field>')")
    test, ret = hits[0][0].test, hits[0][1]
    if isinstance(test, ast.Name):
        d = _local_def(fn, test.id)
        ctx.require(d is not None, f"encoding.{direction}: hit flag {test.id} is not a single local definition")
        test = d
    conj = _conjuncts(test)
    ctx.require(not any(isinstance(c, ast.BoolOp) for c in conj), f"encoding.{direction}: hit predicate is not a conjunction: {ast.unparse(test)}")
    eqs = {_eq_sides(c) for c in conj if _eq_sides(c)}
    for fld, var, what in ((infield, inp, "the input body"), ("encoding", encv, "the coding"), ("errors", err, "the errors policy")):
        ctx.cells += 1
        if frozenset((f"_cache.{fld}", var)) not in eqs:
            fail(f"hit predicate lacks _cache.{fld} == {var}", f"a cache hit does not compare {what}: the result depends on what was converted earlier")
    if attr_chain(ret.value) != f"_cache.{outfield}":
        fail(f"hit returns {attr_chain(ret.value)}", f"a cache hit must return the {outfield} field", ret)

    # 3. entry written = (input, coding, errors, result) with result computed on this path from these values
    table = f"custom_{direction}"
    accepted = (f"{table}[{encv}]({inp})", f"codecs.{direction}({inp}, {encv}, {err})")
    trs, eng = paths(fn, keep=lambda e: e[0] == "assign")
    ctx.paths += len(trs)
    n_writes = 0
    for t, how in trs:
        for i, e in enumerate(t):
            if not (e[0] == "assign" and e[1] == "_cache"):
                continue
            n_writes += 1
            call = ast.parse(e[2], mode="eval").body
            okc = isinstance(call, ast.Call) and last_attr(call.func) == "CachedDecode" and (len(call.args) == 4 or (not call.args and len(call.keywords) == 4))
            ctx.require(okc, f"encoding.{direction}: cache write has an unmodelled shape: {e[2]}")
            ent = {f: ast.unparse(a) for f, a in zip(fields, call.args)} if call.args else {k.arg: ast.unparse(k.value) for k in call.keywords}
            res = ent.get(outfield)
            want = {infield: inp, "encoding": encv, "errors": err}
            wrong = {f: ent.get(f) for f, v in want.items() if ent.get(f) != v}
            if wrong:
                fail(f"cache entry {e[2]}", f"entry fields {wrong} are not the values the hit predicate compares (namedtuple order {fields})")
                continue
            src = [j for j in range(i) if t[j][0] == "assign" and t[j][1] == res]
            if not src or t[src[-1]][2] not in accepted:
                fail(f"cache entry {e[2]}", f"the cached {outfield} value '{res}' was not computed on this path by {accepted[0]} / {accepted[1]}"
                     + (f" but by {t[src[-1]][2]}" if src else " (not assigned before the write: conversion may have failed)"))
                continue
            between = [x for x in t[src[-1] + 1:i] if x[0] == "assign" and x[1] in (inp, encv, err, res)]
            if between:
                fail(f"cache entry {e[2]}", f"{between[0][1]} is reassigned between the conversion and the cache write")
    # every conversion on the function's paths uses the right direction's codec with exactly (input, coding, errors)
    rv = [s for s in ast.walk(fn) if isinstance(s, ast.Assign) and isinstance(s.value, ast.Call) and (
        (isinstance(s.value.func, ast.Subscript) and attr_chain(s.value.func.value).startswith("custom_")) or attr_chain(s.value.func).startswith("codecs."))]
    ctx.require(len(rv) == 2, f"encoding.{direction}: expected the table conversion and the codecs fallback, found {len(rv)}")
    for s in rv:
        ctx.cells += 1
        if ast.unparse(s.value) not in accepted:
            fail(f"conversion {ast.unparse(s.value)}", f"{direction} must convert with {accepted[0]} or {accepted[1]}", s)
    ctx.require(good is False or n_writes >= 1, f"encoding.{direction}: no path writes the cache (shape not recognised)")
    if good:
        ctx.ok("R31.1", f"encoding.{direction}: key = ({inp}, {encv}.lower(), {err}) complete; entry = ({', '.join(fields)}) consistent on {n_writes} writing path(s)")


def check(ctx):
    ctx.rule("R31.1", "codec cache: lower-cased coding, hit predicate compares input+coding+errors and returns the opposite field, entry written consistently after a successful conversion, no foreign writer")
    ctx.rule("R31.2", "custom_decode / custom_encode: same keys, matching decode_x / encode_x pairs")
    ctx.rule("R31.3", "Message.set_content/get_content/decode/encode: header agreement, invalid coding -> raw + header removed, Content-Length = len(raw_content), str results rejected, header updated before re-assignment")
    m = ctx.model
    ctx.trust("zlib / gzip / brotli / zstd codec round-trips")

    # ---- R31.1
    for d in ("decode", "encode"):
        _cache_side(ctx, d)
    writers = []
    for mod in [m.module(ENC)]:
        for n in ast.walk(mod.tree):
            if isinstance(n, (ast.Assign, ast.AugAssign, ast.AnnAssign)):
                tg = n.targets if isinstance(n, ast.Assign) else [n.target]
                if any(attr_chain(t) == "_cache" or attr_chain(t).startswith("_cache.") for t in tg):
                    fn = n
                    while fn is not None and not isinstance(fn, (ast.FunctionDef, ast.AsyncFunctionDef)):
                        fn = getattr(fn, "_parent", None)
                    writers.append(fn.name if fn is not None else "<module>")
    foreign = sorted(set(writers) - {"decode", "encode", "<module>"})
    ext = []
    if ctx.tier == "thorough":
        for mod in m.all_modules():
            if mod.rel != ENC and "_cache" in mod.source and "encoding._cache" in mod.source.replace(" ", ""):
                ext.append(mod.rel)
    ctx.check(not foreign and not ext, "R31.1", (ENC, "<module>", 0), f"writers of encoding._cache: {sorted(set(writers))} {ext}",
              "the cache is written outside decode/encode: entries are not guaranteed to be consistent", desc=f"_cache writers: {sorted(set(writers))}")

    # ---- R31.2
    dec = dict(((ast.literal_eval(k)), v) for k, v in dict_literal(m.const(ENC, "custom_decode"), "custom_decode"))
    enc = dict(((ast.literal_eval(k)), v) for k, v in dict_literal(m.const(ENC, "custom_encode"), "custom_encode"))
    if set(dec) != set(enc):
        ctx.fail("R31.2", (ENC, "<module>", 0), f"codec tables differ in keys: {sorted(set(dec) ^ set(enc))}", "a coding can be decoded but not re-encoded (or vice versa): set_content drops the header / get_content fails")
    for k in sorted(set(dec) & set(enc)):
        ctx.cells += 1
        a, b = dec[k], enc[k]
        ctx.require(isinstance(a, ast.Name) and isinstance(b, ast.Name), f"codec table value for {k!r} is not a function name")
        for nm in (a.id, b.id):
            ctx.require(m.has(ENC, nm), f"codec function {nm} vanished")

        def codec(nm, pre):
            if nm == "identity":
                return "identity"
            if nm.startswith(pre + "_"):
                return nm[len(pre) + 1:]
            ctx.require(False, f"codec function name {nm} does not follow {pre}_<codec> (pairing idiom not recognised)")

        ca, cb = codec(a.id, "decode"), codec(b.id, "encode")
        ctx.check(ca == cb, "R31.2", (ENC, "<module>", a), f"{k!r}: {a.id} / {b.id}", f"coding {k!r} is decoded as {ca} but encoded as {cb}", desc=f"{k!r}: {a.id} <-> {b.id}")
    five = set()
    for d in ("decode", "encode"):
        for n in ast.walk(ctx.func(ENC, d)):
            if isinstance(n, ast.Compare) and isinstance(n.ops[0], ast.In) and isinstance(n.comparators[0], (ast.Tuple, ast.Set, ast.List)):
                five |= set(ast.literal_eval(n.comparators[0]))
    ctx.require(five and five <= set(dec), f"cached codings {sorted(five)} are not all codec-table keys")

    # ---- R31.3 set_content
    sc = ctx.func(HTTP, "Message.set_content")
    val = params(sc)[0]

    def header_read(fn, expr):
        """Does ``expr`` (one local indirection, optional ``or 'identity'``) read the Content-Encoding header?"""
        if isinstance(expr, ast.BoolOp) and isinstance(expr.op, ast.Or) and len(expr.values) == 2 and isinstance(expr.values[1], ast.Constant) and expr.values[1].value in ("identity", "none"):
            expr = expr.values[0]
        if isinstance(expr, ast.Name):
            d = _local_def(fn, expr.id)
            return d is not None and header_read(fn, d)
        if isinstance(expr, ast.Call) and ast.unparse(expr.func) == "self.headers.get" and expr.args and isinstance(expr.args[0], ast.Constant):
            return str(expr.args[0].value).lower() == CE
        if isinstance(expr, ast.Subscript) and ast.unparse(expr.value) == "self.headers" and isinstance(expr.slice, ast.Constant):
            return str(expr.slice.value).lower() == CE
        return False

    for fn_name, callee in (("Message.set_content", "encoding.encode"), ("Message.get_content", "encoding.decode")):
        fn = ctx.func(HTTP, fn_name)
        cs = [c for c in ast.walk(fn) if isinstance(c, ast.Call) and ast.unparse(c.func) == callee]
        ctx.require(len(cs) == 1 and len(cs[0].args) >= 2, f"{fn_name}: expected one {callee}(body, coding) call")
        ctx.check(header_read(fn, cs[0].args[1]), "R31.3", (HTTP, fn_name, cs[0]), f"{fn_name}: {ast.unparse(cs[0])}",
                  "the coding is not the message's Content-Encoding header: set_content and get_content disagree about the coding of raw_content",
                  desc=f"{fn_name}: coding = Content-Encoding header")

    def removes_ce(e):
        if e[0] == "del":
            return e[1].replace('"', "'").lower() == f"self.headers['{CE}']"
        return e[0] == "call" and e[1] == "self.headers.pop" and e[2] and e[2][0].strip("'\"").lower() == CE

    trs, eng = paths(sc, keep=lambda e: e[0] in ("assign", "del") or (e[0] == "call" and e[1] in ("self.headers.pop", "encoding.encode")))
    ctx.paths += len(trs)
    bad = False
    n_cl = n_inv = 0
    for t, how in trs:
        if how != "return":
            continue
        raws = [i for i, e in enumerate(t) if e[0] == "assign" and e[1] == "self.raw_content"]
        if not raws or t[raws[-1]][2] == "None":
            continue
        probs = []
        te = [e[2] for e in t if e[0] == "cond" and e[1].replace('"', "'").lower() in ("'transfer-encoding' in self.headers",)]
        te_not = [not e[2] for e in t if e[0] == "cond" and e[1].replace('"', "'").lower() in ("'transfer-encoding' not in self.headers",)]
        has_te = (te + te_not)[-1] if (te + te_not) else False
        cl = [i for i, e in enumerate(t) if e[0] == "assign" and e[1].replace('"', "'").lower() == "self.headers['content-length']"]
        if not has_te:
            n_cl += 1
            if not cl or cl[-1] < raws[-1] or t[cl[-1]][2] != "str(len(self.raw_content))":
                probs.append("without Transfer-Encoding, Content-Length is not set to str(len(self.raw_content)) after the body was stored")
        if any(e[0] == "except" for e in t):
            n_inv += 1
            x = next(i for i, e in enumerate(t) if e[0] == "except")
            if not any(removes_ce(e) for e in t[x:]):
                probs.append("an invalid Content-Encoding is kept although the body is stored raw: reading the content back fails or differs")
            if t[raws[-1]][2] != val:
                probs.append(f"after a failed encode the body stored is '{t[raws[-1]][2]}', not the assigned value")
        else:
            if not t[raws[-1]][2].startswith("encoding.encode(" + val):
                probs.append(f"the body stored is '{t[raws[-1]][2]}', not the encoded value")
        for p in probs:
            bad = True
            ctx.fail("R31.3", (HTTP, "Message.set_content", sc), f"set_content: path [{show([e for e in t if e[0] != 'call'], 9)}]", p)
    ctx.require(bad or (n_cl >= 2 and n_inv >= 1), f"set_content: expected path classes not found (content-length paths={n_cl}, invalid-coding paths={n_inv})")
    if not bad:
        ctx.ok("R31.3", f"set_content: {len(trs)} paths; Content-Length follows raw_content unless Transfer-Encoding; invalid coding -> header removed, raw body")

    # ---- R31.3 get_content rejects str
    gc = ctx.func(HTTP, "Message.get_content")
    trs, eng = paths(gc, keep=lambda e: e[0] in ("assign", "return"))
    ctx.paths += len(trs)
    bad = False
    n_dec = 0
    for t, how in trs:
        if how != "return":
            continue
        ret = [e for e in t if e[0] == "return"][-1][1]
        src = [e for e in t if e[0] == "assign" and e[1] == ret]
        if not (src and src[-1][2].startswith("encoding.decode(")) and not ret.startswith("encoding.decode("):
            continue
        n_dec += 1
        guards = [e for e in t if e[0] == "cond" and ((e[1] == f"isinstance({ret}, str)" and e[2] is False) or (e[1] == f"isinstance({ret}, bytes)" and e[2] is True))]
        if not guards:
            bad = True
            ctx.fail("R31.3", (HTTP, "Message.get_content", gc), "get_content: returns the decode result unchecked",
                     "a bytes->str codec named in Content-Encoding (e.g. utf8) makes content a str")
    ctx.require(bad or n_dec >= 1, "get_content: no path returns the decoded body")
    if not bad:
        ctx.ok("R31.3", "get_content: decoded result is returned only if it is not a str")

    # ---- R31.3 Message.decode / Message.encode ordering
    md = ctx.func(HTTP, "Message.decode")
    trs, eng = paths(md, keep=lambda e: e[0] in ("assign", "del") or (e[0] == "call" and e[1] in ("self.headers.pop", "self.get_content", "self.set_content")))
    ctx.paths += len(trs)
    bad = False
    n = 0
    for t, how in trs:
        setc = [i for i, e in enumerate(t) if (e[0] == "assign" and e[1] == "self.content") or (e[0] == "call" and e[1] == "self.set_content")]
        if how != "return" or not setc:
            continue
        n += 1
        getc = [i for i, e in enumerate(t) if e[0] == "call" and e[1] == "self.get_content"]
        rem = [i for i, e in enumerate(t) if removes_ce(e)]
        if not (getc and rem and getc[0] < rem[0] < setc[0]):
            bad = True
            ctx.fail("R31.3", (HTTP, "Message.decode", md), f"decode: path [{show(t)}]",
                     "decode must read the content, then remove Content-Encoding, then assign the content; otherwise the body is re-encoded or read raw")
    ctx.require(bad or n >= 1, "Message.decode: no path re-assigns the content")
    if not bad:
        ctx.ok("R31.3", "Message.decode: get_content < remove header < content := decoded")

    me = ctx.func(HTTP, "Message.encode")
    ep = params(me)[0]
    trs, eng = paths(me, keep=lambda e: e[0] == "assign")
    ctx.paths += len(trs)
    bad = False
    n = 0
    for t, how in trs:
        setc = [i for i, e in enumerate(t) if e[0] == "assign" and e[1] == "self.content"]
        if not setc:
            continue
        n += 1
        hdr = [i for i, e in enumerate(t) if e[0] == "assign" and e[1].replace('"', "'").lower() == f"self.headers['{CE}']" and e[2] == ep]
        if not (hdr and hdr[0] < setc[0] and t[setc[0]][2] == "self.raw_content"):
            bad = True
            ctx.fail("R31.3", (HTTP, "Message.encode", me), f"encode: path [{show(t)}]",
                     "encode must set Content-Encoding before re-assigning content := raw_content; otherwise the body is stored under the old coding")
    ctx.require(bad or n >= 1, "Message.encode: no path re-assigns the content")
    if not bad:
        ctx.ok("R31.3", "Message.encode: header set < content := raw_content")

    expect(ctx, "R31.1", 3)
    expect(ctx, "R31.2", 7)
    expect(ctx, "R31.3", 6)


_LOW = "        return None\n    encoding = encoding.lower()\n\n    global _cache\n    cached = (\n        isinstance(encoded, bytes)"
MUTANTS = [
    Mutant("decode-key-without-errors", ENC, "        and _cache.encoded == encoded\n        and _cache.encoding == encoding\n        and _cache.errors == errors\n", "        and _cache.encoded == encoded\n        and _cache.encoding == encoding\n", "R31.1"),
    Mutant("encode-key-without-coding", ENC, "        and _cache.decoded == decoded\n        and _cache.encoding == encoding\n", "        and _cache.decoded == decoded\n", "R31.1"),
    Mutant("encode-key-without-body", ENC, "        isinstance(decoded, bytes)\n        and _cache.decoded == decoded\n", "        isinstance(decoded, bytes)\n", "R31.1"),
    Mutant("decode-hit-returns-input-field", ENC, "        return _cache.decoded\n", "        return _cache.encoded\n", "R31.1"),
    Mutant("encode-entry-fields-swapped", ENC, "            encoded = codecs.encode(decoded, encoding, errors)  # type: ignore\n        if encoding in (\"gzip\", \"deflate\", \"deflateraw\", \"br\", \"zstd\"):\n            _cache = CachedDecode(encoded, encoding, errors, decoded)",
           "            encoded = codecs.encode(decoded, encoding, errors)  # type: ignore\n        if encoding in (\"gzip\", \"deflate\", \"deflateraw\", \"br\", \"zstd\"):\n            _cache = CachedDecode(decoded, encoding, errors, encoded)", "R31.1"),
    Mutant("decode-not-lowercased", ENC, _LOW, _LOW.replace("    encoding = encoding.lower()\n", ""), "R31.1"),
    Mutant("decode-uses-encode-table", ENC, "decoded = custom_decode[encoding](encoded)", "decoded = custom_encode[encoding](encoded)", "R31.1"),
    Mutant("decode-caches-before-fallback", ENC, "        except KeyError:\n            decoded = codecs.decode(encoded, encoding, errors)  # type: ignore\n",
           "        except KeyError:\n            _cache = CachedDecode(encoded, encoding, errors, decoded)\n            decoded = codecs.decode(encoded, encoding, errors)  # type: ignore\n", "R31.1"),
    Mutant("field-order-changed", ENC, "\"encoded encoding errors decoded\"", "\"decoded encoding errors encoded\"", "R31.1"),
    Mutant("br-encoded-as-zstd", ENC, "    \"br\": encode_brotli,\n", "    \"br\": encode_zstd,\n", "R31.2"),
    Mutant("zstd-not-encodable", ENC, "    \"zstd\": encode_zstd,\n", "", "R31.2"),
    Mutant("deflateraw-decoded-as-gzip", ENC, "    \"deflateraw\": decode_deflate,\n", "    \"deflateraw\": decode_gzip,\n", "R31.2"),
    Mutant("invalid-coding-header-kept", HTTP, "            del self.headers[\"content-encoding\"]\n            self.raw_content = value\n", "            self.raw_content = value\n", "R31.3"),
    Mutant("content-length-of-decoded-body", HTTP, "self.headers[\"content-length\"] = str(len(self.raw_content))", "self.headers[\"content-length\"] = str(len(value))", "R31.3"),
    Mutant("content-length-only-if-present", HTTP, "        else:\n            self.headers[\"content-length\"] = str(len(self.raw_content))", "        elif \"content-length\" in self.headers:\n            self.headers[\"content-length\"] = str(len(self.raw_content))", "R31.3"),
    Mutant("set-content-ignores-header", HTTP, "self.raw_content = encoding.encode(value, ce or \"identity\")", "self.raw_content = encoding.encode(value, \"identity\")", "R31.3"),
    Mutant("str-result-accepted", HTTP, "                if isinstance(content, str):\n                    raise ValueError(f\"Invalid Content-Encoding: {ce}\")\n", "", "R31.3"),
    Mutant("decode-assigns-before-popping", HTTP, "        self.headers.pop(\"content-encoding\", None)\n        self.content = decoded\n", "        self.content = decoded\n        self.headers.pop(\"content-encoding\", None)\n", "R31.3"),
    Mutant("encode-assigns-before-header", HTTP, "        self.headers[\"content-encoding\"] = encoding\n        self.content = self.raw_content\n", "        self.content = self.raw_content\n        self.headers[\"content-encoding\"] = encoding\n", "R31.3"),
]
