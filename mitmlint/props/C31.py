"""C31 - Content-Encoding round-trips and the codec cache is transparent.

All three rules are decided by *interpreting* the repository functions from their AST (mitmlint/pyint.py) over small finite
domains, never by matching their shape: locals may be renamed, tests split into temporaries, branches inverted, ``if`` turned
into ``match``, helpers extracted (cache write, hit test, Content-Length tail), the entry type changed (namedtuple /
NamedTuple class), logging / assertions / annotations added - the interpreted results stay the same.

Decided:
  R31.1 cache transparency of ``encoding.decode`` / ``encoding.encode`` (bounded model check).  The compression codec
        functions ``decode_<x>`` / ``encode_<x>`` are replaced by canonical injective stub pairs and ``codecs`` by a stub whose
        results depend on (input, coding, errors); both functions are then interpreted from every cache state reachable by
        short call histories over an alphabet of (direction, body, coding, errors) calls.  Every result - value or
        exception - must equal the history-free reference: the table codec of the *lower-cased* coding applied to the
        body, else ``codecs.<direction>(body, coding, errors)``, every failure except TypeError surfacing as ValueError.
        This decides memo-key completeness (a hit predicate lacking a parameter that influences the result, or
        returning / storing the wrong field, answers some call from a stale entry), lower-casing, table direction, "the
        entry is written only from values computed on that path", and it follows helper functions by itself.
        Plus: nobody outside decode / encode and the private helpers only they call writes the cache state.
  R31.2 ``custom_decode`` / ``custom_encode`` (evaluated, not pattern-matched): same keys; for every key the decode
        function undoes the encode function (stub pairs / interpreted pure functions such as ``identity``).
  R31.3 ``Message.set_content / get_content / decode / encode`` interpreted on abstract messages (case-insensitive header
        record) with the reference encode / decode: the stored raw body is the body encoded under the Content-Encoding
        header (``identity`` if absent / empty), an invalid coding removes the header and stores the body raw, absent
        Transfer-Encoding Content-Length == len(raw_content), reading the content back yields the assigned bytes;
        ``get_content`` never returns a ``str`` codec result and falls back to the raw body only when not strict;
        ``Message.decode`` leaves the decoded body without Content-Encoding; ``Message.encode`` stores the previous raw body
        under the new coding (header removed + ValueError for an invalid one); decode followed by encode preserves the
        content.
NOT decided: that the codec libraries round-trip (zlib/brotli/zstd are trusted); that an entry produced by decode is
byte-identical to what encode would produce for non-canonical compressors (by design it is not: the stub codecs are
canonical).  Not armed (no result changes): the ``isinstance(x, bytes)`` conjunct, "only the five compressing codecs are
cached", and the ``errors`` conjunct *as long as only table codecs (which ignore ``errors``) are cached* - the model check
fires as soon as a cached coding's result depends on ``errors``.
"""

from __future__ import annotations

import ast
import collections
import re

from ..core import AnalysisError
from ..pyint import NullLog
from ..pyint import Raised
from ..pyint import Rec
from ..selftest import Mutant
from ._helpers_E import CodecStub
from ._helpers_E import GlobalsInterp
from ._helpers_E import Warnings as _Warnings
from ._helpers_E import canon
from ._helpers_E import expect
from ._helpers_E import header_of
from ._helpers_E import message_rec
from ._helpers_E import params

PROP = "C31"
REG = {
    "strength": "partial",
    "technique": "bounded model check by AST interpretation: encoding.decode/encode with canonical stub codecs from every cache state reachable by short call histories "
    "(result == history-free reference) + evaluated codec tables (decode undoes encode per key) + Message.set_content/get_content/decode/encode interpreted on abstract "
    "messages against their post-conditions",
    "claim": "no result of encoding.encode/decode depends on earlier calls (memo key complete, entries consistent, coding lower-cased, right table, failures -> ValueError) and "
    "only decode/encode (and private helpers only they call) write the cache; the codec tables have the same keys and matching pairs; Message.set_content/get_content/"
    "decode/encode agree on the Content-Encoding header, fall back to the raw body for invalid codings, keep Content-Length = len(raw_content) absent Transfer-Encoding, "
    "and assigned content reads back unchanged.",
    "note": "Codec libraries are trusted and replaced by canonical stub pairs; histories are bounded (depth 3, finite alphabet); nothing of /repo is imported or run.",
}

ENC = "mitmproxy/net/encoding.py"
HTTP = "mitmproxy/http.py"
CE, CL, TE = "content-encoding", "content-length", "transfer-encoding"
_CODEC_FN = re.compile(r"(decode|encode)_\w+")


class _StubCodecs:
    """Stand-in for the stdlib ``codecs`` module inside encoding.py: two known charset-like codings whose result depends on
    (input, coding, errors) - so a cache entry keyed without one of them shows - and LookupError for anything else.
    ``decode`` yields a ``str`` (a bytes->str codec, as utf8 is), ``encode`` yields bytes."""

    KNOWN = ("utf8", "latin1")

    @classmethod
    def _norm(cls, coding):
        if not isinstance(coding, str):
            raise TypeError("coding must be str")
        n = coding.lower().replace("-", "").replace("_", "")
        if n not in cls.KNOWN:
            raise LookupError(f"unknown encoding: {coding}")
        return n

    def decode(self, obj, encoding="utf-8", errors="strict"):
        n = self._norm(encoding)
        return f"decoded:{n}/{errors}[" + (obj.decode("latin-1") if isinstance(obj, bytes) else str(obj)) + "]"

    def encode(self, obj, encoding="utf-8", errors="strict"):
        n = self._norm(encoding)
        return f"encoded:{n}/{errors}[".encode() + (obj if isinstance(obj, bytes) else str(obj).encode("latin-1")) + b"]"


class _Dataclasses:
    """Stand-in for the stdlib ``dataclasses`` module (an entry type may be a frozen dataclass): ``replace`` on abstract records."""

    _pyint_accepts_abstract = True

    def replace(self, obj, **changes):
        if not isinstance(obj, Rec):
            raise TypeError("replace() should be called on dataclass instances")
        attrs = {k: v for k, v in vars(obj).items() if not k.startswith("_")}
        unknown = set(changes) - set(attrs)
        if unknown:
            raise TypeError(f"unexpected field {sorted(unknown)}")
        attrs.update(changes)
        return Rec(obj._cls, _bases=obj._bases, _impl=obj._impl, _name=obj._name, **attrs)


def _interp(ctx):
    """Interpreter in which the compression codec functions of encoding.py are canonical stubs and ``codecs`` is the stub module."""
    it = GlobalsInterp(ctx.model, trusted_modules={"codecs": _StubCodecs(), "collections": collections, "logging": NullLog(), "dataclasses": _Dataclasses(), "warnings": _Warnings()})
    mod = ctx.model.module(ENC)
    n = 0
    for st in mod.tree.body:
        if isinstance(st, ast.FunctionDef) and _CODEC_FN.fullmatch(st.name):
            it.overrides[(ENC, st.name)] = CodecStub(st.name)
            n += 1
    ctx.require(n >= 2, f"{ENC}: no codec functions named decode_<x> / encode_<x> (naming idiom of the codec pairs not recognised)")
    return it


def _outcome(it, thunk):
    it.steps = 0
    try:
        return ("ok", thunk())
    except Raised as r:
        return ("raise", r.name)


def _tables(ctx, it):
    mod = ctx.model.module(ENC)
    out = {}
    for d in ("decode", "encode"):
        ctx.model.const(ENC, f"custom_{d}")  # anchor
        t = it.modconst(mod, f"custom_{d}", 0)
        ctx.require(isinstance(t, dict) and t and all(isinstance(k, str) for k in t), f"custom_{d} does not evaluate to a non-empty mapping coding -> function")
        out[d] = t
    return out


class _Reference:
    """History-free meaning of encoding.decode / encoding.encode over the stub codecs."""

    def __init__(self, it, tables):
        self.it, self.tables, self.codecs = it, tables, _StubCodecs()

    def __call__(self, direction, body, coding, errors="strict"):
        if body is None:
            return ("ok", None)
        low = coding.lower()
        f = self.tables[direction].get(low)
        try:
            if f is not None:
                return ("ok", self.it.apply(f, [body], {}, 0))
            return ("ok", getattr(self.codecs, direction)(body, low, errors))
        except Raised as r:
            return ("raise", "TypeError" if r.name == "TypeError" else "ValueError")
        except TypeError:
            return ("raise", "TypeError")
        except Exception:
            return ("raise", "ValueError")

    def native(self, direction):
        """the same as a callable usable as a stand-in for encoding.<direction> inside interpreted code"""

        def f(body, coding, errors="strict"):
            kind, v = self(direction, body, coding, errors)
            if kind == "raise":
                raise {"TypeError": TypeError, "ValueError": ValueError}[v]("reference codec failure")
            return v

        return f


# ---------------------------------------------------------------------------------------------------
# R31.1


def _alphabet(ctx, it, ref, tables, state):
    """Calls (direction, body, coding, errors).  The cacheable codings are *discovered* (which table codings change the state)."""
    keys = sorted(set(tables["decode"]) | set(tables["encode"]))
    a = b"A"
    caching = []
    for k in keys + ["utf8"]:
        for d in ("encode", "decode"):
            body = a if d == "encode" else (ref("encode", a, k)[1] if ref("encode", a, k)[0] == "ok" else a)
            state.set({})
            before = canon(state.get())
            _outcome(it, lambda: it.call(ENC, d, body, k, "strict"))
            if canon(state.get()) != before and k not in caching:
                caching.append(k)
    state.set({})
    thorough = ctx.tier == "thorough"
    fn_of = lambda k: repr(tables["encode"].get(k))
    pick = []
    for k in caching:  # two cached codings with different codecs (aliases such as deflate/deflateraw share results)
        if len(pick) < 2 and fn_of(k) not in [fn_of(p) for p in pick]:
            pick.append(k)
    plain = [k for k in keys if k not in caching]
    if thorough:
        codings = keys + [k.upper() for k in pick] + ["utf8", "UTF-8", "latin-1", "x-unknown-coding"]
    else:
        codings = pick + [k.upper() for k in pick[:1]] + plain[:1] + ["utf8", "x-unknown-coding"]
    codings = list(dict.fromkeys(codings))
    bodies = [a, b"B\x00B"]
    for k in pick if thorough else pick[:1]:
        kind, v = ref("encode", a, k)
        if kind == "ok" and isinstance(v, bytes):
            bodies.append(v)  # valid input of the decoder, and what a cross-direction hit is about
    errs = ["strict", "ignore"]
    calls = [(d, b, c, e) for d in ("decode", "encode") for b in bodies for c in codings for e in errs]
    calls += [("decode", None, codings[0], "strict"), ("encode", None, codings[0], "strict")]
    return calls, caching


def _show_call(c):
    d, b, k, e = c
    return f"{d}({b!r}, {k!r}, {e!r})"


def _show_out(o):
    return f"raises {o[1]}" if o[0] == "raise" else f"returns {o[1]!r}"


def _coding_class(ref, c):
    d, b, k, e = c
    if b is None:
        return "None body"
    low = k.lower()
    if low in ref.tables[d]:
        return "table coding" if low == k else "mixed-case table coding"
    return "codecs coding" if ref(d, b"x", k, e)[0] == "ok" else "unknown coding"


class _State:
    """The module state of encoding.py as the interpreted calls see it: globals re-bound through ``global`` declarations plus
    module-level mutable containers (a dict / list used as cache), snapshot and restored in place."""

    def __init__(self, ctx, it):
        self.ctx, self.it, self.init, self.touched = ctx, it, {}, set()

    def _mutables(self):
        out = {}
        for k, v in self.it._modconst.items():
            if k[0] == ENC and isinstance(v, (dict, list, set)):
                if k not in self.init:  # first sight: what the module-level expression evaluates to
                    mod = self.ctx.model.module(ENC)
                    self.init[k] = self.it.ev(mod.assigns(k[1])[-1], {}, mod, 0)
                out[k] = v
        return out

    def get(self) -> dict:
        st = dict(self.it.global_state())
        for k, v in self._mutables().items():
            if canon(v) != canon(self.init[k]):
                st[("$mutable",) + k] = type(v)(v)
                self.touched.add(k[1])
        return st

    def set(self, st: dict) -> None:
        self.it.set_global_state({k: v for k, v in st.items() if k[0] != "$mutable"})
        for k, v in self._mutables().items():
            want = st.get(("$mutable",) + k, self.init[k])
            if isinstance(v, list):
                v[:] = want
            else:
                v.clear()
                v.update(want)


def _cache_model(ctx, it, ref, tables):
    fns = {}
    for d in ("decode", "encode"):
        fn = fns[d] = ctx.func(ENC, d)
        ctx.require(len(params(fn, drop_self=False)) >= 3 and not fn.args.kwonlyargs, f"encoding.{d}(body, coding, errors) signature changed: {params(fn, drop_self=False)}")
        ctx.require(not fn.decorator_list, f"encoding.{d} is decorated: decorators are not interpreted")
    state = _State(ctx, it)
    calls, caching = _alphabet(ctx, it, ref, tables, state)
    max_depth, max_states = 3, (600 if ctx.tier == "thorough" else 200)
    seen = {canon({}): 0}
    frontier = [({}, ())]
    bad = {}
    n_runs = 0
    depth = 0
    capped = False
    while frontier and depth < max_depth:
        depth += 1
        nxt = []
        for st, hist in frontier:
            for c in calls:
                state.set(st)
                it.writes.clear()
                d, b, k, e = c
                got = _outcome(it, lambda: it.call(ENC, d, b, k, e))
                n_runs += 1
                if it.writes:
                    raise AnalysisError(f"encoding.{d}: a cache entry is mutated in place ({it.writes[0][:3]}): state model does not cover it")
                want = ref(d, b, k, e)
                if got != want:
                    kind = "history" if hist else "fresh"
                    key = (d, kind, _coding_class(ref, c))
                    bad.setdefault(key, (c, hist, got, want))
                new = state.get()
                cn = canon(new)
                if cn not in seen:
                    if len(seen) >= max_states:
                        capped = True
                        continue
                    seen[cn] = depth
                    nxt.append((new, hist + (c,)))
        frontier = nxt
    if frontier or capped:
        ctx.bounds.append(f"R31.1: cache states beyond the first {max_states} / first reached by histories longer than {max_depth} calls are not explored")
    state.set({})
    ctx.cells += n_runs
    ctx.bounds.append(f"R31.1: call alphabet {len(calls)} calls, histories up to {depth} calls, {len(seen)} cache states, {n_runs} interpreted calls")
    for (d, kind, cls), (c, hist, got, want) in sorted(bad.items(), key=repr):
        if kind == "history":
            construct = f"{d}: the result for a {cls} depends on the call history"
            reason = (f"{_show_call(c)} {_show_out(got)} after [{' ; '.join(_show_call(h) for h in hist)}] but must {_show_out(want).replace('returns', 'return').replace('raises', 'raise')} "
                      "(stub codecs; the cache answers from an entry that does not belong to these arguments)")
        else:
            construct = f"{d}: wrong result for a {cls} on an empty cache"
            reason = f"{_show_call(c)} {_show_out(got)} but the {d} codec of the lower-cased coding gives: {_show_out(want)} (stub codecs)"
        ctx.fail("R31.1", (ENC, d, fns[d]), construct, reason, call=_show_call(c), history=[_show_call(h) for h in hist])
    for d in ("decode", "encode"):
        if not any(k[0] == d for k in bad):
            ctx.ok("R31.1", f"encoding.{d}: {sum(1 for c in calls if c[0] == d)} calls x {len(seen)} reachable cache states all equal the history-free reference (cached codings: {caching})")
    return state


def _writers(ctx, it, model_state):
    """Only decode / encode and private helpers reachable only from them write the module state of encoding.py."""
    m = ctx.model
    mod = m.module(ENC)
    top = {st.name: st for st in mod.tree.body if isinstance(st, (ast.FunctionDef, ast.AsyncFunctionDef))}
    funcs = [n for n in ast.walk(mod.tree) if isinstance(n, (ast.FunctionDef, ast.AsyncFunctionDef))]

    def owner(n):
        p = getattr(n, "_parent", None)
        while p is not None and not isinstance(p, (ast.FunctionDef, ast.AsyncFunctionDef, ast.Lambda)):
            p = getattr(p, "_parent", None)
        return p

    def own_nodes(fn):
        return [n for n in ast.walk(fn) if n is not fn and owner(n) is fn]

    state = {k[1] for k in it.gkeys if k[0] == ENC} | {k[1] for k, v in model_state.init.items() if canon(v) != canon(it._modconst.get(k, v)) or k[1] in model_state.touched}
    for fn in funcs:
        glob = {x for n in own_nodes(fn) if isinstance(n, ast.Global) for x in n.names}
        state |= {n.id for n in own_nodes(fn) if isinstance(n, ast.Name) and isinstance(n.ctx, (ast.Store, ast.Del)) and n.id in glob}

    def root(e):
        while isinstance(e, (ast.Attribute, ast.Subscript)):
            e = e.value
        return e.id if isinstance(e, ast.Name) else None

    writers = set()
    for fn in funcs:
        nodes = own_nodes(fn)
        glob = {x for n in nodes if isinstance(n, ast.Global) for x in n.names}
        local = {n.id for n in nodes if isinstance(n, ast.Name) and isinstance(n.ctx, (ast.Store, ast.Del))} - glob
        local |= {a.arg for a in fn.args.posonlyargs + fn.args.args + fn.args.kwonlyargs}
        for n in nodes:
            if isinstance(n, ast.Name) and isinstance(n.ctx, (ast.Store, ast.Del)) and n.id in glob and n.id in state:
                writers.add(fn.name)
            elif isinstance(n, (ast.Attribute, ast.Subscript)) and isinstance(n.ctx, (ast.Store, ast.Del)) and root(n) in state and root(n) not in local:
                writers.add(fn.name)
    for st in mod.tree.body:  # module level: anything but plain (re-)initialisation
        for n in ast.walk(st) if not isinstance(st, (ast.FunctionDef, ast.AsyncFunctionDef, ast.ClassDef)) else []:
            if isinstance(n, (ast.Attribute, ast.Subscript)) and isinstance(n.ctx, (ast.Store, ast.Del)) and root(n) in state:
                writers.add("<module>")
    # call graph inside encoding.py from decode / encode
    reach, todo = set(), ["decode", "encode"]
    while todo:
        f = todo.pop()
        if f in reach or f not in top:
            continue
        reach.add(f)
        for n in ast.walk(top[f]):
            if isinstance(n, ast.Name) and isinstance(n.ctx, ast.Load) and n.id in top:
                todo.append(n.id)
    helpers = sorted((reach & writers) - {"decode", "encode"})
    foreign = sorted(writers - reach)
    leaks = []
    for h in helpers:
        for fn in funcs:
            if fn.name not in reach and any(isinstance(n, ast.Name) and n.id == h for n in ast.walk(fn)):
                leaks.append(f"{h} is used by {fn.name}")
    ext = []
    if state or helpers:  # other modules reaching for the cache state or its private writers
        names = state | set(helpers)
        dotted = ENC[:-3].replace("/", ".")
        imp = re.compile(r"mitmproxy\.net\.encoding|from\s+mitmproxy\.net\s+import[^\n]*\bencoding\b|from\s+mitmproxy\.net\s+import\s*\([^)]*\bencoding\b|from\s+\.+\w*\s+import[^\n]*\bencoding\b")
        for p in sorted((m.repo / "mitmproxy").rglob("*.py")):
            rel = p.relative_to(m.repo).as_posix()
            if rel == ENC or rel.startswith("mitmproxy/contrib/"):
                continue
            src = m.source(rel)
            if "encoding" not in src or not any(n in src for n in names) or not imp.search(src):
                continue
            mo = m.module(rel)
            aliases = {loc for loc, tgt in mo.imports.items() if tgt == dotted}
            hit = any(tgt.startswith(dotted + ".") and tgt.rsplit(".", 1)[1] in names for tgt in mo.imports.values())
            for n in ast.walk(mo.tree):
                if isinstance(n, ast.Attribute) and n.attr in names:
                    base = n.value
                    chain = []
                    while isinstance(base, ast.Attribute):
                        chain.append(base.attr)
                        base = base.value
                    if isinstance(base, ast.Name):
                        full = ".".join([base.id] + chain[::-1])
                        if full in aliases or full == dotted:
                            hit = True
            if hit:
                ext.append(rel)
    ctx.check(not foreign and not leaks and not ext, "R31.1", (ENC, "<module>", 0), f"writers of the encoding cache state {sorted(state)}: {sorted(writers)} {leaks} {ext}".strip(),
              "the cache is written (or its private writer is reachable) outside decode/encode: entries are not guaranteed to belong to the arguments they are keyed with",
              desc=f"cache state {sorted(state)} written only by {sorted(writers)} (all reachable only from decode/encode)")


# ---------------------------------------------------------------------------------------------------
# R31.2


def _table_pairs(ctx, it, tables):
    dec, enc = tables["decode"], tables["encode"]
    if set(dec) != set(enc):
        ctx.fail("R31.2", (ENC, "<module>", 0), f"codec tables differ in keys: {sorted(set(dec) ^ set(enc))}",
                 "a coding can be decoded but not re-encoded (or vice versa): set_content drops the header / get_content fails")
    probes = [b"A", b"", b"\x00\xff(x)"]
    for k in sorted(set(dec) & set(enc)):
        ctx.cells += len(probes)
        a, b = dec[k], enc[k]
        name = lambda f: getattr(f, "fname", None) or getattr(getattr(f, "node", None), "name", repr(f))
        problem = None
        for p in probes:
            e_ = _outcome(it, lambda: it.apply(b, [p], {}, 0))
            if e_[0] != "ok":
                problem = f"{name(b)}({p!r}) {_show_out(e_)}"
                break
            d_ = _outcome(it, lambda: it.apply(a, [e_[1]], {}, 0))
            if d_ != ("ok", p):
                problem = f"{name(a)}({name(b)}({p!r})) {_show_out(d_)} instead of returning {p!r}"
                break
        ctx.check(problem is None, "R31.2", (ENC, "<module>", 0), f"{k!r}: {name(a)} / {name(b)}", f"coding {k!r} is not decoded by the inverse of its encoder: {problem}",
                  desc=f"{k!r}: {name(a)} undoes {name(b)}")


# ---------------------------------------------------------------------------------------------------
# R31.3


def _message_rules(ctx, it, ref):
    for q in ("set_content", "get_content", "decode", "encode"):
        ctx.func(HTTP, f"Message.{q}")
    # inside http.py the codec layer is the reference (R31.1 decides that encoding.encode/decode equal it)
    it.overrides[(ENC, "encode")] = ref.native("encode")
    it.overrides[(ENC, "decode")] = ref.native("decode")
    valid = sorted(k for k in ref.tables["encode"] if ref("encode", b"x", k) != ("ok", b"x") and k in ref.tables["decode"])
    ctx.require(valid, "no compressing coding in the codec tables")
    z = valid[0]
    ident = next((k for k in sorted(ref.tables["encode"]) if ref("encode", b"x", k) == ("ok", b"x")), None)
    bogus = "x-unknown-coding"
    str_coding = "utf8"  # bytes -> str under the stub codecs module, as in reality
    ctx.require(isinstance(ref("decode", b"x", str_coding)[1], str), "stub codecs: no bytes->str coding")
    bad = {}

    def fail(fn, clause, reason):
        bad.setdefault((fn, clause), reason)

    def call(msg, meth, *a, **kw):
        return _outcome(it, lambda: it.method(msg, meth, *a, **kw))

    def hdrs(**kw):
        return {k.replace("_", "-"): v for k, v in kw.items() if v is not None}

    def desc(h, extra=""):
        return "{" + ", ".join(f"{k}: {v!r}" for k, v in h.items()) + "}" + extra

    n = 0
    # ---- set_content (+ read back)
    ces = [None, "", z, z.upper(), bogus] + ([ident] if ident else []) + (valid[1:2] if ctx.tier == "thorough" else [])
    for value in (None, b"", b"body \x00 bytes"):
        for ce in ces:
            for te in (None, "chunked"):
                for cl in (None, "999"):
                    h = hdrs(content_encoding=ce, transfer_encoding=te, content_length=cl)
                    msg = message_rec(h, b"previous")
                    out = call(msg, "set_content", value)
                    n += 1
                    where = f"set_content({value!r}) with headers {desc(h)}"
                    if out != ("ok", None):
                        fail("set_content", "assignment fails", f"{where} {_show_out(out)}")
                        continue
                    raw = msg.data.content
                    if value is None:
                        if raw is not None:
                            fail("set_content", "None does not clear the body", f"{where} leaves raw_content = {raw!r}")
                        continue
                    enc = ref("encode", value, ce or "identity")
                    if enc[0] == "ok":
                        if raw != enc[1]:
                            fail("set_content", "raw body is not the content encoded under the Content-Encoding header",
                                 f"{where} stores {raw!r}, but the header's coding ({ce or 'identity'!r}) encodes the value to {enc[1]!r}: get_content and independent decoders read another body")
                        if ce and (header_of(msg, CE) or "").lower() != ce.lower():
                            fail("set_content", "Content-Encoding changed although the coding is valid", f"{where} leaves Content-Encoding = {header_of(msg, CE)!r}")
                    else:
                        if header_of(msg, CE) is not None:
                            fail("set_content", "invalid Content-Encoding kept", f"{where}: the invalid coding stays in the headers although the body cannot be encoded with it: reading the content back fails or differs")
                        if raw != value:
                            fail("set_content", "body not stored raw after a failed encode", f"{where} stores {raw!r} instead of the assigned value")
                    if te is None and isinstance(raw, bytes) and header_of(msg, CL) != str(len(raw)):
                        fail("set_content", "Content-Length != len(raw_content) without Transfer-Encoding",
                             f"{where} leaves Content-Length = {header_of(msg, CL)!r} with a raw body of {len(raw)} bytes")
                    back = call(msg, "get_content")
                    if back != ("ok", value):
                        fail("set_content", "assigned content does not read back", f"{where}; get_content() then {_show_out(back)}")
    if not any(k[0] == "set_content" for k in bad):
        ctx.ok("R31.3", f"set_content: raw = encode(value, Content-Encoding or identity); invalid coding -> header removed, raw body; Content-Length = len(raw) unless Transfer-Encoding; reads back ({n} messages)")

    # ---- get_content
    n0 = n
    body = b"body"
    zb = ref("encode", body, z)[1]
    for raw in (None, b"", zb, b"garbage"):
        for ce in (None, "", z, z.upper(), bogus, str_coding) + ((ident,) if ident else ()):
            for strict in (True, False):
                h = hdrs(content_encoding=ce)
                msg = message_rec(h, raw)
                out = call(msg, "get_content", strict) if strict is False else call(msg, "get_content")
                n += 1
                if raw is None:
                    want = ("ok", None)
                elif not ce:
                    want = ("ok", raw)
                else:
                    r = ref("decode", raw, ce)
                    if r[0] == "ok" and isinstance(r[1], bytes):
                        want = r
                    else:
                        want = ("raise", "ValueError") if strict else ("ok", raw)
                if out != want:
                    what = "returns a str codec result" if out[0] == "ok" and isinstance(out[1], str) else "wrong result"
                    fail("get_content", what, f"get_content(strict={strict}) with raw body {raw!r} and headers {desc(h)} {_show_out(out)}, expected: {_show_out(want)}"
                         + (" (a bytes->str codec named in Content-Encoding, e.g. utf8, makes content a str)" if what.startswith("returns a str") else ""))
                if msg.data.content != raw:
                    fail("get_content", "reading modifies the raw body", f"get_content with raw body {raw!r} and headers {desc(h)} leaves raw_content = {msg.data.content!r}")
    if not any(k[0] == "get_content" for k in bad):
        ctx.ok("R31.3", f"get_content: decode(raw, Content-Encoding), str results rejected, raw fallback only when not strict ({n - n0} messages)")

    # ---- Message.decode
    n0 = n
    for raw in (None, b"", zb, b"garbage"):
        for ce in (None, z, bogus, str_coding):
            for strict in (True, False):
                h = hdrs(content_encoding=ce, content_length="999")
                msg = message_rec(h, raw)
                out = call(msg, "decode", strict)
                n += 1
                where = f"Message.decode(strict={strict}) with raw body {raw!r} and headers {desc(h)}"
                if not raw:
                    if out != ("ok", None) or msg.data.content != raw:
                        fail("decode", "a missing / empty body is touched", f"{where} {_show_out(out)}; raw = {msg.data.content!r}")
                    continue
                if not ce:
                    content = ("ok", raw)
                else:
                    r = ref("decode", raw, ce)
                    content = r if r[0] == "ok" and isinstance(r[1], bytes) else (("raise", "ValueError") if strict else ("ok", raw))
                if content[0] == "raise":
                    if out != content:
                        fail("decode", "invalid coding not reported", f"{where} {_show_out(out)}, expected: {_show_out(content)}")
                    elif msg.data.content != raw:
                        fail("decode", "failed decode modifies the body", f"{where} leaves raw = {msg.data.content!r}")
                    continue
                back = call(msg, "get_content")
                if out != ("ok", None) or header_of(msg, CE) is not None or msg.data.content != content[1] or back != content:
                    fail("decode", "decoded body is not stored without Content-Encoding",
                         f"{where} {_show_out(out)}; afterwards raw = {msg.data.content!r}, Content-Encoding = {header_of(msg, CE)!r}, content {_show_out(back)}; expected the decoded body {content[1]!r} "
                         "stored raw with the header removed (read the content, remove the header, then assign: otherwise the body is re-encoded or read raw)")
                elif header_of(msg, CL) != str(len(content[1])):
                    fail("decode", "Content-Length not updated", f"{where} leaves Content-Length = {header_of(msg, CL)!r}")
    if not any(k[0] == "decode" for k in bad):
        ctx.ok("R31.3", f"Message.decode: decoded body stored raw, Content-Encoding removed, Content-Length updated ({n - n0} messages)")

    # ---- Message.encode
    n0 = n
    for raw in (b"body", b""):
        for old in (None, z):
            for new in [z, z.upper(), bogus] + ([ident] if ident else []) + valid[1:2]:
                h = hdrs(content_encoding=old, content_length="999")
                msg = message_rec(h, raw)
                out = call(msg, "encode", new)
                n += 1
                where = f"Message.encode({new!r}) with raw body {raw!r} and headers {desc(h)}"
                enc = ref("encode", raw, new)
                if enc[0] == "raise":
                    if out != ("raise", "ValueError") or header_of(msg, CE) is not None or msg.data.content != raw:
                        fail("encode", "invalid coding not rejected", f"{where} {_show_out(out)}; afterwards raw = {msg.data.content!r}, Content-Encoding = {header_of(msg, CE)!r}; expected ValueError, header removed, body unchanged")
                    continue
                back = call(msg, "get_content")
                if out != ("ok", None) or header_of(msg, CE) != new or msg.data.content != enc[1] or back != ("ok", raw):
                    fail("encode", "body is not stored under the new coding",
                         f"{where} {_show_out(out)}; afterwards raw = {msg.data.content!r}, Content-Encoding = {header_of(msg, CE)!r}, content {_show_out(back)}; expected raw = {enc[1]!r} "
                         "(set the header before re-assigning the body: otherwise it is stored under the old coding)")
                elif header_of(msg, CL) != str(len(enc[1])):
                    fail("encode", "Content-Length not updated", f"{where} leaves Content-Length = {header_of(msg, CL)!r}")
    if not any(k[0] == "encode" for k in bad):
        ctx.ok("R31.3", f"Message.encode: header set, previous raw body stored under the new coding, invalid coding -> ValueError + header removed ({n - n0} messages)")

    # ---- decode then encode preserves the content
    n0 = n
    ok = True
    for new in valid[:2] + ([ident] if ident else []):
        msg = message_rec(hdrs(content_encoding=z, content_length=str(len(zb))), zb)
        o1 = call(msg, "decode")
        o2 = call(msg, "encode", new)
        back = call(msg, "get_content")
        n += 1
        if (o1, o2, back) != (("ok", None), ("ok", None), ("ok", body)) or msg.data.content != ref("encode", body, new)[1]:
            ok = False
            fail("decode", "decode followed by encode does not preserve the content", f"{z} message decoded and re-encoded as {new!r}: content {_show_out(back)}, raw = {msg.data.content!r}")
    if ok:
        ctx.ok("R31.3", f"Message.decode ; Message.encode(c) preserves the content ({n - n0} messages)")
    ctx.cells += n
    for (fn, clause), reason in sorted(bad.items()):
        ctx.fail("R31.3", (HTTP, f"Message.{fn}", ctx.func(HTTP, f"Message.{fn}")), f"Message.{fn}: {clause}", reason)
    it.overrides.pop((ENC, "encode"), None)
    it.overrides.pop((ENC, "decode"), None)


def check(ctx):
    ctx.rule("R31.1", "codec cache transparency: encoding.decode/encode interpreted with stub codecs from every cache state reachable by short call histories equal the history-free reference "
             "(lower-cased coding, right table, complete memo key, consistent entry, failures -> ValueError); no foreign writer of the cache state")
    ctx.rule("R31.2", "custom_decode / custom_encode: same keys, every decode function undoes the encode function of the same key")
    ctx.rule("R31.3", "Message.set_content/get_content/decode/encode interpreted on abstract messages: header agreement, invalid coding -> raw + header removed, Content-Length = len(raw_content), "
             "str results rejected, assigned content reads back, decode/encode re-store the body under the right coding")
    ctx.trust("zlib / gzip / brotli / zstd codec round-trips (replaced by canonical stub pairs)")
    ctx.trust("mitmlint.pyint interpretation of encoding.py / http.py Message methods")
    it = _interp(ctx)
    tables = _tables(ctx, it)
    ref = _Reference(it, tables)

    state = _cache_model(ctx, it, ref, tables)
    _writers(ctx, it, state)
    _table_pairs(ctx, it, tables)
    _message_rules(ctx, it, ref)

    expect(ctx, "R31.1", 3)
    expect(ctx, "R31.2", 7)
    expect(ctx, "R31.3", 5)


_HIT_D = "        and _cache.encoded == encoded\n        and _cache.encoding == encoding\n        and _cache.errors == errors\n"
_FIVE_D = "        if encoding in (\"gzip\", \"deflate\", \"deflateraw\", \"br\", \"zstd\"):\n            _cache = CachedDecode(encoded, encoding, errors, decoded)\n        return decoded\n"
_LOW = "        return None\n    encoding = encoding.lower()\n\n    global _cache\n    cached = (\n        isinstance(encoded, bytes)"
MUTANTS = [
    Mutant("decode-key-without-coding", ENC, _HIT_D, "        and _cache.encoded == encoded\n        and _cache.errors == errors\n", "R31.1"),
    Mutant("encode-key-without-coding", ENC, "        and _cache.decoded == decoded\n        and _cache.encoding == encoding\n", "        and _cache.decoded == decoded\n", "R31.1"),
    Mutant("encode-key-without-body", ENC, "        isinstance(decoded, bytes)\n        and _cache.decoded == decoded\n", "        isinstance(decoded, bytes)\n", "R31.1"),
    Mutant("decode-key-without-body", ENC, "        isinstance(encoded, bytes)\n        and _cache.encoded == encoded\n", "        isinstance(encoded, bytes)\n", "R31.1"),
    # dropping the errors conjunct alone changes no result while only table codecs (which ignore errors) are cached; it does once charset codecs are cached too
    Mutant("all-codings-cached-key-without-errors", ENC, _HIT_D + "    )\n    if cached:\n        return _cache.decoded\n    try:\n        try:\n            decoded = custom_decode[encoding](encoded)\n        except KeyError:\n            decoded = codecs.decode(encoded, encoding, errors)  # type: ignore\n" + _FIVE_D,
           "        and _cache.encoded == encoded\n        and _cache.encoding == encoding\n    )\n    if cached:\n        return _cache.decoded\n    try:\n        try:\n            decoded = custom_decode[encoding](encoded)\n        except KeyError:\n            decoded = codecs.decode(encoded, encoding, errors)  # type: ignore\n        _cache = CachedDecode(encoded, encoding, errors, decoded)\n        return decoded\n", "R31.1"),
    Mutant("decode-hit-returns-input-field", ENC, "        return _cache.decoded\n", "        return _cache.encoded\n", "R31.1"),
    Mutant("encode-entry-fields-swapped", ENC, "            encoded = codecs.encode(decoded, encoding, errors)  # type: ignore\n        if encoding in (\"gzip\", \"deflate\", \"deflateraw\", \"br\", \"zstd\"):\n            _cache = CachedDecode(encoded, encoding, errors, decoded)",
           "            encoded = codecs.encode(decoded, encoding, errors)  # type: ignore\n        if encoding in (\"gzip\", \"deflate\", \"deflateraw\", \"br\", \"zstd\"):\n            _cache = CachedDecode(decoded, encoding, errors, encoded)", "R31.1"),
    Mutant("decode-not-lowercased", ENC, _LOW, _LOW.replace("    encoding = encoding.lower()\n", ""), "R31.1"),
    Mutant("decode-uses-encode-table", ENC, "decoded = custom_decode[encoding](encoded)", "decoded = custom_encode[encoding](encoded)", "R31.1"),
    Mutant("decode-caches-before-fallback", ENC, "        except KeyError:\n            decoded = codecs.decode(encoded, encoding, errors)  # type: ignore\n",
           "        except KeyError:\n            _cache = CachedDecode(encoded, encoding, errors, decoded)\n            decoded = codecs.decode(encoded, encoding, errors)  # type: ignore\n", "R31.1"),
    Mutant("decode-caches-the-input-as-result", ENC, "            _cache = CachedDecode(encoded, encoding, errors, decoded)\n        return decoded\n", "            _cache = CachedDecode(encoded, encoding, errors, encoded)\n        return decoded\n", "R31.1"),
    Mutant("field-order-changed", ENC, "\"encoded encoding errors decoded\"", "\"decoded encoding errors encoded\"", "R31.1"),
    Mutant("decode-global-declaration-dropped", ENC, "    encoding = encoding.lower()\n\n    global _cache\n    cached = (\n        isinstance(encoded, bytes)", "    encoding = encoding.lower()\n\n    cached = (\n        isinstance(encoded, bytes)", "R31.1"),
    Mutant("decode-errors-leak-as-lookuperror", ENC, "        return decoded\n    except TypeError:\n        raise\n    except Exception as e:", "        return decoded\n    except (TypeError, LookupError):\n        raise\n    except Exception as e:", "R31.1"),
    Mutant("public-cache-primer", ENC, "def identity(content):", "def prime(encoded, coding, decoded):\n    global _cache\n    _cache = CachedDecode(encoded, coding, \"strict\", decoded)\n\n\ndef identity(content):", "R31.1"),
    Mutant("br-encoded-as-zstd", ENC, "    \"br\": encode_brotli,\n", "    \"br\": encode_zstd,\n", "R31.2"),
    Mutant("zstd-not-encodable", ENC, "    \"zstd\": encode_zstd,\n", "", "R31.2"),
    Mutant("deflateraw-decoded-as-gzip", ENC, "    \"deflateraw\": decode_deflate,\n", "    \"deflateraw\": decode_gzip,\n", "R31.2"),
    Mutant("invalid-coding-header-kept", HTTP, "            del self.headers[\"content-encoding\"]\n            self.raw_content = value\n", "            self.raw_content = value\n", "R31.3"),
    Mutant("content-length-of-decoded-body", HTTP, "self.headers[\"content-length\"] = str(len(self.raw_content))", "self.headers[\"content-length\"] = str(len(value))", "R31.3"),
    Mutant("content-length-only-if-present", HTTP, "        else:\n            self.headers[\"content-length\"] = str(len(self.raw_content))", "        elif \"content-length\" in self.headers:\n            self.headers[\"content-length\"] = str(len(self.raw_content))", "R31.3"),
    Mutant("content-length-not-after-invalid-coding", HTTP, "            del self.headers[\"content-encoding\"]\n            self.raw_content = value\n", "            del self.headers[\"content-encoding\"]\n            self.raw_content = value\n            return\n", "R31.3"),
    Mutant("set-content-ignores-header", HTTP, "self.raw_content = encoding.encode(value, ce or \"identity\")", "self.raw_content = encoding.encode(value, \"identity\")", "R31.3"),
    Mutant("str-result-accepted", HTTP, "                if isinstance(content, str):\n                    raise ValueError(f\"Invalid Content-Encoding: {ce}\")\n", "", "R31.3"),
    Mutant("get-content-always-lenient", HTTP, "            except ValueError:\n                if strict:\n                    raise\n                return self.raw_content\n", "            except ValueError:\n                return self.raw_content\n", "R31.3"),
    Mutant("decode-assigns-before-popping", HTTP, "        self.headers.pop(\"content-encoding\", None)\n        self.content = decoded\n", "        self.content = decoded\n        self.headers.pop(\"content-encoding\", None)\n", "R31.3"),
    Mutant("encode-assigns-before-header", HTTP, "        self.headers[\"content-encoding\"] = encoding\n        self.content = self.raw_content\n", "        self.content = self.raw_content\n        self.headers[\"content-encoding\"] = encoding\n", "R31.3"),
]
