"""C53 - client replay runs queued flows sequentially and cleans up.

Decided by INTERPRETING mitmproxy/addons/clientplayback.py (``mitmlint/pyint.py`` + coroutines, class ``_Sim`` below) in small scripted
worlds and comparing what happens with a reference written from the property text.  Nothing is matched by statement shape: helpers are
followed, renamed locals / inverted branches / early returns / merged loops / logging / assertions are interpreted like the original.

The world (``_World``) models exactly the library surface the addon talks to:
  * ``asyncio``: Queue (FIFO, ``get`` suspends when empty), Event, tasks (``create_task`` / ``ensure_future`` / mitmproxy's
    ``asyncio_utils.create_task`` spawn an activity that runs at the next suspension point), ``wait`` / ``gather``;
  * the proxy core behind a replay handler: ``server_event(Start)`` starts a scripted core that later delivers a sequence of hooks to the
    handler's *interpreted* ``handle_hook`` (e.g. request-headers, request, response-headers, then response or error);
  * ``ctx.master.addons.handle_lifecycle`` (may intercept the flow), ``Flow.wait_for_resume`` (resumes it), the server transports
    (``ConnectionIO.handler`` tasks that can be cancelled and awaited), ``Flow.get_state`` / ``set_state`` (faithful snapshot / restore;
    ``Flow.backup`` / ``revert`` themselves are interpreted from mitmproxy/flow.py along HTTPFlow's MRO).
The addon object is built by its own ``__init__`` and started by its own ``running()`` (so the playback coroutine, the queue and the
in-flight marker are found by role, not by name); a replay handler is whatever subclass of proxy.server.ConnectionHandler the loop
constructs from the dequeued flow (its ``__init__`` is not interpreted: attributes assigned from a parameter or from ``asyncio.Event()``
are taken from it, everything else is opaque).

  R53.1 sequencing.  With client_replay_concurrency 1 and three queued flows: every flow is dequeued in queue order, a handler is built
        from exactly that flow, its replay is awaited (never spawned) and the next ``queue.get()`` / ``task_done()`` happens only after
        the handler signalled completion; while a flow is replayed ``check()`` refuses it as in flight, once the loop is idle it does not;
        the awaited handler coroutine starts the layer and returns only after completion was signalled and the core delivered its last
        hook; concurrency -1 does spawn (keeps the option decision non-vacuous).  ``handle_hook`` is run for every hook class of
        proxy/layers/http/_hooks.py and proxy/server_hooks.py in worlds {with / without server transports} x {flow intercepted in the
        hook or not}: completion is signalled exactly for HttpResponseHook / HttpErrorHook (every world), after the addons handled the
        hook, after the flow was resumed (``wait_for_resume`` awaited between the addon hook and the signal, the flow no longer
        intercepted, never awaited after the signal: a flow intercepted in its response / error hook is still live and editable, so the
        next queued request must not be sent yet) and after every server transport task was cancelled and awaited.
  R53.2 admission and cleanup.  ``ClientPlayback.check`` over 9 flows (+ the in-flight cell from the R53.1 run): live, intercepted,
        request-less, content-less, WebSocket and non-HTTP (TCP / UDP / DNS) flows are refused, the plain flow is admitted;
        ``start_replay`` over a mixed submission queues exactly the admitted flows; ``start_replay`` followed by ``stop_replay`` leaves
        every queued flow in its pre-replay state (backup before the first modification, revert of every dequeued flow), also when a
        flow was submitted twice while still queued (the second backup must keep the first snapshot - check() does not refuse a flow that
        is already queued - otherwise stop_replay's revert() "restores" the prepared state: response None, is_replay set);
        ``stop_replay`` drains the queue completely (0, 1, 3 queued flows).
NOT decided: asyncio scheduling orders other than the cooperative one modelled, what happens inside the proxy core between Start and
the final hook (C03), Flow.get_state / set_state (C40), ReplayHandler.__init__.
"""

from __future__ import annotations

import ast
import asyncio as _stdlib_asyncio  # exception class hierarchy of asyncio's own exceptions only (stdlib, nothing of the repository)
import builtins

from ..core import AnalysisError
from ..core import norm
from ..model import attr_chain
from ..model import last_attr
from ..pyint import _noop
from ..pyint import _restore
from ..pyint import _snapshot
from ..pyint import ClassRef
from ..pyint import Func
from ..pyint import Interp
from ..pyint import NullLog
from ..pyint import Raised
from ..pyint import Rec
from ..selftest import Mutant
from ._helpers_F import own_nodes

PROP = "C53"
REG = {
    "strength": "narrow",
    "technique": "interpretation (pyint + coroutines on a cooperative scheduler) of ClientPlayback (__init__, running, playback loop, check, start_replay, "
    "stop_replay), of the replay handler's coroutine and handle_hook and of Flow.backup / revert in scripted worlds (model asyncio Queue / Event / tasks, "
    "scripted proxy core delivering hooks, intercepting addons, server transports), compared with a reference written from the property text",
    "claim": "with concurrency 1 a dequeued flow is awaited to completion before the queue is touched again; completion is signalled exactly by the "
    "response / error hook after the flow was resumed and transports are closed; unreplayable flows are refused by check and never queued; queued flows are "
    "backed up first by a call that never replaces an existing snapshot (Flow.backup interpreted as start_replay calls it) and stop_replay reverts every one of them.",
    "note": "Scheduling orders other than the modelled cooperative one are not decided. Finite worlds: 3 queued flows, one hook script per world.",
}

F = "mitmproxy/addons/clientplayback.py"
ADDON = "ClientPlayback"
UTILS = "mitmproxy/utils/asyncio_utils.py"
HOOK_FILES = ("mitmproxy/proxy/layers/http/_hooks.py", "mitmproxy/proxy/server_hooks.py")
TERMINAL = ("HttpErrorHook", "HttpResponseHook")
HTTPFLOW = ("mitmproxy/http.py", "HTTPFlow")
OTHER_FLOWS = (("mitmproxy/tcp.py", "TCPFlow"), ("mitmproxy/udp.py", "UDPFlow"), ("mitmproxy/dns.py", "DNSFlow"))


# ---------------------------------------------------------------------------------------------------
# values of the model world


class _Blocked(BaseException):
    """the running activity waits for something that nothing in the world will ever provide (BaseException: like a cancellation it is
    not caught by the interpreted ``except Exception``)"""


class _Aw:
    """a library awaitable: ``await`` runs ``run()`` in place"""

    def __init__(self, run, what):
        self.run, self.what = run, what


class _Coro:
    """a call of a repository coroutine function: nothing runs until it is awaited or handed to a task"""

    def __init__(self, f, args, kwargs):
        self.f, self.args, self.kwargs = f, args, kwargs
        self.used = False

    @property
    def label(self):
        return self.f.node.name


class _Opaque:
    """a value the world does not know: may be stored, passed on and formatted; deciding on it is an AnalysisError"""

    def __init__(self, name):
        self._n = name

    def _no(self, *a, **k):
        raise AnalysisError(f"client replay model: a decision depends on {self._n}, which the model world does not define")

    __bool__ = __len__ = __iter__ = __eq__ = __ne__ = __lt__ = __gt__ = __le__ = __ge__ = __contains__ = __call__ = __getitem__ = _no
    __hash__ = object.__hash__

    def __repr__(self):
        return f"<{self._n}>"

    __str__ = __repr__

    def __format__(self, spec):
        return repr(self)


class _Model:
    """base of the library stand-ins: accepts abstract records as arguments; anything not modelled is an AnalysisError, never a guess"""

    _pyint_accepts_abstract = True

    def __getattr__(self, name):
        if name.startswith("__"):
            raise AttributeError(name)
        raise AnalysisError(f"client replay model: {type(self).__name__.lstrip('_')}.{name} is not modelled")


class _Event(_Model):
    def __init__(self, world):
        self._w = world
        self._v = False
        self.owner = None
        world.events.append(self)

    def set(self):
        self._v = True
        self._w.on_set(self)

    def clear(self):
        self._v = False

    def is_set(self):
        return self._v

    def wait(self):
        return _Aw(lambda: self._w.wait_event(self), "Event.wait")


class _Queue(_Model):
    def __init__(self, world):
        self._w = world
        self.items = []
        self.unfinished = 0
        world.queues.append(self)

    def preload(self, items):
        self.items.extend(items)
        self.unfinished += len(items)

    def put_nowait(self, item):
        self.items.append(item)
        self.unfinished += 1
        self._w.ev("put", item)

    def put(self, item):
        return _Aw(lambda: self.put_nowait(item), "Queue.put")

    def get_nowait(self):
        if not self.items:
            raise Raised("QueueEmpty")
        item = self.items.pop(0)
        self._w.ev("get_nowait", item)
        return item

    def get(self):
        return _Aw(lambda: self._w.queue_get(self), "Queue.get")

    def task_done(self):
        if self.unfinished <= 0:
            raise Raised("ValueError", "task_done() called too many times")
        self.unfinished -= 1
        self._w.ev("task_done")

    def qsize(self):
        return len(self.items)

    def empty(self):
        return not self.items

    def full(self):
        return False


class _Loop(_Model):
    def __init__(self, world):
        self._w = world

    def create_task(self, coro, *, name=None, context=None):
        return self._w.spawn(coro)

    def time(self):
        return 0.0


class _Asyncio(_Model):
    QueueEmpty, QueueFull, CancelledError, TimeoutError, InvalidStateError = (("$exc", n) for n in ("QueueEmpty", "QueueFull", "CancelledError", "TimeoutError", "InvalidStateError"))
    FIRST_COMPLETED, FIRST_EXCEPTION, ALL_COMPLETED = "FIRST_COMPLETED", "FIRST_EXCEPTION", "ALL_COMPLETED"

    def __init__(self, world):
        self._w = world

    def Event(self):
        return _Event(self._w)

    def Queue(self, maxsize=0):
        return _Queue(self._w)

    def create_task(self, coro, *, name=None, context=None):
        return self._w.spawn(coro)

    def ensure_future(self, coro, *, loop=None):
        return self._w.spawn(coro)

    def run_coroutine_threadsafe(self, coro, loop=None):
        return self._w.spawn(coro)

    def get_running_loop(self):
        return _Loop(self._w)

    get_event_loop = get_running_loop

    def wait(self, aws, *, timeout=None, return_when="ALL_COMPLETED"):
        aws = list(aws)
        if return_when != "ALL_COMPLETED" or timeout is not None:
            raise AnalysisError("client replay model: asyncio.wait with a timeout / return_when is not modelled")

        def run():
            if not aws:
                raise Raised("ValueError", "Set of Tasks/Futures is empty.")
            self._w.await_many(aws)
            return (set(), set())

        return _Aw(run, "asyncio.wait")

    def gather(self, *aws, return_exceptions=False):
        return _Aw(lambda: self._w.await_many(list(aws)), "asyncio.gather")

    def sleep(self, delay=0, result=None):
        return _Aw(lambda: result, "asyncio.sleep")

    def shield(self, aw):
        return aw

    def wait_for(self, aw, timeout=None):
        # no clock in the model: a timeout fires only when the awaited thing would otherwise wait forever
        def run():
            try:
                return self._w.interp.await_(aw)
            except _Blocked:
                if timeout is None:
                    raise
                raise Raised("TimeoutError")  # nothing else can happen any more: the timeout fires

        return _Aw(run, "asyncio.wait_for")


class _Time(_Model):
    def time(self):
        return 0.0

    monotonic = perf_counter = time


class _Addons(_Model):
    def __init__(self, world):
        self._w = world

    def handle_lifecycle(self, hook):
        return _Aw(lambda: self._w.on_lifecycle(hook), "addons.handle_lifecycle")

    def trigger(self, *a, **k):
        return None

    def trigger_event(self, *a, **k):
        return _Aw(lambda: None, "addons.trigger_event")


class _Master(_Model):
    def __init__(self, world):
        self.addons = _Addons(world)


class _Ctx(_Model):
    """mitmproxy.ctx"""

    def __init__(self, world, options):
        self.master = _Master(world)
        self.options = options


class _HandlerIO(_Model):
    """the part of proxy.server.ConnectionHandler a replay handler uses: feeding an event to its layer"""

    def __init__(self, world, handler):
        self._w, self._h = world, handler

    def server_event(self, event):
        return _Aw(lambda: self._w.on_server_event(self._h, event), "server_event")


class _State:
    """what Flow.get_state returns in the model: an identity-preserving snapshot of the flow (always truthy, like a state dict)"""

    def __init__(self, snap):
        self.snap = snap


def _lenient(rec):
    object.__setattr__(rec, "_lenient", True)
    return rec


def _freeze(v, depth=0):
    """structural value of a flow for before / after comparison (private attributes - the backup itself - and methods excluded)"""
    if isinstance(v, Rec):
        if depth > 3:
            return ("rec", v._name)
        return ("rec", v._name, tuple(sorted((k, _freeze(x, depth + 1)) for k, x in v.__dict__.items() if not k.startswith("_") and not callable(x))))
    if isinstance(v, dict):
        return ("dict", tuple(sorted((repr(k), _freeze(x, depth + 1)) for k, x in v.items())))
    if isinstance(v, (list, tuple)):
        return ("seq", tuple(_freeze(x, depth + 1) for x in v))
    return repr(v)


def _diff(a, b):
    """names of the top-level attributes in which two frozen flows differ"""
    da, db = dict(a[2]), dict(b[2])
    return sorted(k for k in set(da) | set(db) if da.get(k) != db.get(k))


# ---------------------------------------------------------------------------------------------------
# the interpreter


def _identity(x):
    return id(x)


_identity._pyint_accepts_abstract = True
_EXTRA_BUILTINS = {"id": _identity, "__debug__": True}


class _Sim(Interp):
    """pyint + coroutines: calling a repository ``async def`` yields a ``_Coro``; ``await`` runs a ``_Coro`` in place and a library
    awaitable through the world (which may run other activities first)."""

    def __init__(self, model, world):
        super().__init__(model, trusted_modules={"logging": NullLog(), "asyncio": world.asyncio, "time": _Time()}, max_depth=40, max_steps=300000)
        self.world = world
        self._islog: dict = {}

    @staticmethod
    def _owner(n, fn):
        if isinstance(n, ast.Await):
            return False  # coroutines are interpreted here (pyint alone refuses them)
        return Interp._owner(n, fn)

    # -- values
    def name(self, ident, env, mod, depth, node):
        try:
            return super().name(ident, env, mod, depth, node)
        except AnalysisError:
            if ident in _EXTRA_BUILTINS:
                return _EXTRA_BUILTINS[ident]
            raise

    def truthy(self, v):
        if isinstance(v, _Opaque):
            v._no()
        return super().truthy(v)

    def cmp(self, op, a, b, node):
        for x in (a, b):
            if isinstance(x, _Opaque):
                x._no()
        return super().cmp(op, a, b, node)

    def exc_isa(self, name, handler, mod):
        a = getattr(_stdlib_asyncio, name, None)
        if isinstance(a, type) and issubclass(a, BaseException) and getattr(builtins, name, None) is None:
            h = getattr(builtins, handler, None) or getattr(_stdlib_asyncio, handler, None)
            return isinstance(h, type) and issubclass(a, h)
        return super().exc_isa(name, handler, mod)

    def getattr(self, base, attr, node, depth):
        if isinstance(base, _Opaque):
            return _Opaque(f"{base._n}.{attr}")
        if isinstance(base, tuple) and base and base[0] == "$module":
            try:
                return super().getattr(base, attr, node, depth)
            except AnalysisError:
                sub = self.model.module_by_dotted(base[1].dotted + "." + attr)  # a sub-module reached as an attribute of its package
                if sub is None:
                    raise
                return ("$module", sub)
        if isinstance(base, Rec) and base.__dict__.get("_lenient"):
            try:
                return super().getattr(base, attr, node, depth)
            except AnalysisError as e:
                if "has no attribute" not in str(e):
                    raise
                known = base.__dict__.get("_known")
                if known is not None and attr not in known:
                    raise Raised("AttributeError", f"'{base._cls}' object has no attribute '{attr}'")  # no class of its MRO defines or assigns it
                return _Opaque(f"{base._name}.{attr}")
        return super().getattr(base, attr, node, depth)

    # -- calls
    def native_call(self, f, args, kwargs, where):
        if any(isinstance(a, _Opaque) for a in list(args) + list(kwargs.values())) and not (getattr(f, "_pyint_accepts_abstract", False) or getattr(getattr(f, "__self__", None), "_pyint_accepts_abstract", False)):
            raise AnalysisError(f"client replay model: an unknown value is passed to a library function at {where}")
        return super().native_call(f, args, kwargs, where)

    def ev_call(self, e, env, mod, depth):
        # logging is outside the rule's alphabet: the call is transparent and its arguments are not evaluated
        k = id(e)
        if k not in self._islog:
            self._islog[k] = False
            ch = attr_chain(e.func)
            if ch and "." in ch and ch.split(".")[0] not in env:
                try:
                    self._islog[k] = super().ev(e.func, env, mod, depth) is _noop
                except (AnalysisError, Raised):
                    self._islog[k] = False
        if self._islog[k]:
            return None
        return super().ev_call(e, env, mod, depth)

    def apply(self, f, args, kwargs, depth, node=None):
        if isinstance(f, Func):
            if f.mod.rel == UTILS:
                return self.world.utils_call(f.node.name, args, kwargs)
            if isinstance(f.node, ast.AsyncFunctionDef):
                return _Coro(f, list(args), dict(kwargs))
        return super().apply(f, args, kwargs, depth, node)

    def call_func(self, f, args, kwargs, depth):
        q = getattr(f.node, "_qual", None)
        if q:
            self.world.functions.add(f"{f.mod.rel}::{q}")
        return super().call_func(f, args, kwargs, depth)

    def instantiate(self, c, args, kwargs, depth, where):
        if self.world.is_handler_class(c):
            return self.world.make_handler(c, args, kwargs)
        if c.mod.rel == F:
            return super().instantiate(c, args, kwargs, depth, where)
        try:
            return super().instantiate(c, args, kwargs, depth, where)
        except AnalysisError:
            # payload objects of other modules (events, hooks, contexts) are only handed to the world: an opaque record of that class
            qual = getattr(c.node, "_qual", c.node.name)
            return _lenient(Rec(c.node.name, _bases=tuple(cc.name for _, cc in self.model.mro(c.mod.rel, qual))[1:], _impl=(c.mod.rel, qual)))

    # -- coroutines
    def ev(self, e, env, mod, depth):
        if isinstance(e, ast.Await):
            return self.await_(self.ev(e.value, env, mod, depth), depth, e)
        return super().ev(e, env, mod, depth)

    def await_(self, v, depth=0, node=None):
        if isinstance(v, _Coro):
            if v.used:
                raise Raised("RuntimeError", "cannot reuse already awaited coroutine")
            v.used = True
            h = v.f.bound if isinstance(v.f.bound, Rec) else None
            self.world.enter(h, v.label)
            try:
                return self.call_func(v.f, v.args, v.kwargs, depth + 1)
            finally:
                self.world.exit(h, v.label)
        if isinstance(v, _Aw):
            return v.run()
        if isinstance(v, Rec) and v.isa("Task"):
            return self.world.await_many([v])
        raise AnalysisError(f"client replay model: await of {v!r} is not modelled: {norm(node) if node is not None else '?'}")

    def try_(self, st, env, mod, depth):
        # as Interp.try_, additionally recording which interpreted exception a handler caught (diagnostics of swallowed crashes)
        try:
            try:
                self.block(st.body, env, mod, depth)
            except Raised as r:
                for h in st.handlers:
                    names = ["BaseException"] if h.type is None else [last_attr(x) for x in (h.type.elts if isinstance(h.type, ast.Tuple) else [h.type])]
                    if any(self.exc_isa(r.name, n, mod) for n in names):
                        self.world.ev("caught", r.name, r.msg)
                        if h.name:
                            env[h.name] = f"<exc:{r.name}>"
                        prev = env.get("$handling")
                        env["$handling"] = r.name
                        try:
                            self.block(h.body, env, mod, depth)
                        finally:
                            if prev is None:
                                env.pop("$handling", None)
                            else:
                                env["$handling"] = prev
                        break
                else:
                    raise
            else:
                self.block(st.orelse, env, mod, depth)
        finally:
            if st.finalbody:
                self.block(st.finalbody, env, mod, depth)


# ---------------------------------------------------------------------------------------------------
# the world


class _Act:
    """something that runs when the current activity suspends"""

    def __init__(self, label, step, more):
        self.label, self._step, self._more = label, step, more
        self.busy = False

    @property
    def more(self):
        return self._more()

    def step(self):
        self._step()


class _HState:
    def __init__(self, flow):
        self.flow = flow
        self.started = False
        self.script = []
        self.pos = 0
        self.current = None  # (hook record, class name, data) while handle_hook runs
        self.transports = []
        self.depth = 0


class _World:
    def __init__(self, model, conc=1, script=("HttpRequestHeadersHook", "HttpRequestHook", "HttpResponseHeadersHook", "HttpResponseHook"), transports=True, intercept=()):
        self.model = model
        self.log = []
        self.events = []
        self.queues = []
        self.acts = []
        self.functions = set()
        self.handlers = {}  # id(handler record) -> _HState
        self.handler_order = []
        self.hooks = {}  # id(hook record) -> handler record
        self.script, self.with_transports, self.intercept = tuple(script), transports, set(intercept)
        self.asyncio = _Asyncio(self)
        self.options = _lenient(Rec("Options", _name="options", client_replay_concurrency=conc))
        self.ctx = _Ctx(self, self.options)
        self.interp = _Sim(model, self)
        self.interp.overrides[(F, "ctx")] = self.ctx
        self.addon = None
        self.on_start = None  # callback(handler record): sampled when the layer of a handler is started
        self.ctor = None
        self._hcls = {}
        self._known = {}
        self.running = []  # stack of the activities being stepped (innermost last)
        self._hookcls = None

    def ev(self, *e):
        self.log.append(e)

    # -- construction
    def new_flow(self, name, impl=HTTPFLOW, **attrs):
        names = [c.name for _, c in self.model.mro(*impl)]
        f = _lenient(Rec(names[0], _bases=tuple(names[1:]), _impl=impl, _name=name))
        base = dict(id=name, live=False, intercepted=False, error=None, is_replay=None, _backup=None, marked="", comment="", metadata={})
        if impl == HTTPFLOW:
            base.update(request=_lenient(Rec("Request", _name=f"{name}.request", raw_content=b"x", content=b"x", host="example.com", port=80, scheme="http", trailers=None)),
                        response=_lenient(Rec("Response", _name=f"{name}.response", status_code=200, raw_content=b"y", content=b"y")), websocket=None)
        base.update(attrs)
        for k, v in base.items():
            object.__setattr__(f, k, v)
        object.__setattr__(f, "_known", self.known_attrs(impl))
        object.__setattr__(f, "get_state", lambda: _State(_snapshot([f])))
        object.__setattr__(f, "set_state", lambda state: self._set_state(f, state))
        object.__setattr__(f, "wait_for_resume", lambda: _Aw(lambda: self.on_resume(f), "Flow.wait_for_resume"))
        return f

    def known_attrs(self, impl):
        """every attribute name an instance of the repository class can have: class-level names and ``self.x`` targets along the MRO"""
        if impl not in self._known:
            out = set()
            for _, c in self.model.mro(*impl):
                for st in c.body:
                    if isinstance(st, (ast.FunctionDef, ast.AsyncFunctionDef, ast.ClassDef)):
                        out.add(st.name)
                        if isinstance(st, ast.ClassDef):
                            continue
                        a = st.args.posonlyargs + st.args.args
                        me = a[0].arg if a else None
                        for n in ast.walk(st):
                            if isinstance(n, ast.Attribute) and isinstance(n.ctx, (ast.Store, ast.Del)) and isinstance(n.value, ast.Name) and n.value.id == me:
                                out.add(n.attr)
                    elif isinstance(st, ast.AnnAssign) and isinstance(st.target, ast.Name):
                        out.add(st.target.id)
                    elif isinstance(st, ast.Assign):
                        out.update(t.id for t in st.targets if isinstance(t, ast.Name))
            self._known[impl] = out
        return self._known[impl]

    def _set_state(self, f, state):
        if not isinstance(state, _State):
            raise AnalysisError(f"client replay model: Flow.set_state is called with {state!r}, not with a state that get_state produced")
        _restore(state.snap)

    def new_addon(self):
        cref = ClassRef(self.model.module(F), self.model.cls(F, ADDON))
        try:
            self.addon = self.interp.instantiate(cref, [], {}, 0, f"{ADDON}()")
        except Raised as r:
            raise AnalysisError(f"{ADDON}() raises {r.name} in the model world: {r.msg}")
        if len(self.queues) != 1:
            raise AnalysisError(f"{ADDON}.__init__ creates {len(self.queues)} asyncio.Queue objects (exactly one - the replay queue - is modelled)")
        return self.addon

    @property
    def queue(self):
        return self.queues[0]

    def call(self, rec, name, *args):
        """run a plain method of a record to completion -> return value (Raised passes through)"""
        it = self.interp
        f = it.getattr(rec, name, None, 0)
        if not isinstance(f, Func):
            raise AnalysisError(f"{rec._name}.{name} is not a repository method")
        r = it.apply(f, list(args), {}, 0)
        if isinstance(r, _Coro):
            raise AnalysisError(f"{rec._name}.{name} became a coroutine (not modelled)")
        return r

    def is_handler_class(self, c):
        k = c._key()
        if k not in self._hcls:
            self._hcls[k] = c.mod.rel == F and any(cc.name == "ConnectionHandler" and m.rel == "mitmproxy/proxy/server.py" for m, cc in self.model.mro(*k)[1:])
        return self._hcls[k]

    def make_handler(self, c, args, kwargs):
        """ReplayHandler(flow, options): __init__ is not interpreted (it builds contexts and layers of the proxy core); attributes it assigns
        from a parameter or from asyncio.Event() are taken over, everything else the core provides is opaque / modelled"""
        rel, qual = c._key()
        names = [cc.name for _, cc in self.model.mro(rel, qual)]
        h = _lenient(Rec(c.node.name, _bases=tuple(names[1:]), _impl=(rel, qual), _name=f"handler{len(self.handler_order) + 1}"))
        flows = [a for a in list(args) + list(kwargs.values()) if isinstance(a, Rec) and a.isa("Flow")]
        if len(flows) != 1:
            raise AnalysisError(f"{c.node.name}(...) is constructed from {len(flows)} flows (exactly one is modelled)")
        st = self.handlers[id(h)] = _HState(flows[0])
        self.handler_order.append(h)
        if self.ctor is None:
            self.ctor = (c, list(args), dict(kwargs))
        init = self.model.method(rel, qual, "__init__")
        if init is not None and init[0].rel == F:
            a = init[1].args
            if a.vararg or a.kwarg:
                raise AnalysisError(f"{c.node.name}.__init__ takes *args / **kwargs (not modelled)")
            params = [p.arg for p in a.posonlyargs + a.args]
            env = dict(zip(params, [h] + list(args)))
            env.update(kwargs)
            n_ev = len(self.events)
            for n in own_nodes(init[1]):
                if isinstance(n, ast.Assign) and len(n.targets) == 1:
                    tgt, val = n.targets[0], n.value
                elif isinstance(n, ast.AnnAssign) and n.value is not None:
                    tgt, val = n.target, n.value
                else:
                    continue
                if not (isinstance(tgt, ast.Attribute) and isinstance(tgt.value, ast.Name) and tgt.value.id == params[0]):
                    continue
                try:
                    v = self.interp.ev(val, dict(env), init[0], 1)
                except (AnalysisError, Raised):
                    v = _Opaque(f"{h._name}.{tgt.attr}")
                object.__setattr__(h, tgt.attr, v)
            for e in self.events[n_ev:]:
                e.owner = h
        # what proxy.server.ConnectionHandler provides
        if self.with_transports:
            t1, t2 = self.new_task("server connection 1"), self.new_task("server connection 2")
            st.transports = [t1, t2]
            tr = {_lenient(Rec("Server", _name="server1")): _lenient(Rec("ConnectionIO", handler=t1)), _lenient(Rec("Server", _name="idle")): _lenient(Rec("ConnectionIO", handler=None)),
                  _lenient(Rec("Server", _name="server2")): _lenient(Rec("ConnectionIO", handler=t2))}
        else:
            tr = {}
        object.__setattr__(h, "transports", tr)
        object.__setattr__(h, "server_event", _HandlerIO(self, h).server_event)
        st.script = list(self.script)
        self.ev("handler", h, st.flow)
        return h

    def new_task(self, label):
        t = Rec("Task", _bases=("Future",), _name=f"task:{label}", _cancelled=False, _awaited=False)

        def cancel(msg=None):
            object.__setattr__(t, "_cancelled", True)
            self.ev("cancel", t)
            return True

        for k, v in dict(cancel=cancel, add_done_callback=lambda cb: None, remove_done_callback=lambda cb: 0, done=lambda: False, cancelled=lambda: t._cancelled,
                         set_name=lambda name: None, get_name=lambda: label).items():
            object.__setattr__(t, k, v)
        return t

    def hook_classes(self):
        if self._hookcls is None:
            out = {}
            for rel in HOOK_FILES:
                m = self.model.module(rel)
                for q, d in m.defs().items():
                    if isinstance(d, ast.ClassDef) and "." not in q and any(c.name == "StartHook" for _, c in self.model.mro(rel, q)[1:]):
                        out[d.name] = (rel, q)
            for t in TERMINAL:
                if t not in out:
                    raise AnalysisError(f"anchor class vanished: {t} (a StartHook of {HOOK_FILES[0]})")
            self._hookcls = out
        return self._hookcls

    def make_hook(self, cname, flow):
        rel, q = self.hook_classes()[cname]
        mro = self.model.mro(rel, q)
        hook = Rec(cname, _bases=tuple(c.name for _, c in mro[1:]), _impl=(rel, q), _name=cname)
        fields = []
        for _, c in reversed(mro):
            if not any(last_attr(d) == "dataclass" for d in c.decorator_list):
                continue  # only dataclasses contribute fields (Command.blocking is a plain class attribute)
            for st in c.body:
                if isinstance(st, ast.AnnAssign) and isinstance(st.target, ast.Name) and "ClassVar" not in norm(st.annotation) and st.target.id not in [x[0] for x in fields]:
                    fields.append((st.target.id, norm(st.annotation)))
        vals = []
        for name, ann in fields:
            v = flow if "Flow" in ann else _lenient(Rec(ann.split(".")[-1] if ann.replace(".", "").isidentifier() else "HookData", _name=f"{cname}.{name}"))
            object.__setattr__(hook, name, v)
            vals.append(v)
        object.__setattr__(hook, "args", lambda: list(vals))
        return hook, vals

    # -- scheduler
    def settle(self, cond):
        while not cond():
            act = next((a for a in self.acts if not a.busy and a.more), None)
            if act is None:
                return False
            act.busy = True
            self.running.append(act)
            try:
                act.step()
            finally:
                self.running.pop()
                act.busy = False
        return True

    def owner_of(self, e):
        """the handler an Event belongs to: created by its __init__, or held in one of its attributes"""
        if e.owner is None:
            e.owner = next((h for h in self.handler_order if any(v is e for v in h.__dict__.values())), None)
        return e.owner

    def spawn(self, coro):
        if isinstance(coro, _Coro):
            label, bound = coro.label, coro.f.bound if isinstance(coro.f.bound, Rec) else None
        elif isinstance(coro, _Aw):
            label, bound = coro.what, None
        else:
            raise AnalysisError(f"client replay model: a task is created from {coro!r} (not a coroutine of the repository)")
        t = self.new_task(label)
        self.ev("spawn", label, bound)
        todo = [coro]

        def step():
            c = todo.pop()
            try:
                self.interp.await_(c)
            except _Blocked as b:
                self.ev("task-blocked", label, str(b))
            except Raised as r:
                self.ev("task-crashed", label, r.name, r.msg)

        self.acts.append(_Act(label, step, lambda: bool(todo)))
        return t

    def utils_call(self, name, args, kwargs):
        if name == "create_task" and len(args) == 1:
            return self.spawn(args[0])
        if name in ("set_task_debug_info", "set_current_task_debug_info"):
            return None
        raise AnalysisError(f"client replay model: mitmproxy.utils.asyncio_utils.{name} is not modelled")

    def queue_get(self, q):
        if not q.items:
            self.settle(lambda: bool(q.items))
        if not q.items:
            self.ev("idle")
            raise _Blocked("the replay queue is empty")
        item = q.items.pop(0)
        self.ev("get", item)
        return item

    def wait_event(self, e):
        self.ev("wait", self.owner_of(e))
        if not self.settle(lambda: e._v):
            self.ev("hang", self.owner_of(e))
            raise _Blocked("waits for an event that is never set")
        self.ev("wake", self.owner_of(e))
        return True

    def await_many(self, aws):
        for a in aws:
            if isinstance(a, Rec) and a.isa("Task"):
                object.__setattr__(a, "_awaited", True)
                self.ev("awaited", a)
            elif isinstance(a, (_Coro, _Aw)):
                self.interp.await_(a)
            else:
                raise AnalysisError(f"client replay model: waiting for {a!r} is not modelled")
        return None

    # -- the handler's side
    def enter(self, h, label):
        st = self.handlers.get(id(h)) if h is not None else None
        if st is not None and st.current is None:
            st.depth += 1
            if st.depth == 1:
                self.ev("enter", h, label)

    def exit(self, h, label):
        st = self.handlers.get(id(h)) if h is not None else None
        if st is not None and st.current is None:
            st.depth -= 1
            if st.depth == 0:
                self.ev("exit", h, label, st.pos >= len(st.script))

    def on_server_event(self, h, event):
        st = self.handlers[id(h)]
        if not (isinstance(event, Rec) and event.isa("Start")):
            raise AnalysisError(f"client replay model: the handler feeds {event!r} to its layer (only events.Start is modelled)")
        if st.started:
            raise AnalysisError("client replay model: the layer of a replay handler is started twice (not modelled)")
        st.started = True
        self.ev("start", h, self.on_start(h) if self.on_start else None, self.running[-1] if self.running else None)
        self.acts.append(_Act(f"core of {h._name}", lambda: self.deliver(h), lambda: st.pos < len(st.script)))
        return None

    def deliver(self, h, cname=None):
        """the proxy core hands the next hook of the script to the handler's handle_hook"""
        st = self.handlers[id(h)]
        if cname is None:
            cname = st.script[st.pos]
            st.pos += 1
        hook, vals = self.make_hook(cname, st.flow)
        self.hooks[id(hook)] = h
        f = self.interp.getattr(h, "handle_hook", None, 0)
        if not (isinstance(f, Func) and isinstance(f.node, ast.AsyncFunctionDef) and f.mod.rel == F):
            raise AnalysisError(f"{h._cls}.handle_hook is not a coroutine method of {F}")
        st.current = {"hook": hook, "cls": cname, "data": vals, "lifecycle": False, "resumed": False, "set": False}
        self.ev("hook", h, cname)
        try:
            self.interp.await_(_Coro(f, [hook], {}))
        finally:
            cur, st.current = st.current, None
        self.ev("hook-end", h, cname)
        return cur

    def on_lifecycle(self, hook):
        h = self.hooks.get(id(hook))
        if h is None:
            raise AnalysisError(f"client replay model: handle_lifecycle is called with {hook!r}, not with the hook that was delivered")
        cur = self.handlers[id(h)].current
        cur["lifecycle"] = True
        self.ev("lifecycle", h, cur["cls"])
        if cur["cls"] in self.intercept:
            for d in cur["data"]:
                if isinstance(d, Rec) and d.isa("Flow"):
                    object.__setattr__(d, "intercepted", True)  # an addon intercepts the flow in this hook
        return None

    def on_resume(self, flow):
        h = next((x for x in self.handler_order if self.handlers[id(x)].flow is flow and self.handlers[id(x)].current is not None), None)
        cur = self.handlers[id(h)].current if h is not None else None
        self.ev("resume", h, flow, bool(cur and cur["set"]))
        if cur is not None:
            cur["resumed"] = cur["lifecycle"]
        object.__setattr__(flow, "intercepted", False)  # the user resumes it eventually
        return None

    def on_set(self, e):
        h = self.owner_of(e)
        st = self.handlers.get(id(h)) if h is not None else None
        cur = st.current if st is not None else None
        facts = None
        if cur is not None:
            cur["set"] = True
            flows = [d for d in cur["data"] if isinstance(d, Rec) and d.isa("Flow")]
            facts = {"cls": cur["cls"], "lifecycle": cur["lifecycle"], "flow": bool(flows), "resumed": cur["resumed"], "intercepted": any(d.intercepted for d in flows),
                     "open": [t._name for t in st.transports if not (t._cancelled and t._awaited)], "inflight": self.on_start(h) if self.on_start else None}
        self.ev("set", h, facts)


# ---------------------------------------------------------------------------------------------------
# R53.1


def _where(ctx, qual):
    m = ctx.model.module(F)
    q = qual
    while q and m.get(q) is None:
        q = q.rpartition(".")[0]
    return (F, qual, m.get(q) if q else 0)


def _guarded(what, fn, *args):
    """run a piece of a simulation: an interpreted exception escaping it means the model world is not adequate -> AnalysisError"""
    try:
        return fn(*args)
    except Raised as r:
        raise AnalysisError(f"{what} raises {r.name} in the model world ({r.msg}): not modelled")


def _refuses(world, flow):
    r = _guarded(f"{ADDON}.check", world.call, world.addon, "check", flow)
    if r is not None and not (isinstance(r, str) and r):
        raise AnalysisError(f"{ADDON}.check returns {r!r} (neither None nor a message)")
    return r is not None


def run_playback(ctx, conc, n=3):
    """the addon as mitmproxy drives it: constructed, running(), n flows in the queue, then everything runs until all activities wait"""
    w = _World(ctx.model, conc=conc)
    w.new_addon()
    w.on_start = lambda h: _refuses(w, w.handlers[id(h)].flow)
    flows = [w.new_flow(f"flow{i + 1}") for i in range(n)]
    n0 = len(w.acts)
    _guarded(f"{ADDON}.running", w.call, w.addon, "running")
    boot = w.acts[n0:]
    if len(boot) != 1:
        raise AnalysisError(f"{ADDON}.running() starts {len(boot)} tasks (exactly one - the playback loop - is modelled)")
    w.log.clear()
    w.queue.preload(flows)
    w.settle(lambda: False)
    ctx.cells += 1
    ctx.paths += len(w.log)
    ctx.functions |= w.functions
    idle_refused = [f._name for f in flows if _refuses(w, f)] if any(e[0] == "idle" for e in w.log) else None
    return w, flows, boot[0], idle_refused


def check_playback(ctx):
    ctx.func(F, f"{ADDON}.running")
    w, flows, loop, idle_refused = run_playback(ctx, 1)
    qual = f"{ADDON}.{loop.label}"
    W = _where(ctx, qual)
    log = w.log

    def idx(pred, start=0):
        return next((i for i in range(start, len(log)) if pred(log[i])), -1)

    def show(upto=None):
        out = []
        for e in log[: upto if upto is not None else len(log)]:
            out.append(e[0] + "(" + ", ".join(x._name if isinstance(x, Rec) else str(x) for x in e[1:] if not isinstance(x, (dict, bool, type(None)))) + ")")
        return " ; ".join(out)[:900]

    caught = sorted({e[1] for e in log if e[0] == "caught"})
    crashed = f" [interpreted exceptions caught on the way: {caught}]" if caught else ""
    spawned = [e for e in log if e[0] == "start" and e[3] is not loop]  # replays whose layer is started by another task than the loop
    bad = bad_h = bad_r = None
    n_done = sum(1 for e in log if e[0] == "task_done")
    for i, fl in enumerate(flows):
        g = idx(lambda e: e[0] == "get" and e[1] is fl)
        if g < 0:
            bad = bad or (f"{fl._name} is never dequeued although it is queued (the loop ended or is stuck)", None)
            continue
        nxt = idx(lambda e: e[0] in ("get", "idle"), g + 1)
        end = nxt if nxt >= 0 else len(log)
        hs = [e for e in log[g:end] if e[0] == "handler"]
        mine = [e[1] for e in hs if e[2] is fl]
        mine_spawned = [e for e in spawned if any(e[1] is h for h in mine)]
        c = idx(lambda e: e[0] == "set" and e[1] is not None and w.handlers[id(e[1])].flow is fl, g)
        td = [j for j in range(g, end) if log[j][0] == "task_done"]
        if mine_spawned:
            bad = bad or ("the replay is spawned as a task although concurrency is 1", end)
        elif c < 0 or c > end:
            bad = bad or (f"the iteration does not await the replay of {fl._name} to completion after dequeuing it", end)
        elif td and td[0] < c:
            bad = bad or (f"queue.task_done() is reported before the replay of {fl._name} finished", end)
        # the handler awaited is built from the dequeued flow
        st = idx(lambda e: e[0] == "start" and any(e[1] is h for h in mine), g)
        if not (0 <= st < end) and not mine_spawned:
            bad_h = bad_h or (f"after dequeuing {fl._name} the loop builds {[f'{e[1]._cls}({e[2]._name})' for e in hs]} and starts {[e[1]._name for e in log[g:end] if e[0] == 'start'] or 'nothing'}", end)
        # the awaited handler coroutine: start the layer, return only after completion was signalled and the core is through
        if mine:
            h = log[st][1] if 0 <= st < end else mine[0]
            en, ex, s, wk = (idx(lambda e, k=k: e[0] == k and e[1] is h, g) for k in ("enter", "exit", "set", "wake"))
            hang = idx(lambda e: e[0] == "hang" and e[1] is h, g)
            if en >= 0 and not mine_spawned:
                if hang >= 0:
                    bad_r = bad_r or (f"{log[en][2]}() waits for completion that is never signalled (layer started: {w.handlers[id(h)].started})", hang + 1)
                elif ex >= 0 and not (0 <= st < ex and 0 <= s < ex and log[ex][3]):
                    bad_r = bad_r or (f"{log[en][2]}() returns before the replay completed (layer started: {0 <= st < ex}, completion signalled: {0 <= s < ex}, last hook delivered: {log[ex][3]})", ex + 1)
    ctx.check(not bad, "R53.1", W, f"concurrency 1: {bad[0] if bad else ''}", f"{bad[0] if bad else ''}{crashed} (events: {show(bad[1]) if bad else ''}): the next replay starts before the previous one finished",
              desc=f"playback (concurrency 1): each of {len(flows)} queued flows is dequeued in order, replayed to completion, then task_done() ({n_done}) and only then the next queue.get() ({len(log)} events)")
    ctx.check(not bad_h, "R53.1", W, "the awaited replay is not that of a handler built from the dequeued flow", f"{bad_h[0] if bad_h else ''}{crashed}: the flow that was dequeued is not the one whose completion is awaited",
              desc=f"playback: a {w.handler_order[0]._cls if w.handler_order else '?'} is built from the dequeued flow and its coroutine awaited ({len(w.handler_order)} handlers)")
    # in-flight bookkeeping, by its role: check() refuses the flow exactly while it is being replayed
    starts = [e for e in log if e[0] == "start"]
    sets = [e for e in log if e[0] == "set" and e[2] is not None]
    not_refused = [w.handlers[id(e[1])].flow._name for e in starts if e[2] is False] + [w.handlers[id(e[1])].flow._name for e in sets if e[2]["inflight"] is False]
    ok = bool(starts) and not not_refused and idle_refused == []
    why = (f"check() admits {sorted(set(not_refused))} while it is being replayed" if not_refused else
           f"check() still refuses {idle_refused} after the loop went idle" if idle_refused else "no replay was started / the loop never went idle")
    ctx.check(ok or bool(bad and not starts), "R53.1", W, "the flow being replayed is not published as in flight for exactly the duration of the replay",
              f"{why}: check() cannot refuse the flow that is being replayed / refuses it forever",
              desc=f"playback: check() refuses the dequeued flow as in flight during its replay ({len(starts)} starts, {len(sets)} completions) and admits all again when idle")
    rep = sorted({log[i][2] for i in range(len(log)) if log[i][0] == "enter"})
    if not rep and not (bad or bad_h):
        raise AnalysisError("client replay model: no coroutine of the replay handler was awaited although the sequencing held (not understood)")
    hq = f"{w.handler_order[0]._cls}.{rep[0]}" if rep else qual
    ctx.check(not bad_r, "R53.1", _where(ctx, hq), f"{rep[0] if rep else 'replay'}(): {bad_r[0] if bad_r else ''}",
              f"{bad_r[0] if bad_r else ''}{crashed} (events: {show(bad_r[1]) if bad_r else ''}): the handler must start the layer and then wait for the completion signal; otherwise the playback loop continues early",
              desc=f"{hq}: server_event(Start) first, returns only after completion was signalled and the last hook was handled")
    # unlimited mode really is the only one that spawns (keeps the decision non-vacuous)
    w2, flows2, loop2, _ = run_playback(ctx, -1)
    n_sp = sum(1 for e in w2.log if e[0] == "start" and e[3] is not loop2)
    ctx.require(ctx.findings or n_sp == len(flows2), f"{qual}: concurrency -1 starts {n_sp} replays in tasks of their own for {len(flows2)} flows (option decision not recognised)")
    return w


def check_handler(ctx, pw):
    hh = ctx.func(F, "ReplayHandler.handle_hook")
    ctor = pw.ctor
    if ctor is None:
        cref = ClassRef(ctx.model.module(F), ctx.model.cls(F, "ReplayHandler"))
        ctor = (cref, ["$flow", "$options"], {})
    W = (F, f"{ctor[0].node.name}.handle_hook", hh)
    probe = _World(ctx.model)
    classes = probe.hook_classes()
    completing = {}
    bad = None
    n_runs = n_complete = 0
    for cname in sorted(classes):
        for transports in (True, False):
            for intercept in (False, True):
                w = _World(ctx.model, transports=transports, intercept=(cname,) if intercept else ())
                fl = w.new_flow("flow")

                def sub(a):
                    if isinstance(a, Rec):
                        return fl if a.isa("Flow") else w.options if a.isa("Options") else a
                    return fl if isinstance(a, str) and a == "$flow" else w.options if isinstance(a, str) and a == "$options" else a

                h = w.make_handler(ctor[0], [sub(a) for a in ctor[1]], {k: sub(v) for k, v in ctor[2].items()})
                w.handlers[id(h)].started = True
                _guarded(f"handle_hook({cname})", w.deliver, h, cname)
                ctx.cells += 1
                ctx.paths += len(w.log)
                ctx.functions |= w.functions
                n_runs += 1
                sets = [e for e in w.log if e[0] == "set"]
                completing.setdefault(cname, set()).add(bool(sets))
                world = f"{cname}, {'with' if transports else 'without'} server transports, flow {'intercepted in this hook' if intercept else 'not intercepted'}"
                late = [e for e in w.log if e[0] == "resume" and e[3]]
                if late:
                    bad = bad or ("completion is signalled before the flow was resumed", "wait_for_resume is awaited after the completion signal: the next replay starts while this flow is still intercepted", world)
                if cname in TERMINAL and not sets:
                    bad = bad or ("a response / error hook does not signal completion", "the replay never finishes and the queue hangs", world)
                if sets:
                    n_complete += 1
                    fa = sets[0][2]
                    if fa is None or sets[0][1] is not h:
                        raise AnalysisError("client replay model: an event that does not belong to the handler is set inside handle_hook (not understood)")
                    if not fa["lifecycle"]:
                        bad = bad or ("completion is signalled before the addons handled the hook", "handle_lifecycle has not run yet", world)
                    if fa["open"]:
                        bad = bad or ("completion is signalled before the server transports were closed and awaited", f"{fa['open']} not cancelled and awaited when the signal is given", world)
                    if fa["flow"] and fa["intercepted"]:
                        bad = bad or ("completion is signalled without waiting for the flow to be resumed", "the flow is still intercepted when the signal is given: the next replay starts while this flow is still live and editable", world)
    ctx.check(not bad, "R53.1", W, f"handle_hook: {bad[0] if bad else ''}", f"{bad[0] if bad else ''}: {bad[1] if bad else ''} (world: {bad[2] if bad else ''})",
              desc=f"handle_hook: completion is signalled on every response / error hook run, after handle_lifecycle, wait_for_resume and transport shutdown ({n_runs} runs over {len(classes)} hook classes, {n_complete} completing)")
    got = sorted(c for c, v in completing.items() if True in v)
    ctx.check(got == sorted(TERMINAL), "R53.1", W, f"completion hooks: {got}",
              "exactly the response and the error hook end a replay: an earlier hook lets the next replay start too soon, a missing one hangs the queue",
              desc=f"handle_hook: completion hooks = {{HttpResponseHook, HttpErrorHook}} among {len(classes)} hook classes")


# ---------------------------------------------------------------------------------------------------
# R53.2


def _cells(w):
    ws = _lenient(Rec("WebSocketData", _name="websocket"))
    cells = [("replayable", w.new_flow("plain"), False), ("live", w.new_flow("live", live=True), True), ("intercepted", w.new_flow("intercepted", intercepted=True), True),
             ("no request", w.new_flow("norequest", request=None), True), ("websocket", w.new_flow("ws", websocket=ws), True)]
    nc = w.new_flow("nocontent")
    object.__setattr__(nc.request, "raw_content", None)
    object.__setattr__(nc.request, "content", None)
    cells.append(("no content", nc, True))
    for impl in OTHER_FLOWS:
        if w.model.exists(impl[0]) and w.model.has(*impl):
            cells.append((f"not HTTP ({impl[1]})", w.new_flow(impl[1].lower(), impl=impl), True))
    if len(cells) < 7:
        raise AnalysisError("no non-HTTP flow class (TCPFlow / UDPFlow / DNSFlow) found: anchors vanished")
    return cells


def check_table(ctx):
    fn = ctx.func(F, f"{ADDON}.check")
    W = (F, f"{ADDON}.check", fn)
    w = _World(ctx.model)
    w.new_addon()
    bad = []
    cells = _cells(w)
    for name, fl, refused in cells:
        ctx.cells += 1
        try:
            got = w.call(w.addon, "check", fl)
        except Raised as e:
            got = f"raises {e}"
        if refused and not (isinstance(got, str) and got):
            bad.append((name, got))
        if not refused and got is not None:
            raise AnalysisError(f"{ADDON}.check refuses a plain replayable flow ({got!r}): evaluation not understood")
    ctx.functions |= w.functions
    for name, got in bad:
        ctx.fail("R53.2", W, f"check() admits a flow that is {name}", f"check returns {got!r}: such a flow would be queued for replay")
    if not bad:
        ctx.ok("R53.2", f"check(): live, intercepted, no request, no content, websocket, not HTTP are refused; the plain flow is admitted ({len(cells)} cells; the in-flight cell is decided in the playback run)")


def check_start_stop(ctx):
    fs = ctx.func(F, f"{ADDON}.start_replay")
    fp = ctx.func(F, f"{ADDON}.stop_replay")
    WS, WP = (F, f"{ADDON}.start_replay", fs), (F, f"{ADDON}.stop_replay", fp)

    # (a) a mixed submission: exactly the replayable flows are queued
    w = _World(ctx.model)
    w.new_addon()
    cells = _cells(w)
    more = w.new_flow("plain2")
    sub = [cells[0][1]] + [c[1] for c in cells[1:4]] + [more] + [c[1] for c in cells[4:]]
    want = [cells[0][1], more]
    _guarded("start_replay", w.call, w.addon, "start_replay", list(sub))
    ctx.cells += 1
    ctx.functions |= w.functions
    queued = list(w.queue.items)
    extra = [f._name for f in queued if not any(f is x for x in want)]
    missing = [f._name for f in want if not any(f is x for x in queued)]
    if missing:
        raise AnalysisError(f"start_replay does not queue the replayable flows {missing} (evaluation not understood)")
    ctx.check(not extra and len(queued) == len(want), "R53.2", WS, "start_replay: a flow is queued although check() did not clear it",
              f"submitting {[f._name for f in sub]} queues {[f._name for f in queued]}: a flow is queued although check() did not clear it",
              desc=f"start_replay: of {len(sub)} submitted flows exactly the {len(want)} that check() admits are queued")

    # (b) / (c) start, then stop: every queued flow is back in its pre-replay state, also after a second submission
    results = {}
    for label, rounds in (("once", 1), ("twice", 2)):
        w = _World(ctx.model)
        w.new_addon()
        flows = [w.new_flow(f"flow{i + 1}") for i in range(2)]
        pre = [_freeze(f) for f in flows]
        for _ in range(rounds):
            _guarded("start_replay", w.call, w.addon, "start_replay", list(flows))
        prepared = [_freeze(f) for f in flows]
        n_q = len(w.queue.items)
        _guarded("stop_replay", w.call, w.addon, "stop_replay")
        post = [_freeze(f) for f in flows]
        ctx.cells += 1
        ctx.functions |= w.functions
        results[label] = (flows, pre, prepared, post, n_q, len(w.queue.items), [e for e in w.log if e[0] == "get_nowait"])
    flows, pre, prepared, post, n_q, left, gets = results["once"]
    ctx.require(n_q == len(flows), f"start_replay queued {n_q} of {len(flows)} plain flows (evaluation not understood)")
    d = [(f._name, _diff(a, b)) for f, a, b in zip(flows, pre, post) if a != b]
    touched = [f._name for f, a, b in zip(flows, pre, prepared) if a != b]
    reverted_none = all(a == b for a, b in zip(prepared, post)) and bool(touched)
    if not d:
        ctx.ok("R53.2", f"start_replay ; stop_replay: every queued flow is back in its pre-replay state (backup() before the first modification, revert() of each; {len(flows)} flows, prepared state differs for {touched})")
    elif left or reverted_none:
        pass  # stop_replay's fault: reported below
    else:
        ctx.fail("R53.2", WS, "start_replay: the flow is modified / queued before backup(): stop_replay cannot restore its pre-replay state",
                 f"after start_replay ; stop_replay the flows differ from their pre-replay state in {d}: the snapshot was taken after a modification")
    # stop_replay: drains everything, reverts each
    drained = []
    for n in (0, 1, 3):
        w = _World(ctx.model)
        w.new_addon()
        fl = [w.new_flow(f"flow{i + 1}") for i in range(n)]
        if n:
            _guarded("start_replay", w.call, w.addon, "start_replay", list(fl))
            ctx.require(len(w.queue.items) == n, "start_replay did not queue plain flows (evaluation not understood)")
        _guarded("stop_replay", w.call, w.addon, "stop_replay")
        ctx.cells += 1
        drained.append((n, len(w.queue.items)))
    stuck = [(n, k) for n, k in drained if k]
    ctx.check(not stuck and not left, "R53.2", WP, "stop_replay leaves the drain loop while flows may still be queued",
              f"(queued before, still queued after) = {stuck or [(n_q, left)]}: queued flows stay queued (and un-reverted) after replay.client.stop",
              desc="stop_replay: the queue is empty afterwards (0, 1 and 3 queued flows)")
    ctx.check(bool(left) or not (d and reverted_none), "R53.2", WP, "a dequeued flow is not reverted",
              f"stop_replay dequeues {[e[1]._name for e in gets]} but leaves them in the prepared state (differences to the pre-replay state: {d}): stop_replay must restore every still-queued flow (backup taken by start_replay)",
              desc=f"stop_replay: every dequeued flow is reverted ({len(gets)} flows)")
    # the snapshot start_replay takes must never replace an existing one
    flows2, pre2, _, post2, n_q2, left2, _ = results["twice"]
    d2 = [(f._name, _diff(a, b)) for f, a, b in zip(flows2, pre2, post2) if a != b]
    ctx.check(bool(d) or bool(left2) or not d2, "R53.2", WS, "start_replay: backup() may replace an existing backup",
              f"a flow submitted again while it is still queued ({n_q2} queue entries for {len(flows2)} flows) does not return to its pre-replay state on stop_replay (differences: {d2}): as called here, "
              "Flow.backup stores a new snapshot although one exists, so the pre-replay snapshot is overwritten by the prepared state (no response, is_replay set) and replay.client.stop cannot restore it",
              desc="start_replay twice ; stop_replay: the second backup() keeps the first (pre-replay) snapshot, the flows return to their pre-replay state")


def check(ctx):
    ctx.rule("R53.1", "concurrency 1: dequeue -> await replay -> task_done, inflight published; replay() waits for done; done is set exactly on the response / error "
             "hook after the hook ran and transports were closed")
    ctx.rule("R53.2", "check() refuses every unreplayable class; start_replay queues only cleared flows after backup(); stop_replay drains the whole queue and reverts each flow")
    pw = check_playback(ctx)
    check_handler(ctx, pw)
    check_table(ctx)
    check_start_stop(ctx)
    ctx.assume("asyncio.Queue is FIFO; awaiting a coroutine runs it to completion before the next statement; tasks run when the current one suspends")
    ctx.assume("Flow.get_state / set_state snapshot and restore the flow faithfully (C40); the proxy core delivers hooks only after Start and ends a replay with a response or an error hook (C03)")
    ctx.bounds.append("3 queued flows per playback world; one hook per handle_hook world; submissions of 2-9 flows")
    if not ctx.findings:
        ctx.expect_instances("R53.1", 6)
        ctx.expect_instances("R53.2", 6)


MUTANTS = [
    Mutant("replay-not-awaited", F, "                else:\n                    await h.replay()", "                else:\n                    asyncio.ensure_future(h.replay())", "R53.1"),
    Mutant("concurrency-test-inverted", F, "if ctx.options.client_replay_concurrency == -1:", "if ctx.options.client_replay_concurrency != -1:", "R53.1"),
    Mutant("task-done-before-replay", F, "                assert self.inflight\n", "                assert self.inflight\n                self.queue.task_done()\n", "R53.1"),
    Mutant("inflight-not-published", F, "            self.inflight = await self.queue.get()\n            try:\n                assert self.inflight\n                h = ReplayHandler(self.inflight, self.options)",
           "            nxt = await self.queue.get()\n            try:\n                h = ReplayHandler(nxt, self.options)", "R53.1"),
    Mutant("replay-returns-without-waiting", F, "        await self.done.wait()\n", "", "R53.1"),
    Mutant("done-after-request-hook", F, "if isinstance(hook, (layers.http.HttpResponseHook, layers.http.HttpErrorHook)):", "if isinstance(hook, (layers.http.HttpRequestHook, layers.http.HttpResponseHook, layers.http.HttpErrorHook)):", "R53.1"),
    Mutant("error-hook-never-completes", F, "if isinstance(hook, (layers.http.HttpResponseHook, layers.http.HttpErrorHook)):", "if isinstance(hook, layers.http.HttpResponseHook):", "R53.1"),
    Mutant("done-before-transports-closed", F, "        if isinstance(hook, (layers.http.HttpResponseHook, layers.http.HttpErrorHook)):\n            if self.transports:",
           "        if isinstance(hook, (layers.http.HttpResponseHook, layers.http.HttpErrorHook)):\n            self.done.set()\n            if self.transports:", "R53.1"),
    Mutant("done-for-every-hook", F, "            # signal completion\n            self.done.set()", "        # signal completion\n        self.done.set()", "R53.1"),
    # seed C53a: completion signalled (and transports closed) before the flow is resumed
    Mutant("done-before-resume", F,
           "        if isinstance(data, flow.Flow):\n            await data.wait_for_resume()\n        if isinstance(hook, (layers.http.HttpResponseHook, layers.http.HttpErrorHook)):\n",
           "        if isinstance(hook, (layers.http.HttpResponseHook, layers.http.HttpErrorHook)):\n            self.done.set()\n        if isinstance(data, flow.Flow):\n            await data.wait_for_resume()\n"
           "        if isinstance(hook, (layers.http.HttpResponseHook, layers.http.HttpErrorHook)):\n", "R53.1"),
    Mutant("never-waits-for-resume", F, "        if isinstance(data, flow.Flow):\n            await data.wait_for_resume()\n", "", "R53.1"),
    Mutant("resume-awaited-only-for-intermediate-hooks", F, "        if isinstance(data, flow.Flow):\n            await data.wait_for_resume()\n        if isinstance(hook, (layers.http.HttpResponseHook, layers.http.HttpErrorHook)):\n",
           "        if isinstance(hook, (layers.http.HttpResponseHook, layers.http.HttpErrorHook)):\n            pass\n        elif isinstance(data, flow.Flow):\n            await data.wait_for_resume()\n"
           "        if isinstance(hook, (layers.http.HttpResponseHook, layers.http.HttpErrorHook)):\n", "R53.1"),
    Mutant("only-one-transport-closed", F, "                for x in self.transports.values():\n                    if x.handler:\n                        x.handler.cancel()\n",
           "                for x in self.transports.values():\n                    if x.handler:\n                        x.handler.cancel()\n                        break\n", "R53.1"),
    Mutant("inflight-never-cleared", F, "            self.queue.task_done()\n            self.inflight = None\n", "            self.queue.task_done()\n", "R53.1"),
    Mutant("loop-ends-after-first-flow", F, "            self.queue.task_done()\n            self.inflight = None\n", "            self.queue.task_done()\n            self.inflight = None\n            return\n", "R53.1"),
    # seed C53b: the pre-replay snapshot is replaced when a queued flow is submitted again
    Mutant("replay-backup-forced", "mitmproxy/flow.py", "    def backup(self, force=False):\n        \"\"\"\n        Save a backup of this flow, which can be restored by calling `Flow.revert()`.\n        \"\"\"\n        if not self._backup:\n",
           "    def backup(self, force=True):\n        \"\"\"\n        Save a backup of this flow, which can be restored by calling `Flow.revert()`.\n        \"\"\"\n        if force or not self._backup:\n", "R53.2"),
    Mutant("replay-backup-overwrites", "mitmproxy/flow.py", "        if not self._backup:\n            self._backup = self.get_state()\n", "        self._backup = self.get_state()\n", "R53.2"),
    Mutant("replay-backup-refreshed-when-present", "mitmproxy/flow.py", "        if not self._backup:\n            self._backup = self.get_state()\n",
           "        if self._backup is not None:\n            self._backup = self.get_state()\n        else:\n            self._backup = self.get_state()\n", "R53.2"),
    Mutant("live-flows-admitted", F, "        if f.live or f == self.inflight:", "        if f == self.inflight:", "R53.2"),
    Mutant("websocket-flows-admitted", F, "            if f.websocket is not None:\n                return \"Can't replay WebSocket flows.\"\n", "", "R53.2"),
    Mutant("non-http-flows-admitted", F, "        else:\n            return \"Can only replay HTTP flows.\"\n", "", "R53.2"),
    Mutant("refused-flows-queued-anyway", F, "                logger.warning(err)\n                continue\n", "                logger.warning(err)\n", "R53.2"),
    Mutant("backup-after-modification", F, "            http_flow.backup()\n            http_flow.is_replay = \"request\"\n", "            http_flow.is_replay = \"request\"\n            http_flow.backup()\n", "R53.2"),
    Mutant("stop-does-not-revert", F, "                f.revert()\n", "", "R53.2"),
    Mutant("stop-drains-one-flow-only", F, "                updated.append(f)\n\n        ctx.master.addons.trigger(UpdateHook(updated))\n        logger.log(ALERT", "                updated.append(f)\n                break\n\n        ctx.master.addons.trigger(UpdateHook(updated))\n        logger.log(ALERT", "R53.2"),
]
