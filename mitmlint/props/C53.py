"""C53 - client replay runs queued flows sequentially and cleans up.

Decided from the source of mitmproxy/addons/clientplayback.py:
  R53.1 sequencing (path enumeration of the ``while True`` body of ClientPlayback.playback, client_replay_concurrency decided per
        cell): with a concurrency other than -1 every iteration that dequeued a flow awaits ``h.replay()`` (never a spawned task)
        before ``queue.task_done()`` / the next ``queue.get()``; the dequeued flow is published in ``self.inflight`` for the
        duration and cleared afterwards; ReplayHandler.replay ends with ``await self.done.wait()`` after starting the layer;
        handle_hook sets ``done`` exactly for HttpResponseHook / HttpErrorHook (every such path, no other hook), after the addon
        hook ran, the flow was resumed (``await <flow>.wait_for_resume()`` precedes ``done.set()`` on every completing path whose
        hook data is a flow, and is never awaited after it: a flow intercepted in its response / error hook is still live and
        editable, its replay has not finished, so the next queued request must not be sent yet) and the server transports
        were cancelled and awaited.
  R53.2 admission and cleanup: ClientPlayback.check (evaluated on the AST over 8 cells) refuses live, in-flight, intercepted,
        request-less, content-less, WebSocket and non-HTTP flows and admits the plain replayable flow; start_replay queues a flow
        only on paths where check() returned nothing, after backup() and before nothing else touched it; the backup call, as
        start_replay makes it (Flow.backup resolved along HTTPFlow's MRO and enumerated with the call's actual arguments bound),
        stores a snapshot only on paths that established that no backup exists - check() does not refuse a flow that is already
        queued, so a second submission must keep the first (pre-replay) snapshot, otherwise stop_replay's revert() "restores"
        the prepared state (response None, is_replay set); stop_replay drains the
        queue completely (only QueueEmpty leaves the loop) and reverts every dequeued flow.
NOT decided: asyncio scheduling, what happens inside the proxy core between Start and the final hook (C03), Flow.backup/revert
themselves (C40).
"""

from __future__ import annotations

import ast

from ..core import AnalysisError
from ..core import norm
from ..model import attr_chain
from ..model import call_name
from ..model import eval_order
from ..model import last_attr
from ..model import stmts_of
from ..paths import C
from ..paths import GenericSpec
from ..paths import index_of
from ..paths import State
from ..paths import UNKNOWN
from ..selftest import Mutant
from ..paths import traces_of
from ._helpers_E import ESpec
from ._helpers_E import fact
from ._helpers_F import own_nodes
from ._helpers_F import params_of
from ._helpers_F import PureEval
from ._helpers_F import Raised
from ._helpers_F import StrictEngine

PROP = "C53"
REG = {
    "strength": "narrow",
    "technique": "path enumeration of the playback loop body, of ReplayHandler.handle_hook / replay, of start_replay and stop_replay (exception edge "
    "for QueueEmpty); decision table of ClientPlayback.check evaluated on the AST",
    "claim": "with concurrency 1 a dequeued flow is awaited to completion before the queue is touched again; completion is signalled exactly by the "
    "response / error hook after the flow was resumed and transports are closed; unreplayable flows are refused by check and never queued; queued flows are "
    "backed up first by a call that never replaces an existing snapshot (Flow.backup enumerated with start_replay's arguments) and stop_replay reverts every one of them.",
    "note": "Scheduling orders are not decided. Loops unrolled once.",
}

F = "mitmproxy/addons/clientplayback.py"


class Ev(GenericSpec):
    """calls / awaits as ('call'|'await', dotted name), assignments as ('assign', target), conditions via ``conds``."""

    def __init__(self, conds=None, raises=None, env_values=None):
        super().__init__(record_conds=True)
        self._conds = conds or (lambda e: None)
        self._raises = raises or (lambda st: [])
        self._vals = env_values or {}

    def value(self, expr, st, depth):
        if isinstance(expr, ast.UnaryOp) and isinstance(expr.op, ast.USub) and isinstance(expr.operand, ast.Constant):
            return C(-expr.operand.value)
        ch = attr_chain(expr)
        if ch in self._vals:
            return st.get(self._vals[ch])
        return super().value(expr, st, depth)

    def events(self, node, st):
        out = []
        for n in eval_order(node):
            if isinstance(n, ast.Await):
                inner = n.value
                out.append(("await", norm(inner.func) if isinstance(inner, ast.Call) else norm(inner)))
            elif isinstance(n, ast.Call):
                par = getattr(n, "_parent", None)
                if isinstance(par, ast.Await):
                    continue
                out.append(("call", norm(n.func), tuple(norm(a) for a in n.args)))
        if isinstance(node, ast.Assign):
            for t in node.targets:
                v = "None" if isinstance(node.value, ast.Constant) and node.value.value is None else norm(node.value)
                out.append(("assign", norm(t), v))
        return out

    def cond_event(self, expr, value, st):
        r = self._conds(expr)
        if r:
            return (r[0], value if r[1] else not value)
        return None

    def raises_into(self, stmt, handler_names, st):
        return self._raises(stmt)


# ---------------------------------------------------------------------------------------------------
# R53.1


def check_playback(ctx):
    fn = ctx.func(F, "ClientPlayback.playback")
    W = (F, "ClientPlayback.playback", fn)
    body = stmts_of(fn)
    ctx.require(len(body) == 1 and isinstance(body[0], ast.While) and isinstance(body[0].test, ast.Constant) and body[0].test.value is True and not body[0].orelse,
                "ClientPlayback.playback is no longer a single `while True` loop")
    loop = body[0]
    opt = "ctx.options.client_replay_concurrency"

    def conds(e):
        if attr_chain(e) == "self.inflight":
            return ("inflight-set", True)
        return None

    results = {}
    for conc in (1, -1):
        sp = Ev(conds, env_values={opt: "$conc"})
        eng = StrictEngine(sp, lambda e: conds(e) is not None, "ClientPlayback.playback")
        o = eng.block(loop.body, {State((), {"$conc": C(conc)})}, 0)
        ctx.cells += 1
        ctx.require(not o.ret and not o.brk, "ClientPlayback.playback: the loop can be left (not modelled)")
        results[conc] = [s.trace for s in o.normal | o.cont]
        ctx.paths += len(results[conc])
    seq = results[1]
    ctx.require(seq and all(("await", "self.queue.get") in tr for tr in seq), "ClientPlayback.playback: iteration does not start with `await self.queue.get()`")
    bad = None
    for tr in seq:
        g = index_of(tr, lambda e: e == ("await", "self.queue.get"))
        spawned = [e for e in tr if e[0] == "call" and (e[1].endswith("create_task") or e[1].endswith("ensure_future") or e[1].endswith("run_coroutine_threadsafe"))]
        rep = [i for i, e in enumerate(tr) if e[0] == "await" and e[1].endswith(".replay")]
        if spawned:
            bad = bad or ("the replay is spawned as a task although concurrency is 1", tr)
        elif not rep or rep[0] < g:
            bad = bad or ("the iteration does not await h.replay() after dequeuing", tr)
        else:
            td = index_of(tr, lambda e: e[0] == "call" and e[1] == "self.queue.task_done")
            if td >= 0 and td < rep[0]:
                bad = bad or ("queue.task_done() is reported before the replay finished", tr)
            if any(e == ("await", "self.queue.get") for e in tr[g + 1:]):
                bad = bad or ("a second flow is dequeued in the same iteration", tr)
    ctx.check(not bad, "R53.1", W, f"concurrency 1: {bad[0] if bad else ''}", f"{bad[0] if bad else ''} (path {list(bad[1]) if bad else ''}): the next replay starts before the previous one finished",
              desc=f"playback (concurrency 1): await queue.get() -> await h.replay() -> task_done() on all {len(seq)} iteration paths")
    # the handler awaited is a ReplayHandler built from the dequeued flow
    hs = [n for n in own_nodes(fn) if isinstance(n, ast.Assign) and isinstance(n.value, ast.Call) and call_name(n.value) == "ReplayHandler"]
    ok = len(hs) == 1 and hs[0].value.args and norm(hs[0].value.args[0]) == "self.inflight" and isinstance(hs[0].targets[0], ast.Name)
    ok = ok and all(any(e == ("await", f"{hs[0].targets[0].id}.replay") for e in tr) for tr in seq)
    ctx.check(ok, "R53.1", W, "the awaited replay is not ReplayHandler(self.inflight, ...).replay()", "the flow that was dequeued is not the one whose completion is awaited",
              desc="playback: h = ReplayHandler(self.inflight, ...) ; await h.replay()")
    # inflight bookkeeping
    bad = None
    for tr in seq:
        g = index_of(tr, lambda e: e[0] == "assign" and e[1] == "self.inflight" and "self.queue.get" in e[2])
        c = index_of(tr, lambda e: e == ("assign", "self.inflight", "None"))
        rep = index_of(tr, lambda e: e[0] == "await" and e[1].endswith(".replay"))
        if not (0 <= g < rep < c):
            bad = bad or tr
    ctx.check(not bad, "R53.1", W, "self.inflight is not set from queue.get() before and cleared after the replay", "check() cannot refuse the flow that is being replayed / refuses it forever",
              desc="playback: self.inflight = dequeued flow during the replay, None afterwards")
    # unlimited mode really is the only one that spawns (keeps the decision non-vacuous)
    ctx.require(ctx.findings or any(any(e[0] == "call" and e[1].endswith("create_task") for e in tr) for tr in results[-1]), "ClientPlayback.playback: concurrency -1 does not spawn tasks (option decision not recognised)")


def check_handler(ctx):
    fn = ctx.func(F, "ReplayHandler.replay")
    W = (F, "ReplayHandler.replay", fn)
    eng = StrictEngine(Ev(), lambda e: False, "ReplayHandler.replay")
    trs = eng.terminal(fn)
    ok = len(trs) == 1 and [e for e in trs[0][0] if e[0] == "await"] == [("await", "self.server_event"), ("await", "self.done.wait")] and trs[0][0][-1] == ("await", "self.done.wait")
    ctx.check(ok, "R53.1", W, f"replay(): {[e[1] for t in trs for e in t[0]]}", "replay() must start the layer and then wait for the completion signal; otherwise the playback loop continues early",
              desc="ReplayHandler.replay: await server_event(Start()) ; await done.wait()")
    init = ctx.func(F, "ReplayHandler.__init__")
    ok = any(isinstance(n, ast.Assign) and attr_chain(n.targets[0]) == "self.done" and isinstance(n.value, ast.Call) and call_name(n.value) == "asyncio.Event" for n in own_nodes(init))
    ctx.require(ok, "ReplayHandler.__init__: self.done is no longer an asyncio.Event()")
    hh = ctx.func(F, "ReplayHandler.handle_hook")
    W = (F, "ReplayHandler.handle_hook", hh)
    hook = params_of(hh)[1]
    terminal_names = None

    def conds(e):
        nonlocal terminal_names
        if isinstance(e, ast.Call) and call_name(e) == "isinstance" and len(e.args) == 2 and norm(e.args[0]) == hook:
            names = sorted(last_attr(x) for x in (e.args[1].elts if isinstance(e.args[1], ast.Tuple) else [e.args[1]]))
            terminal_names = names
            return ("terminal", True)
        if isinstance(e, ast.Call) and call_name(e) == "isinstance":
            return ("is-flow", True)
        if attr_chain(e) in ("self.transports", "x.handler"):
            return ("has-" + attr_chain(e).split(".")[-1], True)
        return None

    eng = StrictEngine(Ev(conds), lambda e: conds(e) is not None, "ReplayHandler.handle_hook")
    trs = eng.terminal(hh)
    ctx.paths += len(trs)
    # same-class helpers that await wait_for_resume themselves count as the resume point (extracted-helper refactor)
    rh = ctx.model.cls(F, "ReplayHandler")
    resume_helpers = {f"self.{d.name}" for d in rh.body if isinstance(d, ast.AsyncFunctionDef) and d is not hh
                      and any(isinstance(n, ast.Await) and isinstance(n.value, ast.Call) and norm(n.value.func).endswith(".wait_for_resume") for n in ast.walk(d))}
    bad = None
    n_resume_checked = 0
    trs = sorted(trs, key=lambda x: (repr(x[0]), x[1]))  # deterministic choice of the reported path
    for tr, how, _ in trs:  # the more specific diagnosis first
        sets = [i for i, e in enumerate(tr) if e[0] == "call" and e[1] == "self.done.set"]
        if sets and any(e[0] == "await" and (e[1].endswith(".wait_for_resume") or e[1] in resume_helpers) for e in tr[sets[0]:]):
            bad = bad or ("completion is signalled before the flow was resumed (wait_for_resume is awaited after done.set()): the next replay starts while this flow is still intercepted", tr)
    for tr, how, _ in trs:
        sets = [i for i, e in enumerate(tr) if e[0] == "call" and e[1] == "self.done.set"]
        if ("terminal", True) in tr and not sets and how == "return":
            bad = bad or ("a response / error hook does not signal completion: the replay never finishes", tr)
        if sets and ("terminal", True) not in tr[:sets[0]]:
            bad = bad or ("completion is signalled for a hook that is not the response / error hook", tr)
        if sets:
            lc = index_of(tr, lambda e: e[0] == "await" and "handle_lifecycle" in e[1])
            if not (0 <= lc < sets[0]):
                bad = bad or ("completion is signalled before the addons handled the hook", tr)
            if ("has-transports", True) in tr:
                w = index_of(tr, lambda e: e[0] == "await" and e[1] == "asyncio.wait")
                if not (0 <= w < sets[0]):
                    bad = bad or ("completion is signalled before the server transports were closed and awaited", tr)
            resumes = [i for i, e in enumerate(tr) if e[0] == "await" and (e[1].endswith(".wait_for_resume") or e[1] in resume_helpers)]
            n_resume_checked += 1
            if any(i > sets[0] for i in resumes):
                bad = bad or ("completion is signalled before the flow was resumed (wait_for_resume is awaited after done.set()): the next replay starts while this flow is still intercepted", tr)
            elif ("is-flow", False) not in tr[:sets[0]] and not resumes:
                bad = bad or ("completion is signalled without waiting for the flow to be resumed: the next replay starts while this flow is still intercepted", tr)
    ctx.check(not bad, "R53.1", W, f"handle_hook: {bad[0] if bad else ''}", f"{bad[0] if bad else ''} (path {list(bad[1]) if bad else ''})",
              desc=f"handle_hook: done.set() on every and only response / error hook path, after handle_lifecycle, wait_for_resume and transport shutdown ({len(trs)} paths, {n_resume_checked} completing)")
    ctx.require(terminal_names is not None, "handle_hook: no isinstance(hook, ...) test found")
    ctx.check(terminal_names == ["HttpErrorHook", "HttpResponseHook"], "R53.1", W, f"completion hooks: {terminal_names}",
              "exactly the response and the error hook end a replay: an earlier hook lets the next replay start too soon, a missing one hangs the queue",
              desc="handle_hook: completion hooks = {HttpResponseHook, HttpErrorHook}")


# ---------------------------------------------------------------------------------------------------
# R53.2


class _Obj:
    def __init__(self, name):
        self.name = name

    def __repr__(self):
        return f"<{self.name}>"


def check_table(ctx):
    fn = ctx.func(F, "ClientPlayback.check")
    W = (F, "ClientPlayback.check", fn)
    ps = params_of(fn)
    ctx.require(len(ps) == 2, "ClientPlayback.check signature changed")
    f = ps[1]
    base = {"live": False, "inflight": False, "intercepted": False, "http": True, "request": True, "content": b"x", "websocket": None}
    cells = [("replayable", {}, False), ("live", {"live": True}, True), ("in flight", {"inflight": True}, True), ("intercepted", {"intercepted": True}, True),
             ("no request", {"request": None}, True), ("no content", {"content": None}, True), ("websocket", {"websocket": _Obj("ws")}, True), ("not HTTP", {"http": False}, True)]
    bad = []
    for name, delta, refused in cells:
        c = dict(base, **delta)
        flow = _Obj("flow")
        chains = {f"{f}.live": c["live"], f"{f}.intercepted": c["intercepted"], f"{f}.request": _Obj("req") if c["request"] else None, f"{f}.request.raw_content": c["content"],
                  f"{f}.request.content": c["content"], f"{f}.websocket": c["websocket"], "self.inflight": flow if c["inflight"] else None, "http.HTTPFlow": "HTTPFlow", "flow.Flow": "Flow"}
        ev = PureEval("ClientPlayback.check", chains=chains, calls={"isinstance": lambda obj, cls, c=c: (c["http"] if cls == "HTTPFlow" else True)})
        ctx.cells += 1
        try:
            got = ev.call(fn, _Obj("self"), flow)
        except Raised as e:
            got = f"raises {e}"
        if refused and not (isinstance(got, str) and got):
            bad.append((name, got))
        if not refused and got is not None:
            raise AnalysisError(f"ClientPlayback.check refuses a plain replayable flow ({got!r}): evaluation not understood")
    for name, got in bad:
        ctx.fail("R53.2", W, f"check() admits a flow that is {name}", f"check returns {got!r}: such a flow would be queued for replay")
    if not bad:
        ctx.ok("R53.2", "check(): live, in flight, intercepted, no request, no content, websocket, not HTTP are refused; the plain flow is admitted (8 cells)")


def check_start(ctx):
    fn = ctx.func(F, "ClientPlayback.start_replay")
    W = (F, "ClientPlayback.start_replay", fn)
    loops = [s for s in stmts_of(fn) if isinstance(s, ast.For)]
    ctx.require(len(loops) == 1 and isinstance(loops[0].target, ast.Name) and norm(loops[0].iter) == params_of(fn)[1], "start_replay: loop over the flows not found")
    loop = loops[0]
    fv = loop.target.id
    errs = [n.targets[0].id for n in ast.walk(loop) if isinstance(n, ast.Assign) and isinstance(n.value, ast.Call) and call_name(n.value) == "self.check"
            and [norm(a) for a in n.value.args] == [fv] and isinstance(n.targets[0], ast.Name)]
    ctx.require(len(errs) == 1, "start_replay: `err = self.check(f)` not found")
    aliases = {fv}
    for n in ast.walk(loop):
        if isinstance(n, ast.Assign) and isinstance(n.targets[0], ast.Name) and (norm(n.value) == fv or (isinstance(n.value, ast.Call) and call_name(n.value) == "cast" and norm(n.value.args[-1]) == fv)):
            aliases.add(n.targets[0].id)

    def conds(e):
        if isinstance(e, ast.Name) and e.id == errs[0]:
            return ("refused", True)
        if isinstance(e, ast.Compare) and isinstance(e.left, ast.Name) and e.left.id == errs[0] and len(e.ops) == 1 and isinstance(e.comparators[0], ast.Constant) and e.comparators[0].value is None:
            return ("refused", isinstance(e.ops[0], ast.IsNot))
        return None

    eng = StrictEngine(Ev(conds), lambda e: conds(e) is not None, "ClientPlayback.start_replay")
    o = eng.block(loop.body, {State()}, 0)
    trs = [s.trace for s in o.normal | o.cont | o.brk | o.ret]
    ctx.paths += len(trs)
    puts = [tr for tr in trs if any(e[0] == "call" and e[1] in ("self.queue.put_nowait", "self.queue.put") for e in tr)]
    ctx.require(puts, "start_replay: no path queues a flow (shape not recognised)")
    bad = None
    for tr in puts:
        p = index_of(tr, lambda e: e[0] == "call" and e[1] in ("self.queue.put_nowait", "self.queue.put"))
        if tr[p][2] and tr[p][2][0] not in aliases:
            raise AnalysisError(f"start_replay: queued object {tr[p][2][0]} is not the checked flow (not modelled)")
        ck = index_of(tr, lambda e: e[0] == "call" and e[1] == "self.check")
        if not (0 <= ck < p) or ("refused", False) not in tr[:p] or ("refused", True) in tr[:p]:
            bad = bad or ("a flow is queued although check() did not clear it", tr)
        bk = index_of(tr, lambda e: e[0] == "call" and e[1].endswith(".backup") and e[1].split(".")[0] in aliases)
        first_touch = index_of(tr, lambda e: e[0] == "assign" and e[1].split(".")[0] in aliases and "." in e[1])
        if bk < 0 or bk > p or (0 <= first_touch < bk):
            bad = bad or ("the flow is modified / queued before backup(): stop_replay cannot restore its pre-replay state", tr)
    ctx.check(not bad, "R53.2", W, f"start_replay: {bad[0] if bad else ''}", f"{bad[0] if bad else ''} (path {list(bad[1]) if bad else ''})",
              desc=f"start_replay: queue only when check() is clear, backup() before the first modification ({len(puts)} queuing paths)")
    check_backup_keeps(ctx, fn, loop, aliases)


def check_backup_keeps(ctx, fn, loop, aliases):
    """The snapshot start_replay takes must never replace an existing one (see module docstring)."""
    W = (F, "ClientPlayback.start_replay", fn)
    calls = [n for n in ast.walk(loop) if isinstance(n, ast.Call) and isinstance(n.func, ast.Attribute) and n.func.attr == "backup" and norm(n.func.value) in aliases]
    if not calls:
        return  # reported by check_start (no backup before queuing)
    hit = ctx.model.method("mitmproxy/http.py", "HTTPFlow", "backup")
    ctx.require(hit is not None, "HTTPFlow.backup does not resolve along the MRO")
    bmod, bfn = hit
    ctx.functions.add(f"{bmod.rel}::{getattr(bfn, '_qual', 'Flow.backup')}")
    a = bfn.args
    ctx.require(not a.vararg and not a.kwarg and not a.posonlyargs, "Flow.backup: *args/**kwargs signature not modelled")
    names = [x.arg for x in a.args][1:]
    defaults = dict(zip([x.arg for x in a.args][len(a.args) - len(a.defaults):], a.defaults))
    defaults.update({x.arg: d for x, d in zip(a.kwonlyargs, a.kw_defaults) if d is not None})
    bad = None
    stores = 0
    for c in calls:
        ctx.require(not any(isinstance(x, ast.Starred) for x in c.args) and all(k.arg for k in c.keywords), f"start_replay: {norm(c)} unpacks arguments (not modelled)")
        actual = dict(zip(names, c.args))
        actual.update({k.arg: k.value for k in c.keywords})
        bind = {}
        for pn in names + [x.arg for x in a.kwonlyargs]:
            v = actual.get(pn, defaults.get(pn))
            bind[pn] = C(v.value) if isinstance(v, ast.Constant) else UNKNOWN
        res, eng = traces_of(bfn, ESpec(keep=lambda e: e[0] == "assign" and e[1] == "self._backup"), bindings=bind)
        ctx.paths += len(res)
        for t, how, _ in res:
            if any(e[0] == "assign" for e in t):
                stores += 1
                if fact([e for e in t if e[0] == "cond"], "self._backup") is not False:
                    bad = bad or (norm(c), [e for e in t])
    ctx.require(bad or stores, "Flow.backup never stores a snapshot (shape not recognised)")
    ctx.check(not bad, "R53.2", W, f"start_replay: {bad[0] if bad else ''} may replace an existing backup",
              f"as called here, Flow.backup stores a new snapshot on a path that did not establish that no backup exists (path {bad[1] if bad else ''}): a flow submitted again while it is "
              "still queued gets its pre-replay snapshot overwritten by the prepared state (no response, is_replay set), so replay.client.stop cannot restore it",
              desc=f"start_replay: {norm(calls[0])} keeps an existing snapshot (Flow.backup stores only when no backup exists; {stores} storing path(s))")


def check_stop(ctx):
    fn = ctx.func(F, "ClientPlayback.stop_replay")
    W = (F, "ClientPlayback.stop_replay", fn)
    loops = [s for s in stmts_of(fn) if isinstance(s, (ast.While, ast.For))]
    ctx.require(len(loops) == 1 and isinstance(loops[0], ast.While), "stop_replay: drain loop not found")
    loop = loops[0]
    gets = [n for n in ast.walk(loop) if isinstance(n, ast.Call) and call_name(n) == "self.queue.get_nowait"]
    ctx.require(len(gets) == 1 and isinstance(gets[0]._parent, ast.Assign) and isinstance(gets[0]._parent.targets[0], ast.Name), "stop_replay: `f = self.queue.get_nowait()` not found")
    fv = gets[0]._parent.targets[0].id
    always = isinstance(loop.test, ast.Constant) and loop.test.value is True
    emptiness = norm(loop.test) in ("not self.queue.empty()", "self.queue.qsize()", "self.queue.qsize() > 0")
    ctx.require(always or emptiness, f"stop_replay: loop condition not modelled: {norm(loop.test)}")
    # every way out of the loop other than the queue being empty is a violation
    early = []
    for n in ast.walk(loop):
        if isinstance(n, (ast.Break, ast.Return)):
            cur, ok = n, False
            while cur is not loop:
                par = cur._parent
                if isinstance(par, ast.ExceptHandler) and par.type is not None and last_attr(par.type) == "QueueEmpty":
                    ok = True
                cur = par
            if not ok:
                early.append(n)
    ctx.check(not early, "R53.2", W, "stop_replay leaves the drain loop while flows may still be queued", "queued flows stay queued (and un-reverted) after replay.client.stop",
              desc="stop_replay: only QueueEmpty ends the drain loop")
    sp = Ev(raises=lambda st: ["QueueEmpty"] if any(isinstance(c, ast.Call) and call_name(c) == "self.queue.get_nowait" for c in ast.walk(st)) else [])
    eng = StrictEngine(sp, lambda e: False, "ClientPlayback.stop_replay")
    o = eng.block(loop.body, {State()}, 0)
    trs = [s.trace for s in o.normal | o.cont | o.brk if any(e[0] == "call" and e[1] == "self.queue.get_nowait" for e in s.trace)]
    ctx.paths += len(o.normal | o.cont | o.brk)
    ctx.require(trs, "stop_replay: no path dequeues a flow")
    ok = all(any(e[0] == "call" and e[1] == f"{fv}.revert" for e in tr) for tr in trs)
    ctx.check(ok, "R53.2", W, "a dequeued flow is not reverted", "stop_replay must restore every still-queued flow to its pre-replay state (backup taken by start_replay)",
              desc=f"stop_replay: every dequeued flow is reverted ({len(trs)} paths)")


def check(ctx):
    ctx.rule("R53.1", "concurrency 1: dequeue -> await replay -> task_done, inflight published; replay() waits for done; done is set exactly on the response / error "
             "hook after the hook ran and transports were closed")
    ctx.rule("R53.2", "check() refuses every unreplayable class; start_replay queues only cleared flows after backup(); stop_replay drains the whole queue and reverts each flow")
    check_playback(ctx)
    check_handler(ctx)
    check_table(ctx)
    check_start(ctx)
    check_stop(ctx)
    ctx.assume("asyncio.Queue is FIFO; awaiting a coroutine runs it to completion before the next statement")
    if not ctx.findings:
        ctx.expect_instances("R53.1", 6)
        ctx.expect_instances("R53.2", 5)


MUTANTS = [
    Mutant("replay-not-awaited", F, "                else:\n                    await h.replay()", "                else:\n                    asyncio.ensure_future(h.replay())", "R53.1"),
    Mutant("concurrency-test-inverted", F, "if ctx.options.client_replay_concurrency == -1:", "if ctx.options.client_replay_concurrency != -1:", "R53.1"),
    Mutant("task-done-before-replay", F, "                assert self.inflight\n", "                assert self.inflight\n                self.queue.task_done()\n", "R53.1"),
    Mutant("inflight-not-published", F, "            self.inflight = await self.queue.get()\n            try:\n                assert self.inflight\n                h = ReplayHandler(self.inflight, self.options)",
           "            nxt = await self.queue.get()\n            try:\n                h = ReplayHandler(nxt, self.options)", "R53.1"),
    Mutant("replay-returns-without-waiting", F, "        await self.done.wait()\n", "", "R53.1"),
    Mutant("done-after-request-hook", F, "if isinstance(hook, (layers.http.HttpResponseHook, layers.http.HttpErrorHook)):", "if isinstance(hook, (layers.http.HttpRequestHook, layers.http.HttpResponseHook, layers.http.HttpErrorHook)):", "R53.1"),
    Mutant("error-hook-never-completes", F, "if isinstance(hook, (layers.http.HttpResponseHook, layers.http.HttpErrorHook)):", "if isinstance(hook, layers.http.HttpResponseHook):", "R53.1"),
    Mutant("done-before-transports-closed", F, "        if isinstance(hook, (layers.http.HttpResponseHook, layers.http.HttpErrorHook)):\n            if self.transports:",
           "        if isinstance(hook, (layers.http.HttpResponseHook, layers.http.HttpErrorHook)):\n            self.done.set()\n            if self.transports:", "R53.1"),
    Mutant("done-for-every-hook", F, "            # signal completion\n            self.done.set()", "        # signal completion\n        self.done.set()", "R53.1"),
    # seed C53a: completion signalled (and transports closed) before the flow is resumed
    Mutant("done-before-resume", F,
           "        if isinstance(data, flow.Flow):\n            await data.wait_for_resume()\n        if isinstance(hook, (layers.http.HttpResponseHook, layers.http.HttpErrorHook)):\n",
           "        if isinstance(hook, (layers.http.HttpResponseHook, layers.http.HttpErrorHook)):\n            self.done.set()\n        if isinstance(data, flow.Flow):\n            await data.wait_for_resume()\n"
           "        if isinstance(hook, (layers.http.HttpResponseHook, layers.http.HttpErrorHook)):\n", "R53.1"),
    Mutant("never-waits-for-resume", F, "        if isinstance(data, flow.Flow):\n            await data.wait_for_resume()\n", "", "R53.1"),
    Mutant("resume-awaited-only-for-intermediate-hooks", F, "        if isinstance(data, flow.Flow):\n            await data.wait_for_resume()\n        if isinstance(hook, (layers.http.HttpResponseHook, layers.http.HttpErrorHook)):\n",
           "        if isinstance(hook, (layers.http.HttpResponseHook, layers.http.HttpErrorHook)):\n            pass\n        elif isinstance(data, flow.Flow):\n            await data.wait_for_resume()\n"
           "        if isinstance(hook, (layers.http.HttpResponseHook, layers.http.HttpErrorHook)):\n", "R53.1"),
    # seed C53b: the pre-replay snapshot is replaced when a queued flow is submitted again
    Mutant("replay-backup-forced", "mitmproxy/flow.py", "    def backup(self, force=False):\n        \"\"\"\n        Save a backup of this flow, which can be restored by calling `Flow.revert()`.\n        \"\"\"\n        if not self._backup:\n",
           "    def backup(self, force=True):\n        \"\"\"\n        Save a backup of this flow, which can be restored by calling `Flow.revert()`.\n        \"\"\"\n        if force or not self._backup:\n", "R53.2"),
    Mutant("replay-backup-overwrites", "mitmproxy/flow.py", "        if not self._backup:\n            self._backup = self.get_state()\n", "        self._backup = self.get_state()\n", "R53.2"),
    Mutant("replay-backup-refreshed-when-present", "mitmproxy/flow.py", "        if not self._backup:\n            self._backup = self.get_state()\n",
           "        if self._backup is not None:\n            self._backup = self.get_state()\n        else:\n            self._backup = self.get_state()\n", "R53.2"),
    Mutant("live-flows-admitted", F, "        if f.live or f == self.inflight:", "        if f == self.inflight:", "R53.2"),
    Mutant("websocket-flows-admitted", F, "            if f.websocket is not None:\n                return \"Can't replay WebSocket flows.\"\n", "", "R53.2"),
    Mutant("non-http-flows-admitted", F, "        else:\n            return \"Can only replay HTTP flows.\"\n", "", "R53.2"),
    Mutant("refused-flows-queued-anyway", F, "                logger.warning(err)\n                continue\n", "                logger.warning(err)\n", "R53.2"),
    Mutant("backup-after-modification", F, "            http_flow.backup()\n            http_flow.is_replay = \"request\"\n", "            http_flow.is_replay = \"request\"\n            http_flow.backup()\n", "R53.2"),
    Mutant("stop-does-not-revert", F, "                f.revert()\n", "", "R53.2"),
    Mutant("stop-drains-one-flow-only", F, "                updated.append(f)\n\n        ctx.master.addons.trigger(UpdateHook(updated))\n        logger.log(ALERT", "                updated.append(f)\n                break\n\n        ctx.master.addons.trigger(UpdateHook(updated))\n        logger.log(ALERT", "R53.2"),
]
