"""C54 - sticky cookies are only sent to hosts and paths they belong to.

Decided by INTERPRETING the two hooks of mitmproxy/addons/stickycookie.py (``mitmlint.pyint``: the hook bodies, every helper they call
- wherever it lives and whatever it is called -, ``cookies.is_expired`` / ``get_expiration_ts`` / ``format_cookie_header`` are run on
the AST; nothing is matched by statement shape or by the name of a local / helper) in concrete worlds and comparing the observable
outcome with a reference written from the property text:
  R54.1 attach (decision table): ``StickyCookie.request`` is interpreted with a jar holding one entry (cookie domain, cookie port,
        cookie path) -> {name: token} for every combination of 16 host/domain pairs x 2 port pairs x 14 request-path/cookie-path
        pairs; the token may reach the request's headers only if the host domain-matches the cookie domain (RFC 6265 5.1.3), the
        ports are equal and the request path path-matches the cookie path (RFC 6265 5.1.4: equal, or prefix ending at a "/"
        boundary); it must be attached for the all-matching baseline (otherwise the evaluation is vacuous: ANALYSIS-ERROR).
        A bare ``startswith(cookie_path)`` fails the cell (/foobar, /foo); http.cookiejar.domain_match alone fails the
        inner-occurrence hosts (www.example.com.evil.org).
  R54.2 jar discipline: ``StickyCookie.response`` is interpreted for responses carrying Set-Cookie entries (host-only / Domain with and
        without leading dot / foreign and inner-substring domains; Path present or not; no expiry, Max-Age > 0, = 0, < 0, Expires in the
        past / future; jar empty, holding that cookie, holding it and another one; multi-cookie responses) and the jar afterwards is
        compared with the reference: nothing changes for a Domain the responding host does not domain-match; an expired cookie is
        removed from its entry and an emptied entry is dropped; a cookie is stored only under
        (Domain attribute or request host, port of the responding request, Path attribute or "/") with its value.
        (Not storing a cookie that could have been stored is tolerated - the property is a safety property - as long as the clear
        cases are stored, otherwise ANALYSIS-ERROR.  A Domain attribute without leading dot that only RFC 6265 lets match a
        sub-domain may be treated either way.)
The jar layout (domain, port, path) -> {name: value} is the one stated by the property (and pinned by the repository's tests).
NOT decided: Set-Cookie parsing (the worlds start from parsed (name, value, attrs) triples), the sticky filter itself (taken as
matching), public-suffix handling.  The wall clock is a fixed instant.
"""

from __future__ import annotations

import ast
import collections
import copy
import email.utils
import functools
import http.cookiejar
import itertools
import operator
import re
import types

from ..core import AnalysisError
from ..pyint import ClassRef
from ..pyint import DictRec
from ..pyint import Interp
from ..pyint import NullLog
from ..pyint import Raised
from ..pyint import Rec
from ..selftest import Mutant

PROP = "C54"
REG = {
    "strength": "partial",
    "technique": "whole-hook interpretation (pyint) of StickyCookie.request / StickyCookie.response, helpers and cookies.is_expired included, in "
    "concrete worlds (sample hosts / ports / paths / expiry attributes / jar states); outcome (request headers, jar) compared with an RFC 6265 reference",
    "claim": "a jar cookie reaches the request's headers only if RFC 6265 domain-match, port equality and RFC 6265 path-match hold, on 448 sample cells "
    "(incl. inner-substring hosts and the /foo vs /foobar boundary); after a response the jar equals the reference: unchanged for domains the responding "
    "host does not domain-match, expired cookies (Max-Age <= 0, Expires in the past) removed together with emptied entries, cookies stored only under "
    "(Domain | host, responding port, Path | '/').",
    "note": "Sample-based tables (not all strings). Trusted: http.cookiejar.domain_match, email.utils date parsing, re (standard library, used as their "
    "own model); the clock is a fixed instant; the sticky filter is taken as matching; Set-Cookie parsing is not decided.",
}

F = "mitmproxy/addons/stickycookie.py"
CLS = "StickyCookie"


# ---------------------------------------------------------------------------------------------------
# reference predicates (RFC 6265)


def spec_domain(host: str, cookie_domain: str) -> bool:
    d = cookie_domain.lstrip(".").lower()
    h = host.lower()
    return bool(d) and (h == d or h.endswith("." + d))


def core_domain(host: str, cookie_domain: str) -> bool:
    """matches under RFC 6265 *and* under the older dotted-domain rules (RFC 2965 / http.cookiejar): equal, or a dotted Domain attribute"""
    d = cookie_domain.lstrip(".").lower()
    h = host.lower()
    return bool(d) and (h == d or (cookie_domain.startswith(".") and h.endswith("." + d)))


def spec_path(request_path: str, cookie_path: str) -> bool:
    rp = request_path.split("?", 1)[0]
    if rp == cookie_path:
        return True
    return rp.startswith(cookie_path) and (cookie_path.endswith("/") or rp[len(cookie_path):len(cookie_path) + 1] == "/")


HOSTS = [
    ("example.com", "example.com"), ("www.example.com", ".example.com"), ("example.com", ".example.com"),
    ("evil-example.com", "example.com"), ("evil-example.com", ".example.com"), ("example.com.evil.org", "example.com"),
    ("example.com.evil.org", ".example.com"), ("notexample.com", ".example.com"), ("example.org", "example.com"), ("ample.com", "example.com"),
    # the cookie domain occurs *inside* the host, preceded by a label: http.cookiejar.domain_match only looks for an occurrence (rfind)
    ("www.example.com.evil.org", ".example.com"), ("www.example.com.evil.org", "example.com"), ("a.b.example.com", ".example.com"),
    ("a.example.com", "example.com"), ("WWW.Example.COM", ".example.com"), ("www.example.com.", ".example.com"),
]
PORTS = [(80, 80), (8080, 80)]
PATHS = [
    ("/foo", "/foo"), ("/foo/", "/foo"), ("/foo/bar", "/foo"), ("/foo/bar", "/foo/"), ("/", "/"), ("/anything", "/"),
    ("/foobar", "/foo"), ("/foo.txt", "/foo"), ("/foo", "/foo/"), ("/bar", "/foo"), ("/fo", "/foo"), ("/", "/foo"),
    ("/foobar?next=/foo/", "/foo"), ("/x?/foo", "/foo"),
]

# responses: (responding host, Domain attribute | None)
SET_HOSTS = [
    ("www.example.com", None), ("www.example.com", ".example.com"), ("example.com", "example.com"), ("example.com", ".example.com"),
    ("WWW.Example.COM", ".example.com"), ("a.b.example.com", ".example.com"),
    ("a.example.com", "example.com"),  # RFC 6265 only
    ("www.example.com", "evil.org"), ("www.example.com", ".evil.org"), ("www.example.com", "ample.com"), ("evil-example.com", "example.com"),
    ("evil-example.com", ".example.com"), ("example.com.evil.org", ".example.com"), ("www.example.com.evil.org", ".example.com"),
    ("www.example.com.evil.org", "example.com"), ("example.org", "example.com"), ("notexample.com", ".example.com"),
    ("www.example.com.", ".example.com"), ("example.com", "www.example.com"),
    (".example.com", "www.example.com"),  # operands the wrong way round: the *domain* would domain-match the host
]
NOW = 2_000_000_000.0  # the fixed instant (2033-05-18)
EXPIRY = [  # (attributes, expired?)
    ({}, False), ({"Max-Age": "3600"}, False), ({"Max-Age": "0"}, True), ({"Max-Age": "-1"}, True),
    ({"Expires": "Thu, 01 Jan 1970 00:00:10 GMT"}, True), ({"Expires": "Fri, 01 Jan 2100 00:00:00 GMT"}, False),
]
RPORT = 8443
UNRELATED = (("other.invalid", 80, "/"), {"z": "kept"})


# ---------------------------------------------------------------------------------------------------
# the world: trusted library stand-ins and abstract records


class _Clock:
    """`time` module with a fixed instant"""

    def time(self):
        return NOW

    def monotonic(self):
        return NOW

    def time_ns(self):
        return int(NOW) * 10**9


class _Filter:
    """a parsed filter expression: callable on a flow; the sticky filter is taken as matching"""

    _pyint_accepts_abstract = True

    def __call__(self, flow):
        return True


class _SetCookies:
    """flow.response.cookies: a multidict view whose items are (name, (value, attrs))"""

    _pyint_accepts_abstract = True

    def __init__(self, entries):
        self._entries = list(entries)

    def items(self, multi=False):
        return list(self._entries)

    def __len__(self):
        return len(self._entries)


def _trusted():
    return {
        "re": re,
        "time": _Clock(),
        "email": types.SimpleNamespace(utils=types.SimpleNamespace(parsedate_tz=email.utils.parsedate_tz, mktime_tz=email.utils.mktime_tz, formatdate=email.utils.formatdate)),
        "logging": NullLog(),
        "collections": types.SimpleNamespace(defaultdict=collections.defaultdict, OrderedDict=collections.OrderedDict),
        "http": types.SimpleNamespace(cookiejar=types.SimpleNamespace(domain_match=http.cookiejar.domain_match)),
        "itertools": itertools,
        "functools": functools,
        "operator": operator,
    }


class _Interp(Interp):
    def stmt(self, st, env, mod, depth):
        # `lst += iterable` is list.extend (pyint evaluates it as lst + iterable, which is a TypeError for a dict view)
        if isinstance(st, ast.AugAssign) and isinstance(st.op, ast.Add):
            cur = self.ev(st.target, env, mod, depth)
            if isinstance(cur, list):
                self.tick()
                cur.extend(self.iterate(self.ev(st.value, env, mod, depth), st.value))
                return
        super().stmt(st, env, mod, depth)

    def call_func(self, f, args, kwargs, depth):
        # the filter language is not part of this property: flowfilter.match(flt, flow) == flt(flow) for a compiled filter
        if f.mod.rel == "mitmproxy/flowfilter.py" and getattr(f.node, "name", "") == "match" and len(args) == 2 and isinstance(args[0], _Filter):
            return args[0](args[1])
        return super().call_func(f, args, kwargs, depth)


class World:
    def __init__(self, ctx):
        self.ctx = ctx
        self.model = ctx.model
        self.mod = self.model.module(F)
        self.cls = self.model.cls(F, CLS)
        self.it = _Interp(self.model, trusted_modules=_trusted(), max_steps=200000)
        self.raised: dict = {}

    def addon(self, jar):
        self.it.steps = 0
        rec = self.it.instantiate(ClassRef(self.mod, self.cls), [], {}, 0, "StickyCookie()")
        store = rec.__dict__.get("jar")
        if not isinstance(store, dict):
            raise AnalysisError(f"StickyCookie().jar is not a dict after __init__ ({type(store).__name__}): jar representation not modelled")
        for k, v in jar.items():
            store[k] = dict(v)
        object.__setattr__(rec, "flt", _Filter())
        return rec

    @staticmethod
    def flow(host, port, path, pretty_host=None, set_cookies=None):
        headers = DictRec("Headers", items={}, case_insensitive=True, _name="request.headers")
        ph = host if pretty_host is None else pretty_host
        request = Rec("Request", host=host, pretty_host=ph, host_header=ph, port=port, path=path, headers=headers, method="GET", scheme="http", authority="",
                      url=f"http://{host}:{port}{path}", pretty_url=f"http://{ph}:{port}{path}", http_version="HTTP/1.1")
        response = None
        if set_cookies is not None:
            response = Rec("Response", cookies=_SetCookies(set_cookies), status_code=200, reason="OK", http_version="HTTP/1.1",
                           headers=DictRec("Headers", items={}, case_insensitive=True, _name="response.headers"))
        return Rec("HTTPFlow", request=request, response=response, metadata=DictRec("dict", items={}, _name="flow.metadata"), id="flow-1", live=True,
                   is_replay=None, server_conn=Rec("Server", address=("upstream.invalid", 1), peername=("192.0.2.1", 1), sni="sni.invalid"),
                   client_conn=Rec("Client", peername=("192.0.2.2", 2)))

    def run(self, rec, hook, flow):
        """interpret one hook; an exception raised by the hook ends it like in the addon manager (which logs it): effects so far stay"""
        self.it.steps = 0
        try:
            self.it.method(rec, hook, flow)
        except Raised as r:
            self.raised[f"{hook}: {r.name}"] = self.raised.get(f"{hook}: {r.name}", 0) + 1
            return r.name
        return None

    @staticmethod
    def jar_of(rec):
        store = rec.__dict__.get("jar")
        if not isinstance(store, dict):
            raise AnalysisError("StickyCookie.jar was replaced by a non-dict (not modelled)")
        out = {}
        for k, v in store.items():
            if not isinstance(v, dict):
                raise AnalysisError(f"StickyCookie.jar[{k!r}] is not a dict of cookies (not modelled)")
            out[k] = dict(v)
        return out


def attrs_of(domain, path, expiry):
    items = {}
    if domain is not None:
        items["domain"] = domain
    if path is not None:
        items["path"] = path
    items.update(expiry)
    return DictRec("CookieAttrs", items=items, case_insensitive=True, _name="attrs")


# ---------------------------------------------------------------------------------------------------
# R54.1


TOKEN = "tok3n54"
DECOY = "d3coy54"


def check_attach(ctx, w: World):
    fn = ctx.func(F, f"{CLS}.request")
    W = (F, f"{CLS}.request", fn)

    def attached(host, hport, hpath, cdom, cport, cpath):
        rec = w.addon({(cdom, cport, cpath): {"sid": TOKEN}, ("decoy.invalid", 1, "/zzz/"): {"d": DECOY}})
        flow = w.flow(host, hport, hpath)
        w.run(rec, "request", flow)
        seen = [str(v) for v in flow.request.headers._items.values()] + [str(v) for k, v in flow.request.__dict__.items() if k in ("cookies", "content", "query")]
        if any(DECOY in s for s in seen):
            return "decoy"
        return any(TOKEN in s for s in seen)

    wrong = {"domain": None, "port": None, "path": None}
    n_true = 0
    total = len(HOSTS) * len(PORTS) * len(PATHS)
    for (host, cdom), (hport, cport), (hpath, cpath) in itertools.product(HOSTS, PORTS, PATHS):
        ctx.cells += 1
        got = attached(host, hport, hpath, cdom, cport, cpath)
        if got == "decoy":
            ctx.fail("R54.1", W, "jar cookies attached without any guard", "a cookie stored for decoy.invalid:1/zzz/ is sent to " + f"{host}:{hport}{hpath}")
            return
        want = {"domain": spec_domain(host, cdom), "port": hport == cport, "path": spec_path(hpath, cpath)}
        if got:
            n_true += 1
            for k, v in want.items():
                if not v and wrong[k] is None and all(x for kk, x in want.items() if kk != k):
                    wrong[k] = {"domain": f"host {host} / cookie domain {cdom}", "port": f"request port {hport} / cookie port {cport}", "path": f"request path {hpath} / cookie path {cpath}"}[k]
            if sum(1 for v in want.values() if not v) > 1 and not any(wrong.values()):
                # attached although two or more do not match, and no single-mismatch cell exposed it yet
                k = next(k for k, v in want.items() if not v)
                wrong[k] = f"host {host}:{hport}{hpath} / cookie {cdom}:{cport}{cpath}"
    text = {"domain": "the request host does not domain-match the cookie's domain", "port": "the request port differs from the port that set the cookie",
            "path": "the request path does not path-match the cookie's path (RFC 6265 5.1.4)"}
    for k in ("domain", "port", "path"):
        ctx.check(wrong[k] is None, "R54.1", W, f"cookie attached although {k} does not match: {wrong[k]}", f"a sticky cookie is sent although {text[k]}",
                  desc=f"a jar cookie reaches the request only if the {k} matches, on all {total} cells (request hook interpreted)")
    base = attached("www.example.com", 80, "/foo/bar", ".example.com", 80, "/foo")
    ctx.require(base is True or any(wrong.values()), f"{CLS}.request: nothing is attached even when host, port and path all match (evaluation vacuous; hook raised: {w.raised})")
    ctx.note(f"attach: token reached the request headers on {n_true} of {total} cells")


# ---------------------------------------------------------------------------------------------------
# R54.2


def reference_jar(before, host, port, cookies):
    """the jar after a response from host:port carrying cookies = [(name, value, domain|None, path|None, expired)]"""
    jar = copy.deepcopy(before)
    for name, value, dom, path, expired in cookies:
        key = (dom if dom is not None else host, port, path if path is not None else "/")
        if not spec_domain(host, key[0]):
            continue
        if expired:
            if key in jar:
                jar[key].pop(name, None)
                if not jar[key]:
                    del jar[key]
        else:
            jar.setdefault(key, {})[name] = value
    return jar


def check_response(ctx, w: World):
    fn = ctx.func(F, f"{CLS}.response")
    W = (F, f"{CLS}.response", fn)
    bad = {"foreign": None, "expiry": None, "key": None, "history": None}
    count = {"foreign": 0, "expiry": 0, "key": 0, "history": 0}
    stored_clear = 0
    not_stored = 0

    def respond(before, host, cookies):
        rec = w.addon(before)
        entries = [(name, (value, attrs_of(dom, path, exp))) for name, value, dom, path, exp, _ in cookies]
        flow = w.flow(host, RPORT, "/account/login?x=1", pretty_host="pretty.invalid", set_cookies=entries)
        raised = w.run(rec, "response", flow)
        return w.jar_of(rec), raised

    def show(j):
        return "{" + ", ".join(f"{k}: {v}" for k, v in sorted(j.items(), key=repr)) + "}"

    for host, dom in SET_HOSTS:
        kdom = dom if dom is not None else host
        match = spec_domain(host, kdom)
        clear = dom is None or core_domain(host, dom)
        if match:
            combos = itertools.product((None, "/p/q"), EXPIRY, ("empty", "same", "two"))
        else:
            combos = itertools.chain(itertools.product((None,), EXPIRY[:1] + EXPIRY[2:3], ("empty", "same")), [("/p/q", EXPIRY[0], "two")])
        for path, (exp, expired), prior in combos:
            ctx.cells += 1
            key = (kdom, RPORT, path if path is not None else "/")
            before = {UNRELATED[0]: dict(UNRELATED[1])}
            if prior != "empty":
                before[key] = {"sid": "old"}
            if prior == "two":
                before[key]["other"] = "o"
            cookies = [("sid", "new", dom, path, exp, expired)]
            after, raised = respond(before, host, cookies)
            ref = reference_jar(before, host, RPORT, [(n, v, d, p, e) for n, v, d, p, _, e in cookies])
            what = f"response from {host}:{RPORT} sets sid=new" + (f"; Domain={dom}" if dom is not None else "") + (f"; Path={path}" if path is not None else "") + "".join(f"; {k}={v}" for k, v in exp.items())
            how = f"{what}, jar before {show(before)}: jar after {show(after)}, expected {show(ref)}" + (f" (hook raised {raised})" if raised else "")
            if not match:
                count["foreign"] += 1
                if after != before and bad["foreign"] is None:
                    bad["foreign"] = (f"Domain {kdom} / responding host {host}", how)
            elif expired:
                if after == ref:
                    count["expiry"] += 1
                elif not clear and after == before:
                    pass  # Domain without leading dot for a sub-domain: the stricter reading does not touch the jar
                elif bad["expiry"] is None:
                    if any(name == "sid" for k, v in after.items() if k != UNRELATED[0] for name in v):
                        bad["expiry"] = ("an expired cookie is not removed from the jar", how)
                    elif any(not v for v in after.values()):
                        bad["expiry"] = ("an emptied jar entry is not removed", how)
                    else:
                        bad["expiry"] = ("the jar differs from the reference after an expired cookie", how)
            else:
                if after == ref:
                    count["key"] += 1
                    if clear:
                        stored_clear += 1
                elif after == before:
                    not_stored += 1  # safe: nothing learned
                elif bad["key"] is None:
                    new = {k: v for k, v in after.items() if before.get(k) != v}
                    bad["key"] = (f"stored as {show(new)}, expected under {key}", how)

    # multi-cookie responses (host-only and foreign cookies only: unambiguous), the loop must treat each cookie on its own
    host = "shop.example.com"
    hk = (host, RPORT, "/")
    histories = [
        ({}, [("a", "1", None, None, {}, False), ("evil", "x", "evil.org", None, {}, False), ("b", "2", None, "/b", {}, False)]),
        ({hk: {"a": "old", "b": "old"}}, [("a", "", None, None, {"Max-Age": "0"}, True), ("b", "2", None, None, {}, False), ("c", "3", None, None, {"Max-Age": "60"}, False)]),
        ({hk: {"a": "old"}}, [("b", "2", None, None, {}, False), ("evil", "x", ".example.com.evil.org", "/", {}, False), ("a", "", None, None, {"Max-Age": "-1"}, True)]),
        ({hk: {"a": "old"}}, [("evil", "x", "evil.org", None, {"Max-Age": "0"}, True), ("a", "", None, None, {"Expires": "Thu, 01 Jan 1970 00:00:10 GMT"}, True), ("d", "4", None, "/d/", {}, False)]),
        ({hk: {"a": "old"}, ("evil.org", RPORT, "/"): {"a": "theirs"}}, [("a", "", "evil.org", None, {"Max-Age": "0"}, True), ("a", "new", None, None, {}, False)]),
    ]
    for before0, cookies in histories:
        ctx.cells += 1
        before = {UNRELATED[0]: dict(UNRELATED[1]), **{k: dict(v) for k, v in before0.items()}}
        after, raised = respond(before, host, cookies)
        ref = reference_jar(before, host, RPORT, [(n, v, d, p, e) for n, v, d, p, _, e in cookies])
        count["history"] += 1
        if after != ref and bad["history"] is None:
            names = ", ".join(n + ("(expired)" if e else "") + (f"[Domain={d}]" if d else "") for n, _, d, _, _, e in cookies)
            bad["history"] = (f"response from {host} setting {names}", f"jar before {show(before)}: jar after {show(after)}, expected {show(ref)}" + (f" (hook raised {raised})" if raised else ""))

    ctx.require(stored_clear or any(bad.values()), f"{CLS}.response: no world stores a cookie although the Domain clearly matches (evaluation vacuous; hook raised: {w.raised})")
    b = bad["foreign"]
    ctx.check(b is None, "R54.2", W, f"store: jar changed for a domain the responding host does not domain-match: {b[0] if b else ''}",
              f"a response can plant (or delete) cookies for unrelated domains: {b[1] if b else ''}",
              desc=f"jar untouched when the responding host does not domain-match the cookie's Domain ({count['foreign']} worlds, response hook interpreted)")
    b = bad["expiry"]
    ctx.check(b is None, "R54.2", W, f"expiry: {b[0] if b else ''}", f"{b[0] if b else ''}: {b[1] if b else ''}",
              desc=f"expired cookie (Max-Age <= 0, Expires in the past): removed from its entry, emptied entry dropped, everything else kept ({count['expiry']} worlds)")
    b = bad["key"]
    ctx.check(b is None, "R54.2", W, f"store: jar key/value differs: {b[0] if b else ''}",
              f"jar keys must be (Domain attribute or responding host, port of the responding request, Path attribute or '/') -> name -> value, request() compares against exactly these: {b[1] if b else ''}",
              desc=f"cookie stored under (Domain | request.host, request.port, Path | '/') with its value ({count['key']} worlds; {not_stored} safe non-stores)")
    b = bad["history"]
    ctx.check(b is None, "R54.2", W, f"history: {b[0] if b else ''}", f"a response with several cookies leaves the wrong jar: {b[1] if b else ''}",
              desc=f"multi-cookie responses: every cookie handled on its own, foreign ones skipped, expired ones removed ({count['history']} histories)")


def check(ctx):
    ctx.rule("R54.1", "a stored cookie reaches a request only under RFC 6265 domain-match, port equality and RFC 6265 path-match (request hook interpreted on a decision table)")
    ctx.rule("R54.2", "after a response the jar equals the reference: untouched for domains the responding host does not domain-match; expired cookies and emptied entries "
             "removed; cookies stored under (domain, responding port, path)")
    w = World(ctx)
    ctx.guard(check_attach, ctx, w)
    ctx.guard(check_response, ctx, w)
    if w.raised:
        ctx.note(f"hook runs ended by an exception: {w.raised}")
    ctx.bounds.append(f"{len(HOSTS)}x{len(PORTS)}x{len(PATHS)} request cells; {len(SET_HOSTS)} host/Domain pairs x Path x {len(EXPIRY)} expiry forms x 3 jar states; clock fixed")
    ctx.trust("http.cookiejar.domain_match, email.utils.parsedate_tz / mktime_tz and re (standard library) are used as their own models; fixed clock; the sticky filter matches")
    if not ctx.findings:
        ctx.expect_instances("R54.1", 3)
        ctx.expect_instances("R54.2", 4)


MUTANTS = [
    # reverse of the F-C54b fix (f0257d529)
    Mutant("F-C54b-reverted-no-suffix-check", F, "    if not a.lower().endswith(b.lower().strip(\".\")):\n        return False\n", "", "R54.1"),
    Mutant("revert-fix-bare-startswith", F, "                        path_match(flow.request.path, path),", "                        flow.request.path.startswith(path),", "R54.1"),
    Mutant("path-match-without-boundary", F, "        return cookie_path.endswith(\"/\") or request_path[len(cookie_path)] == \"/\"", "        return True", "R54.1"),
    Mutant("port-not-compared", F, "                        flow.request.port == port,\n", "", "R54.1"),
    Mutant("domain-substring-match", F, "                        domain_match(flow.request.host, domain),", "                        domain.strip(\".\") in flow.request.host,", "R54.1"),
    Mutant("domain-suffix-without-dot", F, "    elif cookiejar.domain_match(a, b.strip(\".\")):  # type: ignore\n        return True", "    elif a.endswith(b.strip(\".\")):\n        return True", "R54.1"),
    Mutant("any-instead-of-all", F, "                    if all(match):", "                    if any(match):", "R54.1"),
    Mutant("domain-match-always-true", F, "        return True\n    return False\n\n\ndef path_match", "        return True\n    return True\n\n\ndef path_match", "R54.1"),
    Mutant("attach-every-jar-entry", F, "                    if all(match):\n                        cookie_list.extend(c.items())", "                    cookie_list.extend(c.items())", "R54.1"),
    Mutant("store-without-domain-check", F, "                if domain_match(flow.request.host, dom_port_path[0]):", "                if True:", "R54.2"),
    Mutant("store-domain-check-swapped", F, "                if domain_match(flow.request.host, dom_port_path[0]):", "                if domain_match(dom_port_path[0], flow.request.host):", "R54.2"),
    Mutant("expired-cookie-kept", F, "                        self.jar[dom_port_path].pop(name, None)\n", "", "R54.2"),
    Mutant("expired-cookie-stored", F, "                    if cookies.is_expired(attrs):", "                    if not cookies.is_expired(attrs):", "R54.2"),
    Mutant("empty-entry-kept", F, "                        if not self.jar[dom_port_path]:\n                            self.jar.pop(dom_port_path, None)\n", "", "R54.2"),
    Mutant("ckey-default-path-empty", F, "    path = \"/\"\n", "    path = \"\"\n", "R54.2"),
    Mutant("ckey-domain-attribute-ignored", F, "    if \"domain\" in attrs:\n        domain = attrs[\"domain\"]\n", "", "R54.2"),
    Mutant("ckey-port-of-the-server-connection", F, "    return (domain, f.request.port, path)", "    return (domain, f.server_conn.address[1], path)", "R54.2"),
    Mutant("ckey-host-header-instead-of-host", F, "    domain = f.request.host\n", "    domain = f.request.pretty_host\n", "R54.2"),
    Mutant("negative-max-age-not-expired", "mitmproxy/net/http/cookies.py", "            max_age = int(cookie_attrs[\"Max-Age\"])\n        except ValueError:", "            max_age = int(cookie_attrs[\"Max-Age\"])\n            if max_age < 0:\n                raise ValueError\n        except ValueError:", "R54.2"),
    Mutant("first-foreign-cookie-ends-the-loop", F, "                    else:\n                        self.jar[dom_port_path][name] = value\n", "                    else:\n                        self.jar[dom_port_path][name] = value\n                else:\n                    break\n", "R54.2"),
]
