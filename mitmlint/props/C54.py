"""C54 - sticky cookies are only sent to hosts and paths they belong to.

Decided from the source of mitmproxy/addons/stickycookie.py:
  R54.1 attach guard (decision table): the conditions guarding ``cookie_list.extend(...)`` inside the jar loop of
        StickyCookie.request are extracted (nested ifs / ``and`` / ``all([...])``) and *evaluated on the AST* (pure string
        fragment, helpers such as domain_match / path_match interpreted too, http.cookiejar.domain_match taken from the
        standard library) for every combination of 10 host/domain pairs x 2 port pairs x 14 request-path/cookie-path pairs.
        The guard may be true only if the host domain-matches the cookie domain (RFC 6265 5.1.3), the ports are equal and the
        request path path-matches the cookie path (RFC 6265 5.1.4: equal, or prefix ending at a "/" boundary); it must be true
        for the all-matching baseline.  A bare ``startswith(cookie_path)`` fails the cell (/foobar, /foo).
  R54.2 jar discipline in StickyCookie.response (all paths): a cookie value is stored only after
        domain_match(flow.request.host, key[0]) was true for key = ckey(attrs, flow) and is_expired(attrs) was false; an expired
        cookie is popped from its jar entry and an emptied entry is removed; ckey returns (Domain attribute or request host,
        port of the responding request, Path attribute or "/") - table over the 4 attribute combinations.
NOT decided: cookie parsing / is_expired, the sticky filter itself, public-suffix handling.
"""

from __future__ import annotations

import ast
import http.cookiejar
import itertools

from ..core import AnalysisError
from ..core import norm
from ..model import attr_chain
from ..model import call_name
from ..model import eval_order
from ..model import walk_in_order
from ..paths import GenericSpec
from ..paths import index_of
from ..selftest import Mutant
from ._helpers_F import own_nodes
from ._helpers_F import params_of
from ._helpers_F import PureEval
from ._helpers_F import Raised
from ._helpers_F import single_assignment
from ._helpers_F import StrictEngine

PROP = "C54"
REG = {
    "strength": "partial",
    "technique": "guard extraction + decision table evaluated by interpreting the pure string predicates of the addon on sample hosts / ports / paths; "
    "path rules (must-precede) on StickyCookie.response; table for ckey",
    "claim": "the guard under which StickyCookie.request attaches a stored cookie implies RFC 6265 domain-match, port equality and RFC 6265 path-match "
    "on 280 sample cells (incl. inner-substring hosts and the /foo vs /foobar boundary); cookies are stored only for domains the responding host "
    "domain-matches, expired ones are removed together with emptied jar entries; jar keys are (domain, responding port, path).",
    "note": "Sample-based table (not all strings). Trusted: http.cookiejar.domain_match (standard library), cookies.is_expired.",
}

F = "mitmproxy/addons/stickycookie.py"


# ---------------------------------------------------------------------------------------------------
# reference predicates (RFC 6265)


def spec_domain(host: str, cookie_domain: str) -> bool:
    d = cookie_domain.lstrip(".").lower()
    h = host.lower()
    return bool(d) and (h == d or h.endswith("." + d))


def spec_path(request_path: str, cookie_path: str) -> bool:
    rp = request_path.split("?", 1)[0]
    if rp == cookie_path:
        return True
    return rp.startswith(cookie_path) and (cookie_path.endswith("/") or rp[len(cookie_path):len(cookie_path) + 1] == "/")


HOSTS = [
    ("example.com", "example.com"), ("www.example.com", ".example.com"), ("example.com", ".example.com"),
    ("evil-example.com", "example.com"), ("evil-example.com", ".example.com"), ("example.com.evil.org", "example.com"),
    ("example.com.evil.org", ".example.com"), ("notexample.com", ".example.com"), ("example.org", "example.com"), ("ample.com", "example.com"),
    # the cookie domain occurs *inside* the host, preceded by a label: http.cookiejar.domain_match only looks for an occurrence (rfind)
    ("www.example.com.evil.org", ".example.com"), ("www.example.com.evil.org", "example.com"), ("a.b.example.com", ".example.com"),
    ("a.example.com", "example.com"), ("WWW.Example.COM", ".example.com"), ("www.example.com.", ".example.com"),
]
PORTS = [(80, 80), (8080, 80)]
PATHS = [
    ("/foo", "/foo"), ("/foo/", "/foo"), ("/foo/bar", "/foo"), ("/foo/bar", "/foo/"), ("/", "/"), ("/anything", "/"),
    ("/foobar", "/foo"), ("/foo.txt", "/foo"), ("/foo", "/foo/"), ("/bar", "/foo"), ("/fo", "/foo"), ("/", "/foo"),
    ("/foobar?next=/foo/", "/foo"), ("/x?/foo", "/foo"),
]


# ---------------------------------------------------------------------------------------------------
# R54.1


def module_calls(ctx, ev_factory):
    """model for calls to the module's own pure helpers: interpret them recursively"""
    calls = {"cookiejar.domain_match": http.cookiejar.domain_match, "http.cookiejar.domain_match": http.cookiejar.domain_match}
    mod = ctx.model.module(F)
    for q, d in mod.defs().items():
        if isinstance(d, ast.FunctionDef) and "." not in q:
            calls[q] = (lambda fn: lambda *a, **k: ev_factory().call(fn, *a, **k))(d)
    return calls


def attach_guard(ctx, fn):
    """-> (loop, extend call, [conjunct expressions]) for the statement that adds jar cookies to the outgoing list"""
    loops = [n for n in own_nodes(fn) if isinstance(n, ast.For) and isinstance(n.iter, ast.Call) and attr_chain(n.iter.func) == "self.jar.items"]
    ctx.require(len(loops) == 1, f"StickyCookie.request: expected one loop over self.jar.items(), found {len(loops)}")
    loop = loops[0]
    t = loop.target
    ok = isinstance(t, ast.Tuple) and len(t.elts) == 2 and isinstance(t.elts[0], ast.Tuple) and len(t.elts[0].elts) == 3 and all(isinstance(x, ast.Name) for x in t.elts[0].elts) and isinstance(t.elts[1], ast.Name)
    ctx.require(ok, f"StickyCookie.request: loop target not modelled: {norm(t)}")
    adds = [c for c in ast.walk(loop) if isinstance(c, ast.Call) and isinstance(c.func, ast.Attribute) and c.func.attr in ("extend", "append", "update", "__iadd__")
            and any(isinstance(n, ast.Name) and n.id == t.elts[1].id for a in c.args for n in ast.walk(a))]
    adds += [n for n in ast.walk(loop) if isinstance(n, ast.AugAssign) and any(isinstance(x, ast.Name) and x.id == t.elts[1].id for x in ast.walk(n.value))]
    ctx.require(len(adds) == 1, f"StickyCookie.request: expected one statement adding the jar entry's cookies, found {len(adds)}")
    conj = []
    node = adds[0]
    while node is not loop:
        par = node._parent
        if isinstance(par, ast.If):
            if node in par.body:
                conj.append(par.test)
            elif node in par.orelse:
                conj.append(ast.UnaryOp(op=ast.Not(), operand=par.test))
        elif isinstance(par, (ast.While, ast.For, ast.Try, ast.With, ast.Match)) and par is not loop:
            raise AnalysisError(f"StickyCookie.request: the attach statement is nested in {type(par).__name__} (not modelled)")
        node = par
    out = []

    def flatten(e):
        if isinstance(e, ast.BoolOp) and isinstance(e.op, ast.And):
            for v in e.values:
                flatten(v)
        elif isinstance(e, ast.Call) and call_name(e) == "all" and len(e.args) == 1:
            a = e.args[0]
            if isinstance(a, ast.Name):
                vals = [n.value for n in ast.walk(loop) if isinstance(n, ast.Assign) and any(isinstance(x, ast.Name) and x.id == a.id for x in n.targets)]
                ctx.require(len(vals) == 1, f"StickyCookie.request: `{a.id}` is not assigned exactly once in the loop")
                a = vals[0]
            ctx.require(isinstance(a, (ast.List, ast.Tuple)), f"StickyCookie.request: all({norm(a)}) not modelled")
            for v in a.elts:
                flatten(v)
        else:
            out.append(e)

    for c in conj:
        flatten(c)
    # other statements of the loop must not rebind the key variables
    bound = {x.id for x in t.elts[0].elts}
    for n in ast.walk(loop):
        if isinstance(n, ast.Name) and isinstance(n.ctx, ast.Store) and n.id in bound and n not in t.elts[0].elts:
            raise AnalysisError(f"StickyCookie.request: loop rebinds {n.id} (not modelled)")
    return loop, adds[0], out


def check_attach(ctx):
    fn = ctx.func(F, "StickyCookie.request")
    W = (F, "StickyCookie.request", fn)
    flow = params_of(fn)[1]
    loop, add, conj = attach_guard(ctx, fn)
    dvar, pvar, pathvar = [x.id for x in loop.target.elts[0].elts]
    # positions of the jar key are fixed by ckey (checked in R54.2): (domain, port, path)
    if not conj:
        ctx.fail("R54.1", W, "jar cookies attached without any guard", "every stored cookie is sent to every host, port and path")
        return
    wrong = {"domain": None, "port": None, "path": None}
    n_true = 0
    used = {n.id for c in conj for n in ast.walk(c) if isinstance(n, ast.Name)}
    prelude = [st for st in loop.body if isinstance(st, ast.Assign) and len(st.targets) == 1 and isinstance(st.targets[0], ast.Name) and st.targets[0].id in used]

    def guard(host, hport, hpath, cdom, cport, cpath):
        def factory():
            ev = PureEval("StickyCookie.request guard", chains={f"{flow}.request.host": host, f"{flow}.request.pretty_host": host, f"{flow}.request.port": hport, f"{flow}.request.path": hpath})
            ev.calls = module_calls(ctx, factory)
            return ev

        env = {dvar: cdom, pvar: cport, pathvar: cpath}
        try:
            for st in prelude:  # plain local assignments of the loop body that precede the guard (e.g. match = [...])
                env[st.targets[0].id] = factory().expr(st.value, dict(env))
            return all(bool(factory().expr(c, dict(env))) for c in conj)
        except Raised:
            return False  # the hook raises: nothing is attached

    for (host, cdom), (hport, cport), (hpath, cpath) in itertools.product(HOSTS, PORTS, PATHS):
        ctx.cells += 1
        got = guard(host, hport, hpath, cdom, cport, cpath)
        want = {"domain": spec_domain(host, cdom), "port": hport == cport, "path": spec_path(hpath, cpath)}
        if got:
            n_true += 1
            for k, v in want.items():
                if not v and wrong[k] is None and all(w for kk, w in want.items() if kk != k):
                    wrong[k] = {"domain": f"host {host} / cookie domain {cdom}", "port": f"request port {hport} / cookie port {cport}", "path": f"request path {hpath} / cookie path {cpath}"}[k]
    text = {"domain": "the request host does not domain-match the cookie's domain", "port": "the request port differs from the port that set the cookie",
            "path": "the request path does not path-match the cookie's path (RFC 6265 5.1.4)"}
    for k in ("domain", "port", "path"):
        ctx.check(wrong[k] is None, "R54.1", W, f"cookie attached although {k} does not match: {wrong[k]}", f"a sticky cookie is sent although {text[k]}",
                  desc=f"attach guard implies {k} match on all {len(HOSTS) * len(PORTS) * len(PATHS)} cells ({' and '.join(norm(c) for c in conj)[:120]})")
    base = guard("www.example.com", 80, "/foo/bar", ".example.com", 80, "/foo")
    ctx.require(base or any(w for w in wrong.values()), "StickyCookie.request: the guard is false even when host, port and path all match (evaluation vacuous)")
    ctx.note(f"attach guard true on {n_true} of {len(HOSTS) * len(PORTS) * len(PATHS)} cells")


# ---------------------------------------------------------------------------------------------------
# R54.2


class RespSpec(GenericSpec):
    def __init__(self, flow):
        super().__init__(record_conds=True)
        self.flow = flow
        self.keyvar = None

    def _key_of(self, sub):
        """self.jar[<k>] -> text of k"""
        if isinstance(sub, ast.Subscript) and attr_chain(sub.value) == "self.jar":
            return norm(sub.slice)
        return None

    def events(self, node, st):
        out = []
        for n in eval_order(node):
            if isinstance(n, ast.Call) and isinstance(n.func, ast.Attribute) and n.func.attr == "pop":
                k = self._key_of(n.func.value)
                if k is not None:
                    out.append(("popname", k))
                elif attr_chain(n.func.value) == "self.jar" and n.args:
                    out.append(("popkey", norm(n.args[0])))
        if isinstance(node, ast.Assign):
            for t in node.targets:
                if isinstance(t, ast.Subscript) and self._key_of(t.value) is not None:
                    out.append(("store", self._key_of(t.value)))
                elif self._key_of(t) is not None or attr_chain(t) == "self.jar":
                    out.append(("store-entry", norm(t)))
        if isinstance(node, ast.Delete):
            for t in node.targets:
                if self._key_of(t) is not None:
                    out.append(("popkey", self._key_of(t)))
                elif isinstance(t, ast.Subscript) and self._key_of(t.value) is not None:
                    out.append(("popname", self._key_of(t.value)))
        return out

    def cond_event(self, expr, value, st):
        if isinstance(expr, ast.Call) and call_name(expr) in ("domain_match", "cookiejar.domain_match") and len(expr.args) == 2:
            a, b = expr.args
            good = attr_chain(a) == f"{self.flow}.request.host" and isinstance(b, ast.Subscript) and isinstance(b.value, ast.Name) and isinstance(b.slice, ast.Constant) and b.slice.value == 0
            return ("dm", b.value.id, value) if good else ("dm-wrong", norm(expr), value)
        if isinstance(expr, ast.Call) and call_name(expr).endswith("is_expired") and len(expr.args) == 1:
            return ("expired", value)
        if self._key_of(expr) is not None:
            return ("nonempty", self._key_of(expr), value)
        if attr_chain(expr) in ("self.flt", f"{self.flow}.response"):
            return ("pre", value)
        return None


def check_response(ctx):
    fn = ctx.func(F, "StickyCookie.response")
    W = (F, "StickyCookie.response", fn)
    flow = params_of(fn)[1]
    sp = RespSpec(flow)
    eng = StrictEngine(sp, lambda e: sp.cond_event(e, True, None) is not None, "StickyCookie.response")
    trs = eng.terminal(fn)
    ctx.paths += len(trs)
    stores = [tr for tr, _, _ in trs if any(e[0] == "store" for e in tr)]
    ctx.require(stores, "StickyCookie.response: no path stores a cookie (shape not recognised)")
    for tr, how, _ in trs:
        for e in tr:
            if e[0] == "store-entry":
                raise AnalysisError(f"StickyCookie.response: whole jar entries are written ({e[1]}), not modelled")
    # the key is ckey(attrs, flow)
    keys = {e[1] for tr in stores for e in tr if e[0] == "store"}
    ctx.require(len(keys) == 1 and keys.copy().pop().isidentifier(), f"StickyCookie.response: jar key expression not modelled: {keys}")
    key = keys.pop()
    kv = [n.value for n in own_nodes(fn) if isinstance(n, ast.Assign) and any(isinstance(t, ast.Name) and t.id == key for t in n.targets)]
    ok = len(kv) == 1 and isinstance(kv[0], ast.Call) and call_name(kv[0]) == "ckey" and len(kv[0].args) == 2 and norm(kv[0].args[1]) == flow
    ctx.check(ok, "R54.2", W, f"jar key {key} = {norm(kv[0]) if kv else '?'}", "the jar key must be ckey(attrs, flow) of the responding flow", desc=f"jar key {key} = ckey(attrs, {flow})")
    bad = None
    for tr in stores:
        i = index_of(tr, lambda e: e[0] == "store")
        if not any(e == ("dm", key, True) for e in tr[:i]):
            bad = bad or ("a cookie is stored without domain_match(flow.request.host, key[0]) being true", tr)
        if not any(e == ("expired", False) for e in tr[:i]):
            bad = bad or ("an expired cookie is stored", tr)
    ctx.check(not bad, "R54.2", W, f"store: {bad[0] if bad else ''}", f"{bad[0] if bad else ''} (path {list(bad[1]) if bad else ''}): a response can plant cookies for unrelated domains",
              desc=f"cookie stored only after domain_match(flow.request.host, {key}[0]) and not is_expired ({len(stores)} storing paths)")
    bad = None
    seen_exp = False
    for tr, how, _ in trs:
        if ("dm", key, True) in tr and ("expired", True) in tr:
            seen_exp = True
            i = index_of(tr, lambda e: e == ("expired", True))
            if not any(e == ("popname", key) for e in tr[i:]):
                bad = bad or ("an expired cookie is not removed from its jar entry", tr)
            j = index_of(tr, lambda e: e == ("nonempty", key, False), i)
            if index_of(tr, lambda e: e[0] == "nonempty" and e[1] == key, i) < 0:
                bad = bad or ("after removing an expired cookie the jar entry is not tested for emptiness", tr)
            elif j >= 0 and not any(e == ("popkey", key) for e in tr[j:]):
                bad = bad or ("an emptied jar entry is not removed", tr)
    ctx.require(seen_exp or ctx.findings, "StickyCookie.response: no path handles expired cookies (shape not recognised)")
    ctx.check(not bad, "R54.2", W, f"expiry: {bad[0] if bad else ''}", f"{bad[0] if bad else ''} (path {list(bad[1]) if bad else ''})",
              desc="expired cookie: popped from the entry, emptied entry removed from the jar")


def check_ckey(ctx):
    fn = ctx.func(F, "ckey")
    ps = params_of(fn)
    ctx.require(len(ps) == 2, "ckey signature changed")
    bad = None
    for attrs in ({}, {"domain": ".d.example"}, {"path": "/p"}, {"domain": "d.example", "path": "/p/q"}):
        ctx.cells += 1
        ev = PureEval("ckey", chains={f"{ps[1]}.request.host": "host.example", f"{ps[1]}.request.pretty_host": "pretty.example", f"{ps[1]}.request.port": 8443,
                                      f"{ps[1]}.server_conn.address": ("x", 1)})
        try:
            got = ev.call(fn, dict(attrs), None)
        except Raised as e:
            got = f"raises {e}"
        want = (attrs.get("domain", "host.example"), 8443, attrs.get("path", "/"))
        if got != want:
            bad = bad or (attrs, got, want)
    ctx.check(not bad, "R54.2", (F, "ckey", fn), f"ckey({bad[0] if bad else ''}) = {bad[1] if bad else ''}, expected {bad[2] if bad else ''}",
              "jar keys must be (Domain attribute or responding host, port of the responding request, Path attribute or '/'): request() compares against exactly these",
              desc="ckey: (attrs.domain | request.host, request.port, attrs.path | '/') on 4 attribute combinations")


def check(ctx):
    ctx.rule("R54.1", "the guard for attaching a stored cookie implies RFC 6265 domain-match, port equality and RFC 6265 path-match (decision table evaluated on the AST)")
    ctx.rule("R54.2", "cookies are stored only under domain_match(responding host, key domain) and when not expired; expired cookies and emptied entries are removed; "
             "ckey = (domain, responding port, path)")
    check_attach(ctx)
    check_response(ctx)
    check_ckey(ctx)
    ctx.trust("http.cookiejar.domain_match (standard library) is used as its own model; cookies.is_expired")
    if not ctx.findings:
        ctx.expect_instances("R54.1", 3)
        ctx.expect_instances("R54.2", 4)


MUTANTS = [
    # reverse of the F-C54b fix (f0257d529)
    Mutant("F-C54b-reverted-no-suffix-check", F, "    if not a.lower().endswith(b.lower().strip(\".\")):\n        return False\n", "", "R54.1"),
    Mutant("revert-fix-bare-startswith", F, "                        path_match(flow.request.path, path),", "                        flow.request.path.startswith(path),", "R54.1"),
    Mutant("path-match-without-boundary", F, "        return cookie_path.endswith(\"/\") or request_path[len(cookie_path)] == \"/\"", "        return True", "R54.1"),
    Mutant("port-not-compared", F, "                        flow.request.port == port,\n", "", "R54.1"),
    Mutant("domain-substring-match", F, "                        domain_match(flow.request.host, domain),", "                        domain.strip(\".\") in flow.request.host,", "R54.1"),
    Mutant("domain-suffix-without-dot", F, "    elif cookiejar.domain_match(a, b.strip(\".\")):  # type: ignore\n        return True", "    elif a.endswith(b.strip(\".\")):\n        return True", "R54.1"),
    Mutant("any-instead-of-all", F, "                    if all(match):", "                    if any(match):", "R54.1"),
    Mutant("domain-match-always-true", F, "        return True\n    return False\n\n\ndef path_match", "        return True\n    return True\n\n\ndef path_match", "R54.1"),
    Mutant("store-without-domain-check", F, "                if domain_match(flow.request.host, dom_port_path[0]):", "                if True:", "R54.2"),
    Mutant("store-domain-check-swapped", F, "                if domain_match(flow.request.host, dom_port_path[0]):", "                if domain_match(dom_port_path[0], flow.request.host):", "R54.2"),
    Mutant("expired-cookie-kept", F, "                        self.jar[dom_port_path].pop(name, None)\n", "", "R54.2"),
    Mutant("expired-cookie-stored", F, "                    if cookies.is_expired(attrs):", "                    if not cookies.is_expired(attrs):", "R54.2"),
    Mutant("empty-entry-kept", F, "                        if not self.jar[dom_port_path]:\n                            self.jar.pop(dom_port_path, None)\n", "", "R54.2"),
    Mutant("ckey-default-path-empty", F, "    path = \"/\"\n", "    path = \"\"\n", "R54.2"),
    Mutant("ckey-domain-attribute-ignored", F, "    if \"domain\" in attrs:\n        domain = attrs[\"domain\"]\n", "", "R54.2"),
]
