"""C12 - error pages never reflect unescaped client input.

Decided:
  R12.1 (taint, whole package)  every string template in mitmproxy/** (contrib excluded) that contains an HTML tag and has
        interpolations (f-string, ``%``, ``.format``, ``+`` chain, ``join`` of a display; the template text may sit in a module
        constant / single-assignment local / behind ``textwrap.dedent`` or ``.strip()``): each interpolated expression is
        clean = constant / int-typed / lookup in a table of markup-free constants (status_codes.RESPONSES, checked) /
        wrapped in ``html.escape``.  Every parameter of the enclosing function (and what it derives, through locals and
        same-module helpers) is a source; a *private* helper all of whose uses are direct calls inside its own module is
        analysed symbolically instead and the obligation moves to its callers (derived sink).
  R12.2 the value of ``format_error(..)`` is followed through locals, returning helpers and parameters of helpers; every place
        it ends up is ``Response.make(.., body, headers)`` or ``X.send_data(sid, body)``; the headers of that construction
        (resolved through locals, module constants and helpers returning them) declare ``content-type: text/html``
        (for send_data: a dominating ``X.send_headers(sid, ..)`` on the same receiver / stream in the same function).  Each of
        the three protocol-error anchors reaches such a construction through the call graph.
  R12.3 ``make_error_response`` returns ``assemble_response(Response.make(.., headers))`` (through locals / helpers), the
        headers carry Connection: close and no Transfer-Encoding; ``Response.make`` and the ``content`` setter are
        *interpreted* (pyint) on representative bodies / header sets: body stored, Content-Length = len(body) written even
        over a stale value; every ``yield SendData(.., <page>)`` (page followed through locals / helpers) is followed by
        ``CloseConnection`` on all paths (a helper that does not close itself is inlined into its callers).
NOT decided: the 407 page of proxyauth carries no Content-Type (it reflects nothing: only status/reason, R12.1); the
HTML of mitmweb / onboarding templates (not error pages, not Python string templates); escaping *quality* of html.escape.
"""

from __future__ import annotations

import ast
import collections
import collections.abc
import re
import time as _time

from ..core import AnalysisError
from ..core import norm
from ..model import attr_chain
from ..model import enclosing_func
from ..model import last_attr
from ..model import qual_of
from ..model import eval_order
from ..model import walk_in_order
from ..paths import GenericSpec
from ..paths import traces_of
from ..pyint import ClassRef
from ..pyint import DictRec
from ..pyint import Func
from ..pyint import Interp
from ..pyint import Raised
from ..pyint import Rec
from ..selftest import Mutant
from ._helpers_G import describe
from ._helpers_G import expected_markers
from ._helpers_G import load_positive
from ._helpers_G import Origin
from ._helpers_G import Program
from ._helpers_G import SnippetModel
from ._helpers_G import TaintSpec

PROP = "C12"
REG = {
    "strength": "strong",
    "technique": "taint (source/sanitiser/sink dataflow with same-module summaries, private helpers as derived sinks) over every HTML-bearing "
    "string template of the package + value flow of the page through locals / helpers / the call graph to its consumers + abstract "
    "interpretation (pyint) of Response.make and the content setter + path pairing",
    "claim": "every Python string template in mitmproxy/** that contains an HTML tag interpolates only constants, ints, markup-free "
    "table lookups or html.escape()d values; wherever the page built by format_error ends up (Response.make / send_data, followed through "
    "locals and helpers) text/html is declared in the same construction, and the three protocol-error sites reach such a construction; "
    "the HTTP/1 error response is built by Response.make (interpreted: body stored, Content-Length = len(body)), carries Connection: close, "
    "no Transfer-Encoding, and every send of it is followed by CloseConnection on every path.",
    "note": "A callee outside the analysed module is assumed to return data derived from its operands. html.escape is trusted. "
    "mitmproxy.net.encoding is replaced by an identity/gzip/invalid stand-in while http.py is interpreted. "
    "Positive example file mitmlint/positive/R12_1.py keeps R12.1 non-vacuous.",
}

BASE = "mitmproxy/proxy/layers/http/_base.py"
H1 = "mitmproxy/proxy/layers/http/_http1.py"
H2 = "mitmproxy/proxy/layers/http/_http2.py"
H3 = "mitmproxy/proxy/layers/http/_http3.py"
AUTH = "mitmproxy/addons/proxyauth.py"
HTTP = "mitmproxy/http.py"
SC = "mitmproxy/net/http/status_codes.py"

HTML_RE = re.compile(
    r"<\s*/?\s*(html|head|body|title|h[1-6]|p|div|span|a|pre|script|style|table|tr|td|th|ul|ol|li|b|i|em|strong|br|hr|img|form|"
    r"input|meta|link|code|center|font|iframe|svg|button|label|textarea|select|option)\b[^<>]*>|<!doctype",
    re.I,
)


def _text(v) -> str | None:
    if isinstance(v, ast.Constant) and isinstance(v.value, (str, bytes)):
        return v.value if isinstance(v.value, str) else v.value.decode("latin-1")
    return None


_BIND_CACHE: dict = {}


def _bindings(fn, name: str):
    """(value nodes, plain): what the local ``name`` of ``fn`` is bound to by plain single-name assignments (``x = v``, ``x: T = v``,
    ``(x := v)``); plain is False when the name is also bound any other way (parameter, loop / with / except target, unpacking, ``+=``, del)."""
    key = (id(fn), name)
    if key in _BIND_CACHE and _BIND_CACHE[key][0] is fn:
        return _BIND_CACHE[key][1]
    vals, plain = [], True
    a = fn.args
    if any(x.arg == name for x in a.posonlyargs + a.args + a.kwonlyargs + ([a.vararg] if a.vararg else []) + ([a.kwarg] if a.kwarg else [])):
        plain = False
    for n in ast.walk(fn):
        if isinstance(n, ast.Name) and n.id == name and isinstance(n.ctx, (ast.Store, ast.Del)):
            p = getattr(n, "_parent", None)
            if isinstance(p, ast.Assign) and any(t is n for t in p.targets):
                vals.append(p.value)
            elif isinstance(p, ast.AnnAssign) and p.target is n:
                if p.value is not None:
                    vals.append(p.value)
            elif isinstance(p, ast.NamedExpr) and p.target is n:
                vals.append(p.value)
            else:
                plain = False
        elif isinstance(n, ast.ExceptHandler) and n.name == name:
            plain = False
        elif isinstance(n, (ast.MatchAs, ast.MatchStar)) and n.name == name:
            plain = False
        elif isinstance(n, ast.MatchMapping) and n.rest == name:
            plain = False
        elif isinstance(n, (ast.Global, ast.Nonlocal)) and name in n.names:
            plain = False
    _BIND_CACHE[key] = (fn, (vals, plain))
    return vals, plain


_TAG_PRESERVING_CALLS = ("dedent", "cleandoc")  # textwrap.dedent(T) / inspect.cleandoc(T): the tags of T survive
_TAG_PRESERVING_METHODS = ("strip", "lstrip", "rstrip", "expandtabs")


def _const_text(node, mod) -> str | None:
    """Text of a str/bytes constant, of a name (single-assignment local, else module level) bound to one, or of a tag-preserving
    wrapper around one (``textwrap.dedent(T)``, ``T.strip()``)."""
    for _ in range(8):
        t = _text(node)
        if t is not None:
            return t
        if isinstance(node, ast.Name):
            fn = enclosing_func(node) if hasattr(node, "_parent") else None
            if fn is not None:
                vals, plain = _bindings(fn, node.id)
                if vals or not plain:
                    if plain and len(vals) == 1:
                        node = vals[0]
                        continue
                    return None
            vals = mod.assigns(node.id)
            if len(vals) == 1:
                node = vals[0]
                continue
            return None
        if isinstance(node, ast.Call) and len(node.args) == 1 and not node.keywords and last_attr(node.func) in _TAG_PRESERVING_CALLS:
            node = node.args[0]
            continue
        if isinstance(node, ast.Call) and isinstance(node.func, ast.Attribute) and node.func.attr in _TAG_PRESERVING_METHODS and not node.keywords and len(node.args) <= 1:
            node = node.func.value
            continue
        return None
    return None


def _flatten_add(node):
    if isinstance(node, ast.BinOp) and isinstance(node.op, ast.Add):
        return _flatten_add(node.left) + _flatten_add(node.right)
    return [node]


def _joined_text(js: ast.JoinedStr) -> str:
    return "".join(_text(v) or "" for v in js.values)


def _joined_interps(js: ast.JoinedStr):
    out = []
    for v in js.values:
        if isinstance(v, ast.FormattedValue):
            out.append(v.value)
            if isinstance(v.format_spec, ast.JoinedStr):
                out += _joined_interps(v.format_spec)
    return out


def html_template(node, mod):
    """(kind, [interpolated expression]) if ``node`` is a string template containing an HTML tag, else None."""
    if isinstance(node, ast.JoinedStr):
        p = getattr(node, "_parent", None)
        if isinstance(p, ast.FormattedValue):  # a format spec
            return None
        if HTML_RE.search(_joined_text(node)):
            return "f-string", _joined_interps(node)
        return None
    if isinstance(node, ast.BinOp) and isinstance(node.op, ast.Mod):
        t = _const_text(node.left, mod)
        if t is not None and HTML_RE.search(t):
            r = node.right
            if isinstance(r, ast.Tuple):
                return "%-format", list(r.elts)
            if isinstance(r, ast.Dict):
                return "%-format", [v for v in r.values]
            return "%-format", [r]
        return None
    if isinstance(node, ast.BinOp) and isinstance(node.op, ast.Add):
        p = getattr(node, "_parent", None)
        if isinstance(p, ast.BinOp) and isinstance(p.op, ast.Add):
            return None  # handled at the top of the chain
        parts = _flatten_add(node)
        texts = [_const_text(x, mod) if not isinstance(x, ast.JoinedStr) else _joined_text(x) for x in parts]
        if any(t is not None and HTML_RE.search(t) for t in texts):
            interps = [x for x, t in zip(parts, texts) if t is None]
            for x in parts:
                if isinstance(x, ast.JoinedStr):
                    interps += _joined_interps(x)
            return "+ chain", interps
        return None
    if isinstance(node, ast.Call) and isinstance(node.func, ast.Attribute):
        if node.func.attr == "format":
            t = _const_text(node.func.value, mod)
            if t is not None and HTML_RE.search(t):
                return ".format", list(node.args) + [k.value for k in node.keywords]
        if node.func.attr == "join" and len(node.args) == 1 and isinstance(node.args[0], (ast.List, ast.Tuple)):
            elts = node.args[0].elts
            texts = [_const_text(x, mod) for x in elts]
            if any(t is not None and HTML_RE.search(t) for t in texts):
                return "join", [x for x, t in zip(elts, texts) if t is None]
    return None


class HtmlSpec(TaintSpec):
    name = "R12.1"
    sanitisers = {
        "html.escape": "html.escape replaces & < > (and quotes) by entities",
    }

    def __init__(self):
        self.visited: dict[int, tuple] = {}
        self.internal: dict[int, list[str]] = {}  # id(private helper) -> qualnames of its (only) callers
        self.sanitiser_calls: set[int] = set()  # id(call) of every call recognised as html.escape (under whatever name)

    def sanitiser(self, call, dotted, frame):
        """html.escape under any name: the canonical dotted callee, or a name bound exactly once (module constant of this or an imported
        repository module, single-assignment local) to it: ``_escape = html.escape``."""
        why = self._sanitiser(call, dotted, frame)
        if why:
            self.sanitiser_calls.add(id(call))
        return why

    def _sanitiser(self, call, dotted, frame):
        why = self.sanitisers.get(dotted)
        if why:
            return why
        f = call.func
        for _ in range(4):
            v = None
            mod = frame.mod
            if isinstance(f, ast.Name) and f.id in frame.locals:
                vals, plain = _bindings(frame.fn, f.id)
                if plain and len(vals) == 1:
                    v = vals[0]
            elif isinstance(f, ast.Name) and f.id not in frame.env:
                vals = mod.assigns(f.id)
                if len(vals) == 1 and f.id not in _module_rebound(mod) and mod.get(f.id) is None:
                    v = vals[0]
            if v is None or not isinstance(v, (ast.Name, ast.Attribute)):
                return None
            d = frame.prog.dotted(mod, v, frame if isinstance(f, ast.Name) and f.id in frame.locals else None)
            if d in self.sanitisers:
                return self.sanitisers[d]
            f = v
        return None

    def is_entry(self, fn, an) -> bool:
        # every parameter of a function that builds HTML may carry peer-controlled text - except for a private helper whose every use is a
        # direct call inside its own module: its parameters are symbolic and the obligation is discharged at the call sites (derived sink)
        return id(fn) not in self.internal

    def yield_taint(self, node, frame):
        # the reply to a command (`err = yield commands.OpenConnection(..)`, `conn, err = yield GetHttpConnection(..)`) carries
        # error text produced from what the peer sent / how it failed
        return frozenset([Origin("src", "<reply>", norm(node)[:60], frame.qual, ())])

    def self_chain_taint(self, node, chain, frame):
        # state reached through the layer object (self.flow.request..., self.context.server...) is peer-controlled
        return frozenset([Origin("src", chain.split(".")[1], chain, frame.qual, ())])

    def _check(self, node, frame):
        tpl = html_template(node, frame.mod)
        if tpl is None:
            return
        kind, interps = tpl
        bad = []
        for e in interps:
            t = frame.taint(e)
            if t:
                bad.append((e, t))
                frame.hit("html", node, norm(e), t, kind)
        self.visited[id(node)] = (frame.mod.rel, frame.qual, node, kind, interps, bad)

    def on_node(self, node, frame):
        self._check(node, frame)

    def on_call(self, call, dotted, frame):
        self._check(call, frame)


def scan_templates(mods):
    """Every HTML-bearing template with interpolations: [(mod, node, kind, interps)]."""
    out = []
    for m in mods:
        if "<" not in m.source:
            continue
        for n in walk_in_order(m.tree):
            if isinstance(n, (ast.JoinedStr, ast.BinOp, ast.Call)):
                t = html_template(n, m)
                if t is not None and t[1]:
                    out.append((m, n, t[0], t[1]))
    return out


def _is_private(name: str) -> bool:
    return name.startswith("_") and not (name.startswith("__") and name.endswith("__"))


def closed_callers(model, mods, mod, fn):
    """[(Module, caller FunctionDef)] when ``fn`` is a private module function / method whose every use in the package is a direct call inside
    its own module that the taint engine resolves (``name(..)`` / ``self.name(..)``); None otherwise (then every parameter is a source)."""
    name = fn.name
    if not _is_private(name) or fn.decorator_list:
        return None
    parent = getattr(fn, "_parent", None)
    is_method = isinstance(parent, ast.ClassDef)
    if not is_method and not isinstance(parent, ast.Module):
        return None
    for m in mods:
        if m is mod or name not in m.source:
            continue
        if any(v == f"{mod.dotted}.{name}" for v in m.imports.values()):
            return None
        if any(isinstance(n, ast.Attribute) and n.attr == name for n in ast.walk(m.tree)):
            return None
    callers = []
    for n in ast.walk(mod.tree):
        if isinstance(n, ast.Name) and n.id == name and isinstance(n.ctx, ast.Load):
            if is_method:
                continue  # an unrelated local / global of the same name
        elif isinstance(n, ast.Attribute) and n.attr == name:
            if not is_method:
                return None
        else:
            continue
        p = getattr(n, "_parent", None)
        if not (isinstance(p, ast.Call) and p.func is n):
            return None
        g = enclosing_func(p)
        if g is None:
            return None
        if isinstance(n, ast.Name):
            vals, plain = _bindings(g, name)
            if vals or not plain:
                return None
        else:
            gp = getattr(g, "_parent", None)
            if not (isinstance(n.value, ast.Name) and n.value.id in ("self", "cls") and isinstance(gp, ast.ClassDef)):
                return None
            try:
                r = model.method(mod.rel, getattr(gp, "_qual", gp.name), name)
            except AnalysisError:
                r = None
            if r is None or r[1] is not fn:
                return None
        if all(g is not x for _, x in callers):
            callers.append((mod, g))
    return callers or None


def run_html(model, mods, what):
    """Taint-check every template of ``mods``.  Returns (templates, spec, program, hits)."""
    found = scan_templates(mods)
    spec = HtmlSpec()
    prog = Program(model, spec)
    pairs = []

    def add(m, fn, depth):
        if any(fn is f for _, f in pairs):
            return
        pairs.append((m, fn))
        callers = closed_callers(model, mods, m, fn) if depth < 4 else None
        if callers:
            spec.internal[id(fn)] = [qual_of(g) for _, g in callers]
            for cm, g in callers:
                add(cm, g, depth + 1)

    for m, n, kind, interps in found:
        fn = enclosing_func(n)
        if fn is None:
            raise AnalysisError(f"{m.rel}:{n.lineno}: HTML template with interpolations outside a function is not modelled ({what})")
        add(m, fn, 0)
    hits = prog.run(pairs)
    for m, n, kind, interps in found:
        if id(n) not in spec.visited:
            raise AnalysisError(f"{m.rel}:{n.lineno}: HTML template in {qual_of(n)} was not reached by the taint engine ({what})")
    return found, spec, prog, hits


# ---------------------------------------------------------------------------------------------------
# value resolution: where does the value of an expression come from (locals, module constants, helpers)


_MOD_BOUND_CACHE: dict = {}


def _module_bound(mod) -> set:
    """Names bound at the top level of ``mod`` by anything but an import (def / class / assignment / loop / with ...)."""
    key = id(mod)
    if key in _MOD_BOUND_CACHE and _MOD_BOUND_CACHE[key][0] is mod:
        return _MOD_BOUND_CACHE[key][1]
    out = set()
    for n in ast.walk(mod.tree):
        if enclosing_func(n) is not None:
            continue
        if isinstance(n, ast.Name) and isinstance(n.ctx, (ast.Store, ast.Del)):
            out.add(n.id)
        elif isinstance(n, (ast.FunctionDef, ast.AsyncFunctionDef, ast.ClassDef)) and isinstance(getattr(n, "_parent", None), ast.Module):
            out.add(n.name)
    _MOD_BOUND_CACHE[key] = (mod, out)
    return out


_MOD_REBOUND_CACHE: dict = {}


def _module_rebound(mod) -> set:
    """Module-level names of ``mod`` that are not plain constants: bound more than once at the top level (or by a loop / with / augmented
    assignment / del there), or re-bound from inside a function through ``global``."""
    key = id(mod)
    if key in _MOD_REBOUND_CACHE and _MOD_REBOUND_CACHE[key][0] is mod:
        return _MOD_REBOUND_CACHE[key][1]
    cnt: dict = {}
    out = set()
    for n in ast.walk(mod.tree):
        if isinstance(n, ast.Global):
            out |= set(n.names)
        if enclosing_func(n) is not None:
            continue
        if isinstance(n, ast.Name) and isinstance(n.ctx, (ast.Store, ast.Del)):
            p = getattr(n, "_parent", None)
            plain = (isinstance(p, ast.Assign) and any(t is n for t in p.targets)) or (isinstance(p, ast.AnnAssign) and p.target is n)
            if not plain:
                out.add(n.id)
            cnt[n.id] = cnt.get(n.id, 0) + 1
    out |= {k for k, v in cnt.items() if v > 1}
    _MOD_REBOUND_CACHE[key] = (mod, out)
    return out


def _text_node(n):
    return n.value if isinstance(n, ast.Constant) and isinstance(n.value, (str, bytes)) else None


class RC:
    """Where an expression lives: module, enclosing function (None = module level) and, when we came in through a call, the argument
    expressions bound to the function's parameters."""

    __slots__ = ("mod", "fn", "args", "depth")

    def __init__(self, mod, fn, args=None, depth=0):
        self.mod, self.fn, self.args, self.depth = mod, fn, args or {}, depth


def _params(fn):
    a = fn.args
    return [x.arg for x in a.posonlyargs + a.args]


def _is_method(fn) -> bool:
    return isinstance(getattr(fn, "_parent", None), ast.ClassDef) and not any(norm(d) == "staticmethod" for d in fn.decorator_list)


def _own_returns(fn):
    return [n for n in ast.walk(fn) if isinstance(n, ast.Return) and n.value is not None and enclosing_func(n) is fn]


def _is_generator(fn) -> bool:
    return any(isinstance(n, (ast.Yield, ast.YieldFrom)) and enclosing_func(n) is fn for n in ast.walk(fn))


def param_of_arg(cfn, call: ast.Call, idx, kw):
    """Name of the parameter of ``cfn`` that receives positional argument ``idx`` / keyword ``kw`` of ``call`` (None: not decidable)."""
    ps = _params(cfn)
    if _is_method(cfn) and ps and ps[0] in ("self", "cls") and isinstance(call.func, ast.Attribute):
        ps = ps[1:]
    elif ps and ps[0] == "cls" and any(norm(d) == "classmethod" for d in cfn.decorator_list):
        ps = ps[1:]
    if kw is not None:
        return kw if kw in ps + [x.arg for x in cfn.args.kwonlyargs] else None
    if any(isinstance(a, ast.Starred) for a in call.args[: idx + 1]):
        return None
    return ps[idx] if idx < len(ps) else None


class Resolver:
    def __init__(self, model, stop=lambda call: False):
        self.model = model
        self.stop = stop

    def callee(self, call: ast.Call, rc: RC):
        """(Module, FunctionDef) of a repository function / method of the enclosing class called by ``call``, else None."""
        f = call.func
        r = None
        if isinstance(f, ast.Name):
            if rc.fn is not None:
                vals, plain = _bindings(rc.fn, f.id)
                if vals or not plain:
                    return None
            d = rc.mod.get(f.id)
            if isinstance(d, (ast.FunctionDef, ast.AsyncFunctionDef)):
                return rc.mod, d
            r = self.model.resolve_name(rc.mod, f)
        elif isinstance(f, ast.Attribute) and isinstance(f.value, ast.Name) and f.value.id in ("self", "cls") and rc.fn is not None:
            p = getattr(rc.fn, "_parent", None)
            if isinstance(p, ast.ClassDef):
                try:
                    r = self.model.method(rc.mod.rel, getattr(p, "_qual", p.name), f.attr)
                except AnalysisError:
                    r = None
        elif isinstance(f, ast.Attribute) and attr_chain(f):
            r = self.model.resolve_name(rc.mod, f)
        if r is not None and isinstance(r[1], (ast.FunctionDef, ast.AsyncFunctionDef)):
            return r
        return None

    def enter(self, call: ast.Call, rc: RC, target) -> RC:
        cm, cf = target
        args = {}
        for i, a in enumerate(call.args):
            if isinstance(a, ast.Starred):
                break
            p = param_of_arg(cf, call, i, None)
            if p:
                args[p] = (a, rc)
        for k in call.keywords:
            if k.arg and param_of_arg(cf, call, None, k.arg):
                args[k.arg] = (k.value, rc)
        a = cf.args
        pos = a.posonlyargs + a.args
        for p, d in list(zip(pos[len(pos) - len(a.defaults):], a.defaults)) + [(p, d) for p, d in zip(a.kwonlyargs, a.kw_defaults) if d is not None]:
            args.setdefault(p.arg, (d, RC(cm, None)))
        return RC(cm, cf, args, rc.depth + 1)

    def resolve(self, e, rc: RC, _seen=(), trail=None):
        """[(node, RC)]: the expressions whose value ``e`` may denote - names followed through plain local bindings, parameters bound by
        the call we came through, module constants; conditional expressions split; calls of repository helpers replaced by what they
        return (unless ``stop(call)``).  An expression that cannot be followed further is returned as it is.
        ``trail`` (a list) collects the (RC, local name) pairs the value was held in on the way."""
        if isinstance(e, ast.Name) and isinstance(e.ctx, ast.Load):
            key = (id(rc.fn), e.id)
            if key in _seen or len(_seen) > 12:
                return [(e, rc)]
            seen = _seen + (key,)
            if rc.fn is not None:
                vals, plain = _bindings(rc.fn, e.id)
                if plain and vals:
                    if trail is not None and all(rc.fn is not t.fn or e.id != nm for t, nm in trail):
                        trail.append((rc, e.id))
                    return [x for v in vals for x in self.resolve(v, rc, seen, trail)]
                if e.id in rc.args and not vals:
                    if trail is not None and all(rc.fn is not t.fn or e.id != nm for t, nm in trail):
                        trail.append((rc, e.id))
                    a, arc = rc.args[e.id]
                    return self.resolve(a, arc, seen, trail)
                if vals or not plain:
                    return [(e, rc)]
            vals = rc.mod.assigns(e.id)
            if vals:
                return [x for v in vals for x in self.resolve(v, RC(rc.mod, None), seen, trail)]
            if e.id not in _module_bound(rc.mod):
                imp = self.imported_constant(rc.mod, e)
                if imp is not None:
                    return [x for v in imp[1] for x in self.resolve(v, RC(imp[0], None), seen, trail)]
            return [(e, rc)]
        if isinstance(e, ast.Attribute) and isinstance(e.ctx, ast.Load) and isinstance(e.value, ast.Name) and e.value.id in ("self", "cls") and rc.fn is not None \
                and isinstance(getattr(rc.fn, "_parent", None), ast.ClassDef) and len(_seen) <= 12 and not _bindings(rc.fn, e.value.id)[0]:
            # `self.ERROR_PAGE_HEADERS`: a class-level constant (found along the MRO, never stored through an instance / the class anywhere)
            c = self.class_constant(rc.mod, rc.fn._parent, e.attr)
            key = ("clsattr", id(rc.fn._parent), e.attr)
            if c is not None and key not in _seen:
                return self.resolve(c[1], RC(c[0], None), _seen + (key,), trail)
            return [(e, rc)]
        if isinstance(e, ast.Attribute) and isinstance(e.ctx, ast.Load) and attr_chain(e) and len(_seen) <= 12:
            # `_base.ERROR_PAGE_CONTENT_TYPE`: a constant of another repository module reached through an imported module name
            head = attr_chain(e).split(".")[0]
            local = rc.fn is not None and (lambda b: bool(b[0]) or not b[1])(_bindings(rc.fn, head))
            if not local and head in rc.mod.imports and not rc.mod.assigns(head):
                imp = self.imported_constant(rc.mod, e)
                key = ("attr", imp[0].rel, attr_chain(e)) if imp is not None else None
                if imp is not None and key not in _seen:
                    return [x for v in imp[1] for x in self.resolve(v, RC(imp[0], None), _seen + (key,), trail)]
            return [(e, rc)]
        if isinstance(e, ast.IfExp):
            return self.resolve(e.body, rc, _seen, trail) + self.resolve(e.orelse, rc, _seen, trail)
        if isinstance(e, ast.NamedExpr):
            return self.resolve(e.value, rc, _seen, trail)
        if isinstance(e, ast.Call) and not self.stop(e) and rc.depth < 4:
            t = self.callee(e, rc)
            if t is not None and not _is_generator(t[1]):
                rets = _own_returns(t[1])
                if rets:
                    rc2 = self.enter(e, rc, t)
                    return [x for r in rets for x in self.resolve(r.value, rc2, _seen, trail)]
        return [(e, rc)]

    def class_constant(self, mod, cls, name):
        """(Module, value node) of the class-body assignment ``name = value`` that ``self.name`` denotes in a method of ``cls`` (first class of
        the MRO that binds it, bound exactly once there, not a def / property); None when the attribute is also stored anywhere in the package
        (``x.name = ..``, ``del``, augmented) or is not such a constant."""
        try:
            mro = self.model.mro(mod.rel, getattr(cls, "_qual", cls.name))
        except AnalysisError:
            return None
        found = None
        for m, c in mro:
            vals = []
            for st in c.body:
                if isinstance(st, ast.Assign) and any(isinstance(t, ast.Name) and t.id == name for t in st.targets):
                    vals.append(st.value)
                elif isinstance(st, ast.AnnAssign) and isinstance(st.target, ast.Name) and st.target.id == name and st.value is not None:
                    vals.append(st.value)
                elif isinstance(st, (ast.FunctionDef, ast.AsyncFunctionDef, ast.ClassDef)) and st.name == name:
                    return None
            if vals:
                if len(vals) != 1:
                    return None
                found = (m, vals[0])
                break
        if found is None:
            return None
        bound = 0
        for m in self.model.all_modules():
            if name not in m.source:
                continue
            for n in ast.walk(m.tree):
                if isinstance(n, ast.Attribute) and n.attr == name and isinstance(n.ctx, (ast.Store, ast.Del)):
                    return None
                if isinstance(n, ast.Name) and n.id == name and isinstance(n.ctx, (ast.Store, ast.Del)) and isinstance(getattr(getattr(n, "_parent", None), "_parent", None), ast.ClassDef):
                    bound += 1  # a second class body binding the name may be a subclass overriding it
                    if bound > 1:
                        return None
                if isinstance(n, ast.Call) and isinstance(n.func, ast.Name) and n.func.id in ("setattr", "delattr") and len(n.args) >= 2 \
                        and not (isinstance(n.args[1], ast.Constant) and n.args[1].value != name):
                    return None
        return found

    def imported_constant(self, mod, e):
        """(Module, [value node]) of the module-level constant of another repository module that the name / dotted name ``e`` used in
        ``mod`` denotes through an import (``from ._base import X``, ``from . import _base`` + ``_base.X``, ``import a.b as m`` + ``m.X``,
        aliases and re-exports included); None when it is not such a constant (or is assigned more than once / also defined as def/class)."""
        chain = attr_chain(e) if not isinstance(e, ast.Name) else e.id
        if not chain:
            return None
        parts = chain.split(".")
        cur, seen = mod, set()
        for _ in range(6):
            if parts[0] not in cur.imports or (cur.rel, ".".join(parts)) in seen:
                return None
            seen.add((cur.rel, ".".join(parts)))
            target = cur.imports[parts[0]].split(".") + parts[1:]
            nxt = None
            for i in range(len(target), 0, -1):
                m2 = self.model.module_by_dotted(".".join(target[:i]))
                if m2 is not None:
                    nxt = (m2, target[i:])
                    break
            if nxt is None or len(nxt[1]) == 0:
                return None
            m2, rest = nxt
            if len(rest) == 1:
                if m2.get(rest[0]) is not None:
                    return None
                vals = m2.assigns(rest[0])
                if vals:
                    return (m2, vals) if rest[0] not in _module_rebound(m2) else None
            if m2 is cur:
                return None
            cur, parts = m2, rest  # re-exported through that module's own imports
        return None

    def texts(self, e, rc: RC, _depth=0):
        """The set of constant texts ``e`` may denote (str / bytes; ``X.encode()`` / ``X.decode()``, ``str(X)``, ``+`` chains, ``%`` / f-string /
        ``.format`` free of interpolations and implicit concatenation of such values are folded); None when an alternative is not a constant."""
        out = set()
        for n, nrc in self.resolve(e, rc):
            ts = self._texts1(n, nrc, _depth)
            if ts is None:
                return None
            out |= ts
        return out or None

    def _texts1(self, n, rc, depth):
        t = _text(n)
        if t is not None:
            return {t}
        if depth > 6:
            return None
        if isinstance(n, ast.Call) and isinstance(n.func, ast.Attribute) and n.func.attr in ("encode", "decode"):
            # the codec arguments do not matter for the ASCII header texts the rules compare; they must be constants all the same
            if all(isinstance(a, ast.Constant) for a in n.args) and all(k.arg and isinstance(k.value, ast.Constant) for k in n.keywords):
                return self.texts(n.func.value, rc, depth + 1)
            return None
        if isinstance(n, ast.Call) and isinstance(n.func, ast.Name) and n.func.id in ("str", "bytes") and n.args and not n.keywords:
            if rc.fn is not None and (lambda b: bool(b[0]) or not b[1])(_bindings(rc.fn, n.func.id)):
                return None
            if n.func.id == "str" and len(n.args) == 1:
                inner = self.resolve(n.args[0], rc)
                if all(isinstance(_text_node(x), str) for x, _ in inner):
                    return self.texts(n.args[0], rc, depth + 1)
                return None
            if n.func.id == "bytes" and len(n.args) in (2, 3) and all(isinstance(a, ast.Constant) for a in n.args[1:]):
                return self.texts(n.args[0], rc, depth + 1)
            return None
        if isinstance(n, ast.BinOp) and isinstance(n.op, ast.Add):
            a, b = self.texts(n.left, rc, depth + 1), self.texts(n.right, rc, depth + 1)
            if a is None or b is None or len(a) * len(b) > 16:
                return None
            return {x + y for x in a for y in b}
        if isinstance(n, ast.JoinedStr):
            acc = {""}
            for v in n.values:
                if isinstance(v, ast.FormattedValue):
                    if v.conversion != -1 or v.format_spec is not None:
                        return None
                    ts = self.texts(v.value, rc, depth + 1)
                else:
                    ts = self.texts(v, rc, depth + 1)
                if ts is None or len(acc) * len(ts) > 16:
                    return None
                acc = {x + y for x in acc for y in ts}
            return acc
        return None

    def text(self, e, rc: RC):
        """The one constant text ``e`` denotes, else None."""
        ts = self.texts(e, rc)
        return next(iter(ts)) if ts is not None and len(ts) == 1 else None

    # -- header displays ------------------------------------------------------------------------------
    def headers(self, e, rc: RC, what: str):
        """One (fields, complete) per alternative value of the header expression ``e``; fields: lower-case name -> [(value node, RC)];
        complete is False when part of the display is not a literal (name, value) pair.  AnalysisError when ``e`` is no display at all."""
        out = []
        trail: list = []
        alts = self.resolve(e, rc, trail=trail)
        later = []  # headers = Headers(..); headers["connection"] = "close": writes through every local / parameter that held the object
        added = []  # fields = [..]; fields.append((b"content-type", b"text/html")): further values for the names they carry
        for trc, name in trail:
            adds: list = []
            later += [(k, v, trc) for k, v in header_writes(trc.fn, name, what, adds)]
            added += [(kind, x, trc) for kind, x in adds]
        for n, nrc in alts:
            fields: dict = {}
            ok = self._display(n, nrc, fields, 0)
            if ok is None:
                raise AnalysisError(f"{what}: the headers expression `{norm(n)[:80]}` is not a header display the rule can read")
            for kind, x, xrc in added:
                if kind == "pair":
                    good = self._pair(x, xrc, fields)
                    if not good:
                        alts2 = self.resolve(x, xrc)
                        good = len(alts2) == 1 and alts2[0][0] is not x and self._pair(alts2[0][0], alts2[0][1], fields)
                elif kind == "display":
                    good = self._sub_display(x, xrc, fields, 0)
                else:
                    t = self.text(x[0], xrc)
                    good = t is not None
                    if good:
                        fields.setdefault(t.lower(), []).append((x[1], xrc))
                ok = ok and bool(good)
            for k, v, krc in later:
                t = self.text(k, krc)
                if t is None:
                    ok = False
                else:
                    fields[t.lower()] = [(v, krc)]  # item assignment replaces every earlier value of that name
            out.append((fields, ok))
        return out

    def _pair(self, e, rc, fields) -> bool:
        if isinstance(e, (ast.Tuple, ast.List)) and len(e.elts) == 2 and not any(isinstance(x, ast.Starred) for x in e.elts):
            k = self.text(e.elts[0], rc)
            if k is not None:
                fields.setdefault(k.lower(), []).append((e.elts[1], rc))
                return True
        return False

    def _display(self, n, rc, fields, depth):
        """True: every field is known; False: some are not; None: not a header display."""
        if depth > 4:
            return None
        if isinstance(n, ast.Call) and last_attr(n.func) in ("Headers", "dict", "list", "tuple"):
            kind = last_attr(n.func)
            complete = True
            for k in n.keywords:
                if k.arg is None:  # Headers(**fields) / dict(**COMMON): the keys become keyword names
                    sub: dict = {}
                    if not self._sub_display(k.value, rc, sub, depth):
                        complete = False
                    for name, vals in sub.items():
                        fields.setdefault(name.replace("_", "-") if kind == "Headers" else name, []).extend(vals)
                else:
                    name = k.arg.lower().replace("_", "-") if kind == "Headers" else k.arg.lower()
                    fields.setdefault(name, []).append((k.value, rc))
            for a in n.args:
                alts = self.resolve(a, rc)
                if len(alts) != 1:
                    complete = False
                    continue
                r = self._display(alts[0][0], alts[0][1], fields, depth + 1)
                if r is None:
                    complete = False
                else:
                    complete = complete and r
            return complete
        if isinstance(n, ast.Dict):
            complete = True
            for k, v in zip(n.keys, n.values):
                if k is None:  # {**COMMON, "content-type": ..}
                    if not self._sub_display(v, rc, fields, depth):
                        complete = False
                    continue
                t = self.text(k, rc)
                if t is None:
                    complete = False
                else:
                    fields.setdefault(t.lower(), []).append((v, rc))
            return complete
        if isinstance(n, (ast.List, ast.Tuple, ast.Set)):
            complete = True
            for e in n.elts:
                if isinstance(e, ast.Starred):  # [(b":status", ..), *COMMON_FIELDS]
                    if not self._sub_display(e.value, rc, fields, depth):
                        complete = False
                    continue
                if self._pair(e, rc, fields):
                    continue
                alts = self.resolve(e, rc)  # a pair held in a local / constant: [STATUS_FIELD, CONTENT_TYPE_FIELD]
                if not (len(alts) == 1 and alts[0][0] is not e and self._pair(alts[0][0], alts[0][1], fields)):
                    complete = False
            return complete
        if isinstance(n, ast.BinOp) and isinstance(n.op, (ast.Add, ast.BitOr)):
            a = self._sub_display(n.left, rc, fields, depth, strict=True)
            b = self._sub_display(n.right, rc, fields, depth, strict=True)
            return None if a is None and b is None else bool(a) and bool(b)
        return None

    def _sub_display(self, e, rc, fields, depth, strict=False):
        """Part of a display (operand of ``+`` / ``|``, ``*starred`` element), resolved by value first.  -> True / False (fields unknown);
        with ``strict`` also None (the part is no display at all)."""
        alts = self.resolve(e, rc)
        if len(alts) != 1:
            return False
        r = self._display(alts[0][0], alts[0][1], fields, depth + 1)
        if r is None:
            return None if strict else False
        return r

    def header_is(self, displays, name: str, pred) -> bool:
        """Every alternative carries header ``name`` and each value given for it satisfies ``pred`` (a predicate on its constant text)."""
        for fields, _ in displays:
            vals = fields.get(name)
            if not vals:
                return False
            for v, vrc in vals:
                ts = self.texts(v, vrc)
                if ts is None or not all(pred(t) for t in ts):
                    return False
        return bool(displays)

    def header_absent(self, displays, name: str, what: str) -> bool:
        for fields, complete in displays:
            if name in fields:
                return False
            if not complete:
                raise AnalysisError(f"{what}: the header set is not a literal display; the rule cannot decide that {name} is absent")
        return True


_HEADER_MUTATORS = ("set_all", "add", "insert", "update", "setdefault", "pop", "clear", "popitem", "set_state", "extend", "append", "remove")


def header_writes(fn, chain: str, what: str, additions=None):
    """[(key node, value node)] of the ``<chain>[key] = value`` statements of ``fn`` (chain = 'headers' / 'resp.headers'); any other
    modification of that object (del, mutating method) is outside the model -> AnalysisError.  When the caller passes a list as
    ``additions`` the statements that only *add* fields are collected there instead of being refused: ('pair', node) for
    ``X.append((k, v))`` / ``X.insert(i, (k, v))``, ('display', node) for ``X.extend(D)`` / ``X += D`` / ``X.update(D)``, ('kv', (k, v)) for ``X.add(k, v)``."""
    out = []
    for n in walk_in_order(fn):
        if additions is not None and isinstance(n, ast.Call) and isinstance(n.func, ast.Attribute) and attr_chain(n.func.value) == chain and not n.keywords \
                and not any(isinstance(a, ast.Starred) for a in n.args):
            m, k = n.func.attr, len(n.args)
            add = ("pair", n.args[0]) if (m, k) == ("append", 1) else ("pair", n.args[1]) if (m, k) == ("insert", 2) else \
                ("display", n.args[0]) if (m, k) in (("extend", 1), ("update", 1)) else ("kv", (n.args[0], n.args[1])) if (m, k) == ("add", 2) else None
            if add is not None:
                additions.append(add)
                continue
        if additions is not None and isinstance(n, ast.AugAssign) and isinstance(n.op, (ast.Add, ast.BitOr)) and attr_chain(n.target) == chain and "." not in chain:
            additions.append(("display", n.value))
            continue
        if isinstance(n, ast.Subscript) and attr_chain(n.value) == chain and isinstance(n.ctx, (ast.Store, ast.Del)):
            par = getattr(n, "_parent", None)
            if isinstance(n.ctx, ast.Store) and isinstance(par, ast.Assign) and len(par.targets) == 1:
                out.append((n.slice, par.value))
            else:
                raise AnalysisError(f"{what}: `{norm(par)[:80]}` modifies the header set in a way the rule does not model")
        elif isinstance(n, ast.Call) and isinstance(n.func, ast.Attribute) and attr_chain(n.func.value) == chain and n.func.attr in _HEADER_MUTATORS:
            raise AnalysisError(f"{what}: `{norm(n)[:80]}` modifies the header set in a way the rule does not model")
        elif isinstance(n, (ast.AugAssign, ast.Assign)) and any(attr_chain(t) == chain for t in (n.targets if isinstance(n, ast.Assign) else [n.target])) and "." in chain:
            raise AnalysisError(f"{what}: `{norm(n)[:80]}` replaces the header set: not modelled")
    return out


def _is_text_html(t: str) -> bool:
    return t.strip().lower().split(";")[0].strip() == "text/html"


def _subst(n, fn, depth=0):
    """A copy of expression ``n`` in which single-assignment locals of ``fn`` are replaced by their value (for comparing *values*)."""
    if isinstance(n, ast.Name) and isinstance(n.ctx, ast.Load) and fn is not None and depth < 6:
        vals, plain = _bindings(fn, n.id)
        if plain and len(vals) == 1:
            return _subst(vals[0], fn, depth + 1)
    if isinstance(n, ast.AST):
        new = type(n)()
        for f, v in ast.iter_fields(n):
            setattr(new, f, [_subst(x, fn, depth) for x in v] if isinstance(v, list) else _subst(v, fn, depth))
        return new
    return n


def vkey(e, fn) -> str:
    return ast.unparse(_subst(e, fn))


# ---------------------------------------------------------------------------------------------------
# forward flow of one value: where does the result of a call end up


_NOFLOW_BUILTINS = {"len", "isinstance", "bool", "type", "repr", "id", "hash", "print"}
_QUERY_METHODS = {"startswith", "endswith", "count", "find", "rfind", "index", "rindex", "isascii", "isalnum", "isspace", "__len__", "__contains__"}
_LOG_METHODS = {"debug", "info", "warning", "warn", "error", "exception", "critical", "log"}


def _is_logging(call: ast.Call) -> bool:
    f = call.func
    return isinstance(f, ast.Attribute) and f.attr in _LOG_METHODS and "log" in attr_chain(f.value).lower()


def value_uses(node, fn, seen=None):
    """What happens to the value of expression ``node`` inside ``fn``:
    ('arg', call, idx|None, kw|None) | ('return', stmt) | ('discard', node) | ('other', node)."""
    seen = set() if seen is None else seen
    out = []
    cur = node
    while True:
        p = getattr(cur, "_parent", None)
        if isinstance(p, ast.keyword):
            call = p._parent
            if isinstance(call, ast.Call) and p.arg is not None:
                out.append(("arg", call, None, p.arg))
            else:
                out.append(("other", p))
            return out
        if isinstance(p, ast.Call):
            if cur is p.func:
                out.append(("other", p))
                return out
            idx = next(i for i, a in enumerate(p.args) if a is cur)
            if (isinstance(p.func, ast.Name) and p.func.id in _NOFLOW_BUILTINS) or _is_logging(p):
                out.append(("discard", p))
            else:
                out.append(("arg", p, idx, None))
            return out
        if isinstance(p, (ast.Assign, ast.AnnAssign)) and cur is p.value:
            for t in p.targets if isinstance(p, ast.Assign) else [p.target]:
                if isinstance(t, ast.Name):
                    out += _name_uses(t.id, fn, seen)
                else:
                    out.append(("other", p))
            return out
        if isinstance(p, ast.NamedExpr) and cur is p.value:
            out += _name_uses(p.target.id, fn, seen)
            cur = p
            continue
        if isinstance(p, ast.IfExp):
            if cur is p.test:
                out.append(("discard", p))
                return out
            cur = p
            continue
        if isinstance(p, ast.BoolOp):
            cur = p
            continue
        if isinstance(p, ast.Return):
            out.append(("return", p))
            return out
        if isinstance(p, (ast.Expr, ast.Compare, ast.Assert, ast.If, ast.While)) or (isinstance(p, ast.UnaryOp) and isinstance(p.op, ast.Not)):
            out.append(("discard", p))
            return out
        if isinstance(p, ast.Attribute) and p.attr in _QUERY_METHODS and isinstance(getattr(p, "_parent", None), ast.Call) and p._parent.func is p:
            out.append(("discard", p._parent))  # page.startswith(..): a bool / int about the value, not the value
            return out
        out.append(("other", p if p is not None else cur))
        return out


def _name_uses(name, fn, seen):
    if name in seen:
        return []
    seen.add(name)
    out = []
    for n in walk_in_order(fn):
        if isinstance(n, ast.Name) and n.id == name and isinstance(n.ctx, ast.Load):
            out += value_uses(n, fn, seen)
    return out


class Flow:
    """Follow the value produced by every call of ``root`` (a function name) through the package: locals, helpers that return it
    (they become producers themselves) and helpers that receive it as an argument.  ``classify(call, idx, kw)`` names the places
    where the value may end up (sinks); everything else is reported as a problem."""

    def __init__(self, model, mods, res: Resolver, root: str, classify):
        self.model, self.mods, self.res, self.classify = model, mods, res, classify
        self.sinks = []  # (Module, fn, call, kind, producer call, RC of the sink)
        self.bare_refs = []  # (Module, node): the producer is referenced without being called
        self.problems = []  # (Module, node, text)
        self.producers = [root]
        self.calls = []  # (Module, fn, call, producer name)
        self._params_done = set()
        i = 0
        while i < len(self.producers):
            self._producer(self.producers[i], i == 0)
            i += 1

    def _producer(self, name, is_root):
        for mod in self.mods:
            if name not in mod.source:
                continue
            for n in walk_in_order(mod.tree):
                ref = (isinstance(n, ast.Name) and n.id == name and isinstance(n.ctx, ast.Load)) or (isinstance(n, ast.Attribute) and n.attr == name)
                if not ref:
                    continue
                p = n._parent
                if not (isinstance(p, ast.Call) and p.func is n):
                    self.bare_refs.append((mod, n))
                    continue
                fn = enclosing_func(p)
                if fn is None:
                    self.problems.append((mod, p, f"{name}(...) is called at module level"))
                    continue
                self.calls.append((mod, fn, p, name))
                for u in value_uses(p, fn):
                    self._use(u, RC(mod, fn), p)

    def _use(self, u, rc, origin):
        mod, fn = rc.mod, rc.fn
        kind = u[0]
        if kind == "discard":
            return
        if kind == "return":
            if _is_generator(fn):
                self.problems.append((mod, u[1], "the value is returned from a generator"))
            elif fn.name not in self.producers:
                self.producers.append(fn.name)
            return
        if kind == "arg":
            _, call, idx, kw = u
            k = self.classify(call, idx, kw)
            if k:
                self.sinks.append((mod, fn, call, k, origin, rc))
                return
            t = self.res.callee(call, rc)
            pname = param_of_arg(t[1], call, idx, kw) if t is not None else None
            if pname is None:
                self.problems.append((mod, call, f"the value is handed to `{norm(call.func)}`, which the rule cannot follow"))
                return
            cm, cf = t
            if (id(cf), pname) in self._params_done:
                return
            self._params_done.add((id(cf), pname))
            vals, _ = _bindings(cf, pname)
            if vals:
                self.problems.append((cm, cf, f"parameter {pname} of {qual_of(cf)} is re-bound"))
                return
            rc2 = self.res.enter(call, rc, t)
            for n in walk_in_order(cf):
                if isinstance(n, ast.Name) and n.id == pname and isinstance(n.ctx, ast.Load):
                    for u2 in value_uses(n, cf):
                        self._use(u2, rc2, origin)
            return
        self.problems.append((mod, u[1], f"the value is used in `{norm(u[1])[:80]}`, which the rule does not model"))


def reach(res: Resolver, mod, fn) -> dict:
    """id(FunctionDef) -> (Module, FunctionDef) of ``fn`` and everything it may call (transitively) through the repository call graph."""
    out = {id(fn): (mod, fn)}
    todo = [(mod, fn)]
    while todo:
        m, f = todo.pop()
        for n in ast.walk(f):
            if isinstance(n, ast.Call):
                t = res.callee(n, RC(m, f))
                if t is not None and id(t[1]) not in out:
                    out[id(t[1])] = t
                    todo.append(t)
    return out


def callers_in_module(res: Resolver, mod, fn):
    """[(caller FunctionDef, call)] of the calls of ``fn`` inside its module."""
    out = []
    for n in walk_in_order(mod.tree):
        if isinstance(n, ast.Call) and last_attr(n.func) == fn.name:
            g = enclosing_func(n)
            if g is None or g is fn:
                continue
            t = res.callee(n, RC(mod, g))
            if t is not None and t[1] is fn:
                out.append((g, n))
    return out


def _stmt_of(node):
    n = node
    while n is not None and not isinstance(n, ast.stmt):
        n = getattr(n, "_parent", None)
    return n


def _dominating_statements(stmt, fn):
    """Statements executed before ``stmt`` on every path that reaches it: the earlier siblings of it and of each enclosing statement."""
    out = []
    cur = stmt
    while cur is not None and cur is not fn:
        p = getattr(cur, "_parent", None)
        for field in ("body", "orelse", "finalbody"):
            seq = getattr(p, field, None)
            if isinstance(seq, list) and any(x is cur for x in seq):
                out += seq[: next(i for i, x in enumerate(seq) if x is cur)]
        if isinstance(p, ast.match_case):
            p = getattr(p, "_parent", None)
        cur = p
    return out


# ---------------------------------------------------------------------------------------------------
# R12.3: page sent => connection closed, on every path


class PairSpec(GenericSpec):
    """Alphabet: ('page', conn, id) for a `yield SendData(conn, <error page>)`, ('close', conn) for `yield CloseConnection(conn)`."""

    def __init__(self, pages: dict, resolver=None):
        super().__init__(resolver=resolver)
        self.pages = pages

    def events(self, node, st):
        out = []
        for n in eval_order(node):
            if isinstance(n, ast.Yield) and isinstance(n.value, ast.Call):
                if id(n) in self.pages:
                    out.append(("page", self.pages[id(n)], id(n)))
                elif last_attr(n.value.func) == "CloseConnection":
                    out.append(("close", _conn_key(n.value)))
        return out

    def raises_into(self, stmt, handler_names, st):
        # every statement of a ``try`` body that contains a call may raise into each of the handlers
        if any(isinstance(n, ast.Call) for n in ast.walk(stmt)):
            return list(dict.fromkeys(handler_names))
        return []


def _conn_key(call: ast.Call):
    a = call.args[0] if call.args else next((k.value for k in call.keywords if k.arg in ("connection", "conn")), None)
    fn = enclosing_func(call)
    return (id(fn), vkey(a, fn) if a is not None else "")


def _closed_after(trace) -> int:
    """Number of 'page' events of the trace that are not followed by a 'close' of the same connection."""
    bad = 0
    for i, e in enumerate(trace):
        if e[0] != "page":
            continue
        ok = False
        for f in trace[i + 1:]:
            if f[0] == "close" and (f[1][0] != e[1][0] or f[1][1] == e[1][1]):
                ok = True
                break
        bad += 0 if ok else 1
    return bad


# ---------------------------------------------------------------------------------------------------
# R12.3: framing by interpretation


class _IdentityCodec:
    """Stand-in for mitmproxy.net.encoding: identity stores the body as it is, "gzip" changes its length, anything else is invalid."""

    @staticmethod
    def encode(value, ce, *a, **k):
        if ce in ("identity", None, ""):
            return value
        if ce == "gzip":
            return b"\x1f\x8b" + value
        raise ValueError("invalid content-encoding")

    @staticmethod
    def decode(value, ce, *a, **k):
        if ce in ("identity", None, ""):
            return value
        if ce == "gzip" and value is not None:
            return value[2:]
        raise ValueError("invalid content-encoding")


class _NullLogger:
    """Stand-in for a stdlib logger while http.py is interpreted: logging has no effect on the rule's alphabet."""

    def getLogger(self, *a, **k):
        return self

    getChild = getLogger
    DEBUG, INFO, WARNING, ERROR, CRITICAL = 10, 20, 30, 40, 50


_NULL_LOGGER = _NullLogger()


class _Interp(Interp):
    def ev_call(self, e, env, mod, depth):
        f = e.func
        if isinstance(f, ast.Attribute) and f.attr in _LOG_METHODS | {"isEnabledFor"}:
            try:
                recv = self.ev(f.value, env, mod, depth)
            except AnalysisError:
                recv = None
            if recv is _NULL_LOGGER:
                return False if f.attr == "isEnabledFor" else None  # the arguments of a log call are not evaluated
        return super().ev_call(e, env, mod, depth)


def _interp(model):
    it = _Interp(model, trusted_modules={"time": _time, "collections": collections, "collections.abc": collections.abc, "logging": _NULL_LOGGER})
    it.overrides[(HTTP, "encoding")] = _IdentityCodec
    return it


def _hdr(rec, name):
    for k, v in rec._items.items():
        kk = k.decode("latin-1") if isinstance(k, bytes) else k
        if isinstance(kk, str) and kk.lower() == name:
            return v.decode("latin-1") if isinstance(v, bytes) else v
    return None


def interpret_response_make(model, body: bytes, headers: dict):
    """Interpret http.Response.make(502, body, Headers(headers)) from its AST.  -> (stored raw body, headers record)."""
    it = _interp(model)
    h = DictRec("Headers", dict(headers), case_insensitive=True)
    try:
        r = it.call(HTTP, "Response.make", ClassRef(model.module(HTTP), model.cls(HTTP, "Response")), 502, body, h)
        if not isinstance(r, Rec):
            raise AnalysisError(f"Response.make returns {type(r).__name__} in the interpreted model")
        return it.getattr(r, "raw_content", None, 0), it.getattr(r, "headers", None, 0)
    except Raised as e:
        raise AnalysisError(f"Response.make(502, {body[:12]!r}.., Headers) raises {e} in the interpreted model")


def interpret_content_setter(model, body: bytes, headers: dict):
    """Interpret `msg.content = body` on a Response whose headers are ``headers``.  -> (stored raw body, headers record)."""
    it = _interp(model)
    h = DictRec("Headers", dict(headers), case_insensitive=True)
    data = Rec("ResponseData", headers=h, content=None)
    r = Rec("Response", _bases=("Message",), _impl=(HTTP, "Response"), data=data)
    s = it.find_property(r, "content", "setter")
    if s is None:
        raise AnalysisError("http.Message.content has no setter any more")
    try:
        it.apply(Func(s[0], s[1], bound=r), [body], {}, 0)
        return it.getattr(r, "raw_content", None, 0), it.getattr(r, "headers", None, 0)
    except Raised as e:
        raise AnalysisError(f"Message.content = {body[:12]!r}.. raises {e} in the interpreted model (headers {headers})")


BODIES = [b"", b"<p>x</p>", "<html><body><p>é&lt;script&gt;</p></body></html>".encode() * 40]


def check(ctx):
    m = ctx.model
    ctx.rule("R12.1", "every interpolation into an HTML-bearing string template is a constant, an int, a markup-free table lookup or html.escape()d "
             "(else peer-controlled text is reflected as markup)")
    ctx.rule("R12.4", "no transformation that can re-create markup (Unicode normalisation, unescape, unquote, unicode_escape) is applied to an escaped value or the finished page")
    ctx.rule("R12.2", "wherever the page built by format_error ends up (followed through locals and helpers) content-type text/html is declared in the same "
             "construction; the three protocol-error sites reach such a construction")
    ctx.rule("R12.3", "the HTTP/1 error response is Response.make (Content-Length) + Connection: close, serialised by assemble_response and followed "
             "by CloseConnection on every path")
    ctx.assume("a callee outside the analysed module returns data derived from its operands only; html.escape is trusted")
    _BIND_CACHE.clear()
    mods = m.all_modules()
    stop = lambda c: last_attr(c.func) in ("make", "assemble_response", "format_error", "Headers")  # noqa: E731
    res = Resolver(m, stop)

    # ---- R12.1 ---------------------------------------------------------------------------------
    fe = ctx.func(BASE, "format_error")
    auth = ctx.func(AUTH, "make_auth_required_response")
    found, spec, prog, hits = run_html(m, mods, "repository")
    by_node = {}
    for h in hits:
        by_node.setdefault(id(h.node), []).append(h)
    tmpl_ids = {id(n) for _, n, _, _ in found}
    for mod, n, kind, interps in found:
        q = qual_of(n)
        ctx.functions.add(f"{mod.rel}::{q}")
        hs = by_node.get(id(n), [])
        if hs:
            for h in hs:
                ctx.fail("R12.1", (mod.rel, q, n), f"HTML {kind} interpolates {{{h.arg}}}",
                         f"unescaped text reaches the page: {describe(h.origins)}", origins=sorted(o.text for o in h.origins))
        else:
            via = spec.internal.get(id(enclosing_func(n)))
            ctx.ok("R12.1", f"{mod.rel}::{q} HTML {kind}, {len(interps)} interpolations clean: {', '.join(norm(e) for e in interps)}"
                   + (f" (private helper: parameters decided at its callers {via})" if via else ""))
        ctx.cells += len(interps)
    for h in hits:
        if id(h.node) not in tmpl_ids:  # derived sink: source data enters a private helper's parameter that reaches its template
            ctx.fail("R12.1", (h.rel, h.qual, h.node), f"{h.arg}(...) passes unescaped text into an HTML {h.desc or 'template'}",
                     f"unescaped text reaches the page through the helper: {describe(h.origins)}", origins=sorted(o.text for o in h.origins))
    tpl_fns = {id(enclosing_func(n)) for _, n, _, _ in found}
    ctx.require(tpl_fns & set(reach(res, m.module(BASE), fe)), "format_error no longer builds an HTML template, itself or through a helper (anchor changed shape)")
    ctx.require(tpl_fns & set(reach(res, m.module(AUTH), auth)), "make_auth_required_response no longer builds an HTML template")
    for d, why in prog.discharged():
        ctx.note(f"R12.1 discharged {d}: {why}")
    ctx.require(len(fe.args.posonlyargs + fe.args.args) >= 2, "format_error signature changed")
    # table of reason phrases: markup-free constants
    table = m.const(SC, "RESPONSES")
    ctx.require(isinstance(table, ast.Dict), "status_codes.RESPONSES is not a dict literal any more")
    bad = [norm(v) for v in table.values if not (isinstance(v, ast.Constant) and isinstance(v.value, str) and not re.search(r"[<>&]", v.value))]
    ctx.cells += len(table.values)
    ctx.check(not bad, "R12.1", (SC, "<module>", table), "status_codes.RESPONSES values", f"reason phrases with markup characters or non-constants: {bad[:3]}",
              desc=f"status_codes.RESPONSES: {len(table.values)} markup-free string constants")
    ctx.expect_instances("R12.1", 3)

    # positive examples: the rule must fire exactly on the marked lines
    pos = load_positive("R12_1.py")
    pfound, pspec, pprog, phits = run_html(SnippetModel(pos), [pos], "positive example")
    marks = expected_markers(pos)
    want = set(marks.get("EXPECT:R12.1", []))
    clean = set(marks.get("CLEAN:R12.1", []))
    got = {h.node.lineno for h in phits}
    checked = {n.lineno for _, n, _, _ in pfound}
    if got != want or not clean <= checked or len(want) < 6:
        raise AnalysisError(f"R12.1 positive examples: reported lines {sorted(got)}, expected {sorted(want)}; clean lines checked: {sorted(clean & checked)} of {sorted(clean)}")
    ctx.note(f"R12.1 positive examples: {len(want)} reflected templates reported, {len(clean)} escaped templates silent")

    # ---- R12.4  nothing re-creates markup after escaping ---------------------------------------------------------
    # html.escape is applied to the *parts*; a transformation of the finished page (or of an escaped part) that maps other code
    # points onto ASCII markup characters undoes it: Unicode normalisation (NFKC/NFKD fold fullwidth ＜ ＞ ＆ ＂, NFD splits U+226E into
    # '<' + U+0338), html.unescape, URL-unquoting, unicode_escape decoding.
    DESANITISERS = {"normalize": "unicodedata.normalize maps compatibility / composed code points onto ASCII < > & \"", "unescape": "html.unescape turns entities back into markup",
                    "unquote": "URL-unquoting turns %3C into <", "unquote_plus": "URL-unquoting turns %3C into <", "unquote_to_bytes": "URL-unquoting turns %3C into <"}

    def _wrappers(node, fn, seen):
        """calls applied (directly or through locals) to the value of `node` inside fn"""
        out = []
        cur = node
        while True:
            p = getattr(cur, "_parent", None)
            if p is None or p is fn:
                return out
            if isinstance(p, ast.Attribute) and p.value is cur:
                cur = p
                continue
            if isinstance(p, ast.Call):
                out.append(p)
                cur = p
                continue
            if isinstance(p, (ast.JoinedStr, ast.FormattedValue, ast.BinOp, ast.IfExp, ast.Tuple, ast.List, ast.Starred, ast.keyword, ast.Await, ast.NamedExpr)):
                cur = p
                continue
            if isinstance(p, (ast.Assign, ast.AnnAssign)) and cur is p.value:
                tgts = p.targets if isinstance(p, ast.Assign) else [p.target]
                for t in tgts:
                    if isinstance(t, ast.Name) and t.id not in seen:
                        seen.add(t.id)
                        for use in ast.walk(fn):
                            if isinstance(use, ast.Name) and use.id == t.id and isinstance(use.ctx, ast.Load) and use.lineno >= p.lineno:
                                out.extend(_wrappers(use, fn, seen))
                return out
            return out

    for mod, n, kind, interps in found:
        fn = enclosing_func(n)
        roots = [n] + [c for c in ast.walk(fn) if isinstance(c, ast.Call) and (prog.dotted(mod, c.func) in spec.sanitisers or id(c) in spec.sanitiser_calls)]
        bad = None
        for r in roots:
            for w in _wrappers(r, fn, set()):
                name = last_attr(w.func)
                if name in DESANITISERS:
                    bad = (w, DESANITISERS[name])
                if name == "decode" and any(isinstance(a, ast.Constant) and "unicode_escape" in str(a.value).replace("-", "_") for a in list(w.args) + [k.value for k in w.keywords]):
                    bad = (w, "unicode_escape decoding turns \\x3c into <")
        ctx.check(bad is None, "R12.4", (mod.rel, qual_of(n), bad[0] if bad else n), f"{qual_of(n)}: escaped HTML is not transformed afterwards",
                  f"`{norm(bad[0])[:80] if bad else ''}` is applied after escaping: {bad[1] if bad else ''} - escaped input becomes live markup again",
                  desc=f"{mod.rel}::{qual_of(n)}: no de-sanitising transformation after html.escape")
    ctx.expect_instances("R12.4", 2)

    ctx.guard(rule_2, ctx, m, mods, res)
    ctx.guard(rule_3_response, ctx, m, mods, res)
    ctx.guard(rule_3_framing, ctx, m)
    ctx.guard(rule_3_close, ctx, m, mods, res)
    ctx.expect_instances("R12.3", 7)


def _is_response_make(call: ast.Call) -> bool:
    return last_attr(call.func) == "make" and "Response" in norm(call.func)


def _html_headers_sent(res, mod, fn, at_stmt, recv_node, sid_node, depth) -> bool:
    """Is ``<recv>.send_headers(<sid>, <headers declaring text/html>)`` executed before ``at_stmt`` of ``fn`` on every path that reaches it?
    Receiver and stream id are compared by value (single-assignment locals substituted).  When ``fn`` sends no headers on that stream
    itself and the stream id is one of its parameters, the question is asked at each of its call sites instead (helper extraction).
    True / False (no text/html declared) / AnalysisError (a shape the rule does not model)."""
    where = f"{mod.rel}::{qual_of(fn)}"
    recv, sid = vkey(recv_node, fn), vkey(sid_node, fn)
    cands = []
    for c in walk_in_order(fn):
        if isinstance(c, ast.Call) and isinstance(c.func, ast.Attribute) and c.func.attr == "send_headers" and vkey(c.func.value, fn) == recv:
            c_sid = c.args[0] if c.args else next((k.value for k in c.keywords if k.arg == "stream_id"), None)
            c_hdr = c.args[1] if len(c.args) > 1 else next((k.value for k in c.keywords if k.arg == "headers"), None)
            if c_sid is not None and vkey(c_sid, fn) == sid and c_hdr is not None:
                cands.append((c, c_hdr))
    if not cands:
        callers = callers_in_module(res, mod, fn)
        if not callers or depth >= 2:
            return False  # the page is sent on a stream without any headers in sight
        if not (isinstance(sid_node, ast.Name) and sid_node.id in _params(fn) + [x.arg for x in fn.args.kwonlyargs] and not _bindings(fn, sid_node.id)[0]):
            raise AnalysisError(f"{where}: send_data(.., <error page>) without a send_headers on the same stream in the same function, and the stream id "
                                f"`{norm(sid_node)}` is not a parameter the rule could follow to the callers")
        if not recv.startswith("self."):
            raise AnalysisError(f"{where}: the receiver `{recv}` of send_data(.., <error page>) cannot be identified in the callers")
        for g, gcall in callers:
            arg = None
            for i, a in enumerate(gcall.args):
                if isinstance(a, ast.Starred):
                    break
                if param_of_arg(fn, gcall, i, None) == sid_node.id:
                    arg = a
            for k in gcall.keywords:
                if k.arg == sid_node.id:
                    arg = k.value
            if arg is None:
                raise AnalysisError(f"{mod.rel}::{qual_of(g)}: the stream id handed to {fn.name}(..) is not explicit")
            if not _html_headers_sent(res, mod, g, _stmt_of(gcall), recv_node, arg, depth + 1):
                return False
        return True
    rc = RC(mod, fn)
    html, unreadable = [], []
    for c, h in cands:
        try:
            if res.header_is(res.headers(h, rc, where), "content-type", _is_text_html):
                html.append(c)
        except AnalysisError:
            unreadable.append(c)  # e.g. the regular response headers of another branch, computed elsewhere
    dom = _dominating_statements(at_stmt, fn)
    ok = any(any(_stmt_of(c) is d for d in dom) for c in html)
    if html and not ok:
        raise AnalysisError(f"{where}: the send_headers call declaring text/html does not plainly precede send_data(.., <error page>) (control flow not modelled)")
    if not ok and any(any(_stmt_of(c) is d for d in dom) for c in unreadable):
        raise AnalysisError(f"{where}: the headers sent before send_data(.., <error page>) are not a header display the rule can read")
    return ok


def rule_2(ctx, m, mods, res):
    def classify(call, idx, kw):
        if _is_response_make(call) and (idx == 1 or kw == "content"):
            return "Response.make"
        if isinstance(call.func, ast.Attribute) and call.func.attr == "send_data" and (idx == 1 or kw == "data"):
            return "send_headers + send_data"
        return None

    flow = Flow(m, mods, res, "format_error", classify)
    for mod, n in flow.bare_refs:
        ctx.fail("R12.2", (mod.rel, qual_of(n), n), f"format_error referenced without a call: {norm(n._parent)}", "the HTML body may travel to a place that does not declare text/html")
    for mod, n, text in flow.problems:
        raise AnalysisError(f"{mod.rel}::{qual_of(n)}: R12.2 cannot follow the page built by format_error: {text}")
    anchors = [(H1, "make_error_response"), (H2, "Http2Connection._handle_event"), (H3, "Http3Connection._handle_event")]
    anchor_reach = {a: reach(res, m.module(a[0]), ctx.func(*a)) for a in anchors}
    sink_fns = set()
    for mod, fn, call, shape, origin, rc in flow.sinks:
        q = qual_of(fn)
        ctx.functions.add(f"{mod.rel}::{q}")
        where = f"{mod.rel}::{q}"
        if shape == "Response.make":
            hexpr = call.args[2] if len(call.args) > 2 and not any(isinstance(a, ast.Starred) for a in call.args[:3]) else next((k.value for k in call.keywords if k.arg == "headers"), None)
            ok = hexpr is not None and res.header_is(res.headers(hexpr, rc, where), "content-type", _is_text_html)
        else:
            sid_node = call.args[0] if call.args and not isinstance(call.args[0], ast.Starred) else next((k.value for k in call.keywords if k.arg == "stream_id"), None)
            ctx.require(sid_node is not None, f"{where}: send_data(.., <error page>) without a readable stream id")
            ok = _html_headers_sent(res, mod, fn, _stmt_of(call), call.func.value, sid_node, 0)
        ctx.check(ok, "R12.2", (mod.rel, q, origin), f"format_error via {shape}", "the HTML error body is sent without content-type: text/html in the same construction",
                  desc=f"{mod.rel}::{q} {shape} declares text/html")
        if ok:
            sink_fns.add(id(fn))
        if not any(id(fn) in r for r in anchor_reach.values()):
            ctx.note(f"R12.2: additional consumer of the format_error page {mod.rel}::{q} (checked like the others)")
    all_sink_fns = {id(fn) for _, fn, _, _, _, _ in flow.sinks}
    missing = [a for a in anchors if not (set(anchor_reach[a]) & all_sink_fns)]
    ctx.require(not missing, f"R12.2: protocol-error sites that no longer reach a format_error page: {missing}")
    if len(flow.producers) > 1:
        ctx.note(f"R12.2: the page is also produced by {flow.producers[1:]} (callers followed)")
    ctx.expect_instances("R12.2", 3)


def rule_3_response(ctx, m, mods, res):
    mk = ctx.func(H1, "make_error_response")
    h1 = m.module(H1)
    rets = _own_returns(mk)
    ctx.require(rets and not _is_generator(mk), "make_error_response no longer returns a value")
    rc0 = RC(h1, mk)
    makes = []  # (Response.make call, RC)
    resp_trail: list = []  # (RC, local) that hold the response object between Response.make and assemble_response
    ser_ok, why = True, ""
    for r in rets:
        for n, nrc in res.resolve(r.value, rc0):
            if not isinstance(n, ast.Call):
                raise AnalysisError(f"make_error_response: returned value `{norm(n)[:80]}` could not be resolved to a construction")
            if not (last_attr(n.func) == "assemble_response" and len(n.args) == 1 and not n.keywords):
                ser_ok, why = False, f"returns `{norm(n)[:80]}`"
                continue
            for a, arc in res.resolve(n.args[0], nrc, trail=resp_trail):
                if not isinstance(a, ast.Call):
                    raise AnalysisError(f"make_error_response: serialised value `{norm(a)[:80]}` could not be resolved to a construction")
                if _is_response_make(a):
                    makes.append((a, arc))
                else:
                    ser_ok, why = False, f"serialises `{norm(a)[:80]}`"
    ctx.check(ser_ok and bool(makes), "R12.3", (H1, "make_error_response", rets[0]), "assemble_response(Response.make(...))",
              f"the error response is not built by Response.make and serialised by assemble_response (framing not guaranteed): {why}",
              desc="make_error_response = assemble_response(Response.make(...))")
    for mkcall, rc in makes:
        where = f"{rc.mod.rel}::{qual_of(mkcall)}"
        hexpr = mkcall.args[2] if len(mkcall.args) > 2 and not any(isinstance(a, ast.Starred) for a in mkcall.args[:3]) else next((k.value for k in mkcall.keywords if k.arg == "headers"), None)
        close = te = False
        if hexpr is not None:
            disp = res.headers(hexpr, rc, where)
            close = res.header_is(disp, "connection", lambda t: t.strip().lower() == "close")
            te = not res.header_absent(disp, "transfer-encoding", where)
        # header writes on the response object between Response.make and serialisation
        for trc, local in resp_trail:
            for k, v in header_writes(trc.fn, f"{local}.headers", where):
                t = res.text(k, trc)
                if t is None:
                    raise AnalysisError(f"{where}: header write `{local}.headers[{norm(k)[:40]}] = ..` on the error response is not modelled")
                if t.lower() == "transfer-encoding":
                    te = True
                elif t.lower() == "connection":
                    close = all(x.strip().lower() == "close" for x in (res.texts(v, trc) or [""]))
                elif t.lower() == "content-length":
                    raise AnalysisError(f"{where}: Content-Length of the error response is written by hand: not modelled")
            for n in walk_in_order(trc.fn):
                if isinstance(n, ast.Attribute) and isinstance(n.value, ast.Name) and n.value.id == local:
                    par = getattr(n, "_parent", None)
                    if isinstance(n.ctx, (ast.Store, ast.Del)) or (isinstance(par, ast.Call) and par.func is n and n.attr.startswith(("set_", "decode", "encode", "replace", "strip_"))):
                        raise AnalysisError(f"{where}: `{norm(_stmt_of(n))[:80]}` modifies the error response after Response.make: not modelled")
        ctx.check(close and not te, "R12.3", (H1, "make_error_response", mkcall), "Headers(Connection=close, no Transfer-Encoding)",
                  "the error response does not announce Connection: close (or passes a Transfer-Encoding, which suppresses Content-Length)",
                  desc="error response headers: Connection: close, no Transfer-Encoding")


def rule_3_framing(ctx, m):
    ctx.func(HTTP, "Response.make")
    ctx.func(HTTP, "Message.set_content")
    ctx.trust("mitmlint.pyint interprets http.Response.make / the Message.content setter from their AST; mitmproxy.net.encoding is replaced by an identity/gzip/invalid stand-in")
    base = {"Server": "mitmproxy", "Connection": "close", "Content-Type": "text/html"}
    # 1. Response.make stores the body and writes its length
    bad = None
    for body in BODIES:
        raw, hdr = interpret_response_make(m, body, base)
        ctx.cells += 1
        if not isinstance(hdr, DictRec):
            raise AnalysisError("Response.make: the headers of the result are not the header object handed in (interpreted model)")
        if raw != body or _hdr(hdr, "content-length") != str(len(body)) or _hdr(hdr, "transfer-encoding") is not None or (_hdr(hdr, "connection") or "").lower() != "close":
            bad = bad or (body, raw, dict(hdr._items))
    ctx.check(bad is None, "R12.3", (HTTP, "Response.make", ctx.model.func(HTTP, "Response.make")), "Response.make(status, body, headers) stores body, Content-Length = len(body)",
              f"Response.make does not deliver the body with a matching Content-Length: body {bad[0][:20]!r}.. -> stored {str(bad[1])[:20]!r}, headers {bad[2]}" if bad else "",
              desc=f"Response.make interpreted on {len(BODIES)} bodies: body stored through the content setter, Content-Length = len(body), headers kept")
    # 2. the content setter always writes the length of what it stored, unless a Transfer-Encoding is present
    scen = [("no length yet", {}), ("stale Content-Length", {"Content-Length": "999"}), ("invalid Content-Encoding", {"content-encoding": "bogus"}),
            ("gzip Content-Encoding", {"content-encoding": "gzip"}), ("stale Content-Length, other case", {"CONTENT-LENGTH": "1"})]
    bad = None
    for label, hs in scen:
        for body in BODIES[:2]:
            raw, hdr = interpret_content_setter(m, body, dict(base, **hs))
            ctx.cells += 1
            if not isinstance(raw, bytes) or _hdr(hdr, "content-length") != str(len(raw)) or (label != "gzip Content-Encoding" and raw != body):
                bad = bad or (label, body, raw, dict(hdr._items))
    sc = ctx.model.func(HTTP, "Message.set_content")
    ctx.check(bad is None, "R12.3", (HTTP, "Message.set_content", sc), "content-length = str(len(self.raw_content)) unless transfer-encoding",
              f"the content setter does not always write the Content-Length of the stored body: scenario '{bad[0]}', body {bad[1][:20]!r} -> stored {str(bad[2])[:20]!r}, headers {bad[3]}" if bad else "",
              desc=f"Message.content setter interpreted on {len(scen)} header scenarios: Content-Length = len(raw_content) whenever no Transfer-Encoding is present")
    # 3. ... and it leaves a Transfer-Encoding framing alone (documented behaviour the headers rule relies on)
    raw, hdr = interpret_content_setter(m, b"<p>x</p>", dict(base, **{"Transfer-Encoding": "chunked"}))
    ctx.check(raw == b"<p>x</p>", "R12.3", (HTTP, "Message.content", sc), "content.setter stores the body", "the content setter does not store the body it is given",
              desc="Message.content setter stores the body (Transfer-Encoding case: " + ("no Content-Length written)" if _hdr(hdr, "content-length") is None else "Content-Length written too)"))


def rule_3_close(ctx, m, mods, res):
    def classify(call, idx, kw):
        if last_attr(call.func) == "SendData" and (idx == 1 or kw == "data"):
            return "SendData"
        return None

    flow = Flow(m, mods, res, "make_error_response", classify)
    for mod, n in flow.bare_refs:
        raise AnalysisError(f"{mod.rel}::{qual_of(n)}: make_error_response is referenced without being called (`{norm(n._parent)[:80]}`): not modelled by R12.3")
    for mod, n, text in flow.problems:
        raise AnalysisError(f"{mod.rel}::{qual_of(n)}: make_error_response(...) is not sent by `yield SendData(...)`: {text}")
    by_fn: dict = {}
    for mod, fn, call, kind, origin, _rc in flow.sinks:
        y = call._parent
        ctx.require(isinstance(y, ast.Yield), f"{mod.rel}::{qual_of(fn)}: SendData(.., <error page>) is not yielded: {norm(y)[:80]}")
        by_fn.setdefault(id(fn), (mod, fn, {}))[2][id(y)] = (_conn_key(call), y)

    def run(mod, d, pages, inline):
        def resolver(call):
            t = res.callee(call, RC(mod, enclosing_func(call)))
            return t[1] if t is not None and any(t[1] is f for f in inline) else None

        traces, eng = traces_of(d, PairSpec(pages, resolver if inline else None))
        bad, seen = 0, set()
        for trace, how, st in traces:
            ctx.paths += 1
            seen |= {e[2] for e in trace if e[0] == "page"}
            if how == "return":
                bad += 1 if _closed_after(trace) else 0
        return bad, seen, len(traces)

    def sites(mod, d, depth=0):
        cs = callers_in_module(res, mod, d) if depth < 3 else []
        return sum(sites(mod, g, depth + 1) for g, _ in cs) if cs else 1

    n_sites = 0
    for mod, d, pg in by_fn.values():
        q = qual_of(d)
        ctx.functions.add(f"{mod.rel}::{q}")
        pages = {k: v[0] for k, v in pg.items()}
        first = next(iter(pg.values()))[1]
        n_sites += sites(mod, d)
        bad, seen, n_tr = run(mod, d, pages, [])
        ctx.require(seen == set(pages), f"{mod.rel}::{q}: the path engine reached only {len(seen)} of {len(pages)} error page sends (unmodelled control flow)")
        if bad == 0:
            ctx.ok("R12.3", f"{mod.rel}::{q}: {len(pages)} error page send(s) followed by CloseConnection on all {n_tr} projected paths")
            continue
        # the helper does not close the connection itself: the obligation moves to its callers, with the helper inlined
        level, chain, failed = [(d, [d])], 0, None
        while level and failed is None:
            nxt = []
            for f, inl in level:
                cs = callers_in_module(res, mod, f)
                if not cs or chain >= 2:
                    failed = (f, bad)
                    break
                for g in {id(g): g for g, _ in cs}.values():
                    b2, seen2, n2 = run(mod, g, pages, inl)
                    ctx.require(seen2 == set(pages), f"{mod.rel}::{qual_of(g)}: the path engine did not reach the error page send inlined from {q}")
                    ctx.functions.add(f"{mod.rel}::{qual_of(g)}")
                    if b2:
                        nxt.append((g, inl + [g]))
                        bad = b2
                    else:
                        ctx.ok("R12.3", f"{mod.rel}::{qual_of(g)}: error page sent through {q} is followed by CloseConnection on all {n2} projected paths")
            level, chain = nxt, chain + 1
        if failed is not None:
            ctx.fail("R12.3", (mod.rel, qual_of(failed[0]), first), "SendData(make_error_response(..)) then CloseConnection",
                     f"{failed[1]} path(s) send the error page (Connection: close) and return without closing the connection")
    ctx.require(n_sites >= 2, f"R12.3: only {n_sites} places send the HTTP/1 error page (2 confirmed by hand)")


_FE_OLD = "<p>{html.escape(message)}</p>"
MUTANTS = [
    Mutant("page-normalised-after-escape", BASE, '        .encode("utf8", "replace")\n', '        .encode("utf8", "replace")\n        .decode("utf8")\n        .translate({})\n        .encode("utf8")\n    ) and (\n        __import__("unicodedata").normalize("NFKC", html.escape(message)).encode()\n', "R12.4"),
    Mutant("connect-error-page-html-unescaped", "mitmproxy/proxy/layers/http/__init__.py", "consider setting `connection_strategy` to `lazy` to suppress early connections.\",\n",
           "consider setting <code>connection_strategy</code> to <code>lazy</code> to suppress early connections.\",\n                    {\"Content-Type\": \"text/html\"},\n", "R12.1"),
    Mutant("format-error-no-escape", BASE, _FE_OLD, "<p>{message}</p>", "R12.1"),
    Mutant("format-error-escapes-only-a-prefix", BASE, _FE_OLD, "<p>{html.escape(message[:200]) + message[200:]}</p>", "R12.1"),
    Mutant("format-error-reason-from-message", BASE, "    reason = http.status_codes.RESPONSES.get(status_code, \"Unknown\")\n",
           "    reason = http.status_codes.RESPONSES.get(status_code, message)\n", "R12.1"),
    Mutant("proxyauth-page-names-the-user", AUTH, "def make_auth_required_response(is_proxy: bool) -> http.Response:\n    if is_proxy:\n        status_code = status_codes.PROXY_AUTH_REQUIRED\n",
           "def make_auth_required_response(is_proxy: bool, user: str = \"\") -> http.Response:\n    if is_proxy:\n        status_code = f\"{status_codes.PROXY_AUTH_REQUIRED} (bad credentials for {user})\"\n", "R12.1"),
    Mutant("new-unescaped-page-elsewhere", BASE, "def format_error(status_code: int, message: str) -> bytes:\n",
           "def format_redirect(location: str) -> bytes:\n    return (\"<html><body><a href='%s'>moved</a></body></html>\" % location).encode()\n\n\ndef format_error(status_code: int, message: str) -> bytes:\n", "R12.1"),
    Mutant("h1-error-no-content-type", H1, "            Content_Type=\"text/html\",\n", "", "R12.2"),
    Mutant("h2-error-text-plain", H2, "                                (b\"content-type\", b\"text/html\"),\n                            ],\n                        )\n                        self.h2_conn.send_data(",
           "                                (b\"content-type\", b\"text/plain\"),\n                            ],\n                        )\n                        self.h2_conn.send_data(", "R12.2"),
    Mutant("h3-error-no-content-type", H3, "                                (b\"content-type\", b\"text/html\"),\n                            ],\n                        )\n                        self.h3_conn.send_data(",
           "                            ],\n                        )\n                        self.h3_conn.send_data(", "R12.2"),
    Mutant("format-error-logged", H1, "    resp = http.Response.make(\n", "    logger.debug(format_error)\n    resp = http.Response.make(\n", "R12.2"),
    Mutant("h1-error-keepalive", H1, "            Connection=\"close\",\n", "", "R12.3"),
    Mutant("h1-error-no-close-after-400", H1, "                    yield commands.SendData(self.conn, make_error_response(400, str(e)))\n                    yield commands.CloseConnection(self.conn)\n",
           "                    yield commands.SendData(self.conn, make_error_response(400, str(e)))\n", "R12.3"),
    Mutant("h1-error-close-only-without-page", H1, "                    self.conn, make_error_response(status, event.message)\n                )\n            yield commands.CloseConnection(self.conn)\n",
           "                    self.conn, make_error_response(status, event.message)\n                )\n            else:\n                yield commands.CloseConnection(self.conn)\n", "R12.3"),
    Mutant("set-content-length-only-when-missing", HTTP, "            self.headers[\"content-length\"] = str(len(self.raw_content))\n",
           "            if \"content-length\" not in self.headers:\n                self.headers[\"content-length\"] = str(len(self.raw_content))\n", "R12.3"),
    Mutant("response-make-raw-content", HTTP, "        if isinstance(content, bytes):\n            resp.content = content\n",
           "        if isinstance(content, bytes):\n            resp.raw_content = content\n", "R12.3"),
    Mutant("h1-error-chunked-after-make", H1, "    return http1.assemble_response(resp)\n", "    resp.headers[\"transfer-encoding\"] = \"chunked\"\n    return http1.assemble_response(resp)\n", "R12.3"),
    Mutant("h1-error-page-via-local-no-close", H1, "                    yield commands.SendData(self.conn, make_error_response(400, str(e)))\n                    yield commands.CloseConnection(self.conn)\n",
           "                    bad_request = make_error_response(400, str(e))\n                    yield commands.SendData(self.conn, bad_request)\n", "R12.3"),
    Mutant("h1-error-headers-helper-keepalive", H1, "def make_error_response(\n    status_code: int,\n    message: str = \"\",\n) -> bytes:\n    resp = http.Response.make(\n        status_code,\n        format_error(status_code, message),\n"
           "        http.Headers(\n            Server=version.MITMPROXY,\n            Connection=\"close\",\n            Content_Type=\"text/html\",\n        ),\n",
           "def _error_headers() -> http.Headers:\n    return http.Headers(Server=version.MITMPROXY, Content_Type=\"text/html\")\n\n\ndef make_error_response(\n    status_code: int,\n    message: str = \"\",\n) -> bytes:\n"
           "    resp = http.Response.make(\n        status_code,\n        format_error(status_code, message),\n        _error_headers(),\n", "R12.3"),
    Mutant("h1-error-body-via-local-text-plain", H1, "        format_error(status_code, message),\n        http.Headers(\n            Server=version.MITMPROXY,\n            Connection=\"close\",\n            Content_Type=\"text/html\",\n",
           "        (page := format_error(status_code, message)),\n        http.Headers(\n            Server=version.MITMPROXY,\n            Connection=\"close\",\n            Content_Type=\"text/plain\",\n", "R12.2"),
    Mutant("format-error-private-helper-unescaped", BASE, "def format_error(status_code: int, message: str) -> bytes:\n",
           "def _wrap(body: str) -> str:\n    return f\"<html><body><p>{body}</p></body></html>\"\n\n\ndef format_note(note: str) -> bytes:\n    return _wrap(note).encode()\n\n\ndef format_error(status_code: int, message: str) -> bytes:\n", "R12.1"),
    Mutant("format-error-template-constant-unescaped", BASE, "def format_error(status_code: int, message: str) -> bytes:\n",
           "_NOTE = \"<p>{note}</p>\"\n\n\ndef format_note(note: str) -> bytes:\n    return textwrap.dedent(_NOTE).format(note=note).encode()\n\n\ndef format_error(status_code: int, message: str) -> bytes:\n", "R12.1"),
]
