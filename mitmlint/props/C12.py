"""C12 - error pages never reflect unescaped client input.

Decided:
  R12.1 (taint, whole package)  every string template in mitmproxy/** (contrib excluded) that contains an HTML tag and has
        interpolations (f-string, ``%``, ``.format``, ``+`` chain, ``join`` of a display): each interpolated expression is
        clean = constant / int-typed / lookup in a table of markup-free constants (status_codes.RESPONSES, checked) /
        wrapped in ``html.escape``.  Every parameter of the enclosing function (and what it derives, through locals and
        same-module helpers) is a source.  Today 2 templates: ``format_error`` and ``proxyauth.make_auth_required_response``.
  R12.2 ``format_error`` is only ever *called*, by exactly the three protocol-error sites, and each attaches
        ``content-type: text/html`` in the same construction (Response.make headers / send_headers just before send_data).
  R12.3 ``make_error_response`` = ``assemble_response(Response.make(status, format_error(..), Headers(.. Connection=close ..)))``,
        Response.make assigns the body through the ``content``/``text`` setters, ``set_content`` writes Content-Length
        (no Transfer-Encoding is passed), and every ``SendData(.., make_error_response(..))`` is followed by
        ``CloseConnection`` on all paths.
NOT decided: the 407 page of proxyauth carries no Content-Type (it reflects nothing: only status/reason, R12.1); the
HTML of mitmweb / onboarding templates (not error pages, not Python string templates); escaping *quality* of html.escape.
"""

from __future__ import annotations

import ast
import re

from ..core import AnalysisError
from ..core import norm
from ..model import attr_chain
from ..model import enclosing_func
from ..model import last_attr
from ..model import qual_of
from ..model import walk_in_order
from ..paths import followed_by
from ..paths import GenericSpec
from ..paths import traces_of
from ..selftest import Mutant
from ._helpers_G import describe
from ._helpers_G import expected_markers
from ._helpers_G import load_positive
from ._helpers_G import Origin
from ._helpers_G import Program
from ._helpers_G import SnippetModel
from ._helpers_G import TaintSpec

PROP = "C12"
REG = {
    "strength": "strong",
    "technique": "taint (source/sanitiser/sink dataflow with same-module summaries) over every HTML-bearing string template of the "
    "package + who-may-call + path pairing",
    "claim": "every Python string template in mitmproxy/** that contains an HTML tag interpolates only constants, ints, markup-free "
    "table lookups or html.escape()d values; format_error is used only by the three protocol-error sites, each declaring text/html; "
    "the HTTP/1 error response is built by Response.make (Content-Length), carries Connection: close and is followed by CloseConnection "
    "on every path.",
    "note": "A callee outside the analysed module is assumed to return data derived from its operands. html.escape is trusted. "
    "Positive example file mitmlint/positive/R12_1.py keeps R12.1 non-vacuous.",
}

BASE = "mitmproxy/proxy/layers/http/_base.py"
H1 = "mitmproxy/proxy/layers/http/_http1.py"
H2 = "mitmproxy/proxy/layers/http/_http2.py"
H3 = "mitmproxy/proxy/layers/http/_http3.py"
AUTH = "mitmproxy/addons/proxyauth.py"
HTTP = "mitmproxy/http.py"
SC = "mitmproxy/net/http/status_codes.py"

HTML_RE = re.compile(
    r"<\s*/?\s*(html|head|body|title|h[1-6]|p|div|span|a|pre|script|style|table|tr|td|th|ul|ol|li|b|i|em|strong|br|hr|img|form|"
    r"input|meta|link|code|center|font|iframe|svg|button|label|textarea|select|option)\b[^<>]*>|<!doctype",
    re.I,
)


def _text(v) -> str | None:
    if isinstance(v, ast.Constant) and isinstance(v.value, (str, bytes)):
        return v.value if isinstance(v.value, str) else v.value.decode("latin-1")
    return None


def _const_text(node, mod) -> str | None:
    """Text of a str/bytes constant, or of a module-level name bound to one."""
    t = _text(node)
    if t is not None:
        return t
    if isinstance(node, ast.Name):
        vals = mod.assigns(node.id)
        if len(vals) == 1:
            return _text(vals[0])
    return None


def _flatten_add(node):
    if isinstance(node, ast.BinOp) and isinstance(node.op, ast.Add):
        return _flatten_add(node.left) + _flatten_add(node.right)
    return [node]


def _joined_text(js: ast.JoinedStr) -> str:
    return "".join(_text(v) or "" for v in js.values)


def _joined_interps(js: ast.JoinedStr):
    out = []
    for v in js.values:
        if isinstance(v, ast.FormattedValue):
            out.append(v.value)
            if isinstance(v.format_spec, ast.JoinedStr):
                out += _joined_interps(v.format_spec)
    return out


def html_template(node, mod):
    """(kind, [interpolated expression]) if ``node`` is a string template containing an HTML tag, else None."""
    if isinstance(node, ast.JoinedStr):
        p = getattr(node, "_parent", None)
        if isinstance(p, ast.FormattedValue):  # a format spec
            return None
        if HTML_RE.search(_joined_text(node)):
            return "f-string", _joined_interps(node)
        return None
    if isinstance(node, ast.BinOp) and isinstance(node.op, ast.Mod):
        t = _const_text(node.left, mod)
        if t is not None and HTML_RE.search(t):
            r = node.right
            if isinstance(r, ast.Tuple):
                return "%-format", list(r.elts)
            if isinstance(r, ast.Dict):
                return "%-format", [v for v in r.values]
            return "%-format", [r]
        return None
    if isinstance(node, ast.BinOp) and isinstance(node.op, ast.Add):
        p = getattr(node, "_parent", None)
        if isinstance(p, ast.BinOp) and isinstance(p.op, ast.Add):
            return None  # handled at the top of the chain
        parts = _flatten_add(node)
        texts = [_const_text(x, mod) if not isinstance(x, ast.JoinedStr) else _joined_text(x) for x in parts]
        if any(t is not None and HTML_RE.search(t) for t in texts):
            interps = [x for x, t in zip(parts, texts) if t is None]
            for x in parts:
                if isinstance(x, ast.JoinedStr):
                    interps += _joined_interps(x)
            return "+ chain", interps
        return None
    if isinstance(node, ast.Call) and isinstance(node.func, ast.Attribute):
        if node.func.attr == "format":
            t = _const_text(node.func.value, mod)
            if t is not None and HTML_RE.search(t):
                return ".format", list(node.args) + [k.value for k in node.keywords]
        if node.func.attr == "join" and len(node.args) == 1 and isinstance(node.args[0], (ast.List, ast.Tuple)):
            elts = node.args[0].elts
            texts = [_const_text(x, mod) for x in elts]
            if any(t is not None and HTML_RE.search(t) for t in texts):
                return "join", [x for x, t in zip(elts, texts) if t is None]
    return None


class AnyCallMayRaise(GenericSpec):
    """Every statement of a ``try`` body that contains a call may raise into each of the handlers."""

    def raises_into(self, stmt, handler_names, st):
        if any(isinstance(n, ast.Call) for n in ast.walk(stmt)):
            return list(dict.fromkeys(handler_names))
        return []


class HtmlSpec(TaintSpec):
    name = "R12.1"
    sanitisers = {
        "html.escape": "html.escape replaces & < > (and quotes) by entities",
    }

    def __init__(self):
        self.visited: dict[int, tuple] = {}

    def is_entry(self, fn, an) -> bool:
        return True  # every parameter of a function that builds HTML may carry peer-controlled text

    def yield_taint(self, node, frame):
        # the reply to a command (`err = yield commands.OpenConnection(..)`, `conn, err = yield GetHttpConnection(..)`) carries
        # error text produced from what the peer sent / how it failed
        return frozenset([Origin("src", "<reply>", norm(node)[:60], frame.qual, ())])

    def self_chain_taint(self, node, chain, frame):
        # state reached through the layer object (self.flow.request..., self.context.server...) is peer-controlled
        return frozenset([Origin("src", chain.split(".")[1], chain, frame.qual, ())])

    def _check(self, node, frame):
        tpl = html_template(node, frame.mod)
        if tpl is None:
            return
        kind, interps = tpl
        bad = []
        for e in interps:
            t = frame.taint(e)
            if t:
                bad.append((e, t))
                frame.hit("html", node, norm(e), t, kind)
        self.visited[id(node)] = (frame.mod.rel, frame.qual, node, kind, interps, bad)

    def on_node(self, node, frame):
        self._check(node, frame)

    def on_call(self, call, dotted, frame):
        self._check(call, frame)


def scan_templates(mods):
    """Every HTML-bearing template with interpolations: [(mod, node, kind, interps)]."""
    out = []
    for m in mods:
        if "<" not in m.source:
            continue
        for n in walk_in_order(m.tree):
            if isinstance(n, (ast.JoinedStr, ast.BinOp, ast.Call)):
                t = html_template(n, m)
                if t is not None and t[1]:
                    out.append((m, n, t[0], t[1]))
    return out


def run_html(model, mods, what):
    """Taint-check every template of ``mods``.  Returns (visited dict values, hits)."""
    found = scan_templates(mods)
    spec = HtmlSpec()
    prog = Program(model, spec)
    pairs = []
    for m, n, kind, interps in found:
        fn = enclosing_func(n)
        if fn is None:
            raise AnalysisError(f"{m.rel}:{n.lineno}: HTML template with interpolations outside a function is not modelled ({what})")
        if all(fn is not f for _, f in pairs):
            pairs.append((m, fn))
    hits = prog.run(pairs)
    for m, n, kind, interps in found:
        if id(n) not in spec.visited:
            raise AnalysisError(f"{m.rel}:{n.lineno}: HTML template in {qual_of(n)} was not reached by the taint engine ({what})")
    return found, spec, prog, hits


def _kw(call: ast.Call, name: str):
    for k in call.keywords:
        if k.arg is not None and k.arg.lower().replace("_", "-") == name:
            return k.value
    return None


def _is_text_html(v) -> bool:
    t = _text(v)
    return t is not None and t.strip().lower().split(";")[0].strip() == "text/html"


def _headers_have(node, name: str, pred) -> bool:
    """``http.Headers(Name_X=..)`` / dict literal / list of (name, value) tuples contains header ``name`` satisfying pred."""
    if isinstance(node, ast.Call) and last_attr(node.func) in ("Headers", "dict"):
        v = _kw(node, name)
        if v is not None and pred(v):
            return True
        return any(_headers_have(a, name, pred) for a in node.args)
    if isinstance(node, ast.Dict):
        return any(k is not None and (_text(k) or "").lower() == name and pred(v) for k, v in zip(node.keys, node.values))
    if isinstance(node, (ast.List, ast.Tuple)):
        for e in node.elts:
            if isinstance(e, ast.Tuple) and len(e.elts) == 2 and (_text(e.elts[0]) or "").lower() == name and pred(e.elts[1]):
                return True
    return False


def _stmt_of(node):
    n = node
    while n is not None and not isinstance(n, ast.stmt):
        n = getattr(n, "_parent", None)
    return n


def _siblings_before(stmt):
    p = getattr(stmt, "_parent", None)
    for field in ("body", "orelse", "finalbody"):
        seq = getattr(p, field, None)
        if isinstance(seq, list) and stmt in seq:
            return seq[: seq.index(stmt)]
    return []


def check(ctx):
    m = ctx.model
    ctx.rule("R12.1", "every interpolation into an HTML-bearing string template is a constant, an int, a markup-free table lookup or html.escape()d "
             "(else peer-controlled text is reflected as markup)")
    ctx.rule("R12.4", "no transformation that can re-create markup (Unicode normalisation, unescape, unquote, unicode_escape) is applied to an escaped value or the finished page")
    ctx.rule("R12.2", "format_error is only called, by the three protocol-error sites, each declaring content-type text/html in the same construction")
    ctx.rule("R12.3", "the HTTP/1 error response is Response.make (Content-Length) + Connection: close, serialised by assemble_response and followed "
             "by CloseConnection on every path")
    ctx.assume("a callee outside the analysed module returns data derived from its operands only; html.escape is trusted")

    # ---- R12.1 ---------------------------------------------------------------------------------
    fe = ctx.func(BASE, "format_error")
    ctx.func(AUTH, "make_auth_required_response")
    mods = m.all_modules()
    found, spec, prog, hits = run_html(m, mods, "repository")
    by_node = {}
    for h in hits:
        by_node.setdefault(id(h.node), []).append(h)
    for mod, n, kind, interps in found:
        q = qual_of(n)
        ctx.functions.add(f"{mod.rel}::{q}")
        hs = by_node.get(id(n), [])
        if hs:
            for h in hs:
                ctx.fail("R12.1", (mod.rel, q, n), f"HTML {kind} interpolates {{{h.arg}}}",
                         f"unescaped text reaches the page: {describe(h.origins)}", origins=sorted(o.text for o in h.origins))
        else:
            ctx.ok("R12.1", f"{mod.rel}::{q} HTML {kind}, {len(interps)} interpolations clean: {', '.join(norm(e) for e in interps)}")
        ctx.cells += len(interps)
    tpl_funcs = {(mod.rel, qual_of(n)) for mod, n, _, _ in found}
    ctx.require((BASE, "format_error") in tpl_funcs, "format_error no longer contains an HTML template (anchor changed shape)")
    ctx.require((AUTH, "make_auth_required_response") in tpl_funcs, "make_auth_required_response no longer contains an HTML template")
    for d, why in prog.discharged():
        ctx.note(f"R12.1 discharged {d}: {why}")
    # the escape must be applied to the message parameter of format_error itself
    esc = [c for c in walk_in_order(fe) if isinstance(c, ast.Call) and norm(c.func) == "html.escape"]
    ctx.require(fe.args.args and len(fe.args.args) >= 2, "format_error signature changed")
    # table of reason phrases: markup-free constants
    table = m.const(SC, "RESPONSES")
    ctx.require(isinstance(table, ast.Dict), "status_codes.RESPONSES is not a dict literal any more")
    bad = [norm(v) for v in table.values if not (isinstance(v, ast.Constant) and isinstance(v.value, str) and not re.search(r"[<>&]", v.value))]
    ctx.cells += len(table.values)
    ctx.check(not bad, "R12.1", (SC, "<module>", table), "status_codes.RESPONSES values", f"reason phrases with markup characters or non-constants: {bad[:3]}",
              desc=f"status_codes.RESPONSES: {len(table.values)} markup-free string constants")
    ctx.expect_instances("R12.1", 3)

    # positive examples: the rule must fire exactly on the marked lines
    pos = load_positive("R12_1.py")
    pfound, pspec, pprog, phits = run_html(SnippetModel(pos), [pos], "positive example")
    marks = expected_markers(pos)
    want = set(marks.get("EXPECT:R12.1", []))
    clean = set(marks.get("CLEAN:R12.1", []))
    got = {h.node.lineno for h in phits}
    checked = {n.lineno for _, n, _, _ in pfound}
    if got != want or not clean <= checked or len(want) < 6:
        raise AnalysisError(f"R12.1 positive examples: reported lines {sorted(got)}, expected {sorted(want)}; clean lines checked: {sorted(clean & checked)} of {sorted(clean)}")
    ctx.note(f"R12.1 positive examples: {len(want)} reflected templates reported, {len(clean)} escaped templates silent")

    # ---- R12.4  nothing re-creates markup after escaping ---------------------------------------------------------
    # html.escape is applied to the *parts*; a transformation of the finished page (or of an escaped part) that maps other code
    # points onto ASCII markup characters undoes it: Unicode normalisation (NFKC/NFKD fold fullwidth ＜ ＞ ＆ ＂, NFD splits U+226E into
    # '<' + U+0338), html.unescape, URL-unquoting, unicode_escape decoding.
    DESANITISERS = {"normalize": "unicodedata.normalize maps compatibility / composed code points onto ASCII < > & \"", "unescape": "html.unescape turns entities back into markup",
                    "unquote": "URL-unquoting turns %3C into <", "unquote_plus": "URL-unquoting turns %3C into <", "unquote_to_bytes": "URL-unquoting turns %3C into <"}

    def _wrappers(node, fn, seen):
        """calls applied (directly or through locals) to the value of `node` inside fn"""
        out = []
        cur = node
        while True:
            p = getattr(cur, "_parent", None)
            if p is None or p is fn:
                return out
            if isinstance(p, ast.Attribute) and p.value is cur:
                cur = p
                continue
            if isinstance(p, ast.Call):
                out.append(p)
                cur = p
                continue
            if isinstance(p, (ast.JoinedStr, ast.FormattedValue, ast.BinOp, ast.IfExp, ast.Tuple, ast.List, ast.Starred, ast.keyword, ast.Await, ast.NamedExpr)):
                cur = p
                continue
            if isinstance(p, (ast.Assign, ast.AnnAssign)) and cur is p.value:
                tgts = p.targets if isinstance(p, ast.Assign) else [p.target]
                for t in tgts:
                    if isinstance(t, ast.Name) and t.id not in seen:
                        seen.add(t.id)
                        for use in ast.walk(fn):
                            if isinstance(use, ast.Name) and use.id == t.id and isinstance(use.ctx, ast.Load) and use.lineno >= p.lineno:
                                out.extend(_wrappers(use, fn, seen))
                return out
            return out

    n_chk = 0
    for mod, n, kind, interps in found:
        fn = enclosing_func(n)
        roots = [n] + [c for c in ast.walk(fn) if isinstance(c, ast.Call) and norm(c.func) == "html.escape"]
        bad = None
        for r in roots:
            for w in _wrappers(r, fn, set()):
                name = last_attr(w.func)
                if name in DESANITISERS:
                    bad = (w, DESANITISERS[name])
                if name == "decode" and any(isinstance(a, ast.Constant) and "unicode_escape" in str(a.value).replace("-", "_") for a in list(w.args) + [k.value for k in w.keywords]):
                    bad = (w, "unicode_escape decoding turns \\x3c into <")
        n_chk += 1
        ctx.check(bad is None, "R12.4", (mod.rel, qual_of(n), bad[0] if bad else n), f"{qual_of(n)}: escaped HTML is not transformed afterwards",
                  f"`{norm(bad[0])[:80] if bad else ''}` is applied after escaping: {bad[1] if bad else ''} - escaped input becomes live markup again",
                  desc=f"{mod.rel}::{qual_of(n)}: no de-sanitising transformation after html.escape")
    ctx.expect_instances("R12.4", 2)

    # ---- R12.2 ---------------------------------------------------------------------------------
    callers = []
    for mod in mods:
        if "format_error" not in mod.source:
            continue
        for n in walk_in_order(mod.tree):
            ref = (isinstance(n, ast.Name) and n.id == "format_error") or (isinstance(n, ast.Attribute) and n.attr == "format_error")
            if not ref:
                continue
            p = n._parent
            q = qual_of(n)
            if not (isinstance(p, ast.Call) and p.func is n):
                ctx.fail("R12.2", (mod.rel, q, n), f"format_error referenced without a call: {norm(p)}", "the HTML body may travel to a place that does not declare text/html")
                continue
            callers.append((mod, q, p))
    expected = {(H1, "make_error_response"), (H2, "Http2Connection._handle_event"), (H3, "Http3Connection._handle_event")}
    for mod, q, call in callers:
        ctx.functions.add(f"{mod.rel}::{q}")
        par = call._parent
        ok, shape = False, None
        if isinstance(par, ast.Call) and last_attr(par.func) == "make" and "Response" in norm(par.func):
            shape = "Response.make"
            content = par.args[1] if len(par.args) > 1 else _kw(par, "content")
            headers = par.args[2] if len(par.args) > 2 else _kw(par, "headers")
            if content is not call:
                raise AnalysisError(f"{mod.rel}::{q}: format_error(...) is not the content argument of {norm(par.func)}")
            ok = headers is not None and _headers_have(headers, "content-type", _is_text_html)
        elif isinstance(par, ast.Call) and last_attr(par.func) == "send_data" and isinstance(par.func, ast.Attribute):
            shape = "send_headers + send_data"
            recv, sid = norm(par.func.value), norm(par.args[0]) if par.args else ""
            st = _stmt_of(par)
            for prev in _siblings_before(st):
                for c in walk_in_order(prev):
                    if (isinstance(c, ast.Call) and isinstance(c.func, ast.Attribute) and c.func.attr == "send_headers" and norm(c.func.value) == recv
                            and c.args and norm(c.args[0]) == sid and len(c.args) > 1 and _headers_have(c.args[1], "content-type", _is_text_html)):
                        ok = True
        else:
            raise AnalysisError(f"{mod.rel}::{q}: format_error(...) used in a construction R12.2 does not model: {norm(par)}")
        ctx.check(ok, "R12.2", (mod.rel, q, call), f"format_error via {shape}", "the HTML error body is sent without content-type: text/html in the same construction",
                  desc=f"{mod.rel}::{q} {shape} declares text/html")
        if (mod.rel, q) not in expected:
            ctx.note(f"R12.2: additional format_error caller {mod.rel}::{q} (checked like the others)")
    missing = expected - {(mod.rel, q) for mod, q, _ in callers}
    ctx.require(not missing, f"R12.2: expected format_error callers vanished: {sorted(missing)}")
    ctx.expect_instances("R12.2", 3)

    # ---- R12.3 ---------------------------------------------------------------------------------
    mk = ctx.func(H1, "make_error_response")
    rets = [n for n in walk_in_order(mk) if isinstance(n, ast.Return)]
    ctx.require(len(rets) == 1 and isinstance(rets[0].value, ast.Call), "make_error_response no longer has a single `return <call>`")
    ret = rets[0].value
    ser_ok = last_attr(ret.func) == "assemble_response" and len(ret.args) == 1
    resp_expr = ret.args[0] if ret.args else None
    if isinstance(resp_expr, ast.Name):
        defs = [s for s in walk_in_order(mk) if isinstance(s, ast.Assign) and any(isinstance(t, ast.Name) and t.id == resp_expr.id for t in s.targets)]
        ctx.require(len(defs) == 1, f"make_error_response: {resp_expr.id} is not assigned exactly once")
        resp_expr = defs[0].value
    make_ok = isinstance(resp_expr, ast.Call) and last_attr(resp_expr.func) == "make" and "Response" in norm(resp_expr.func)
    ctx.check(ser_ok and make_ok, "R12.3", (H1, "make_error_response", ret), "assemble_response(Response.make(...))",
              "the error response is not built by Response.make and serialised by assemble_response (framing not guaranteed)",
              desc="make_error_response = assemble_response(Response.make(...))")
    if make_ok:
        headers = resp_expr.args[2] if len(resp_expr.args) > 2 else _kw(resp_expr, "headers")
        close = headers is not None and _headers_have(headers, "connection", lambda v: (_text(v) or "").strip().lower() == "close")
        te = headers is not None and _headers_have(headers, "transfer-encoding", lambda v: True)
        ctx.check(close and not te, "R12.3", (H1, "make_error_response", resp_expr), "Headers(Connection=close, no Transfer-Encoding)",
                  "the error response does not announce Connection: close (or passes a Transfer-Encoding, which suppresses Content-Length)",
                  desc="error response headers: Connection: close, no Transfer-Encoding")
    # Response.make assigns through the content / text setters
    rmake = ctx.func(HTTP, "Response.make")
    targets = [attr_chain(t) for s in walk_in_order(rmake) if isinstance(s, ast.Assign) for t in s.targets]
    through = [t for t in targets if t in ("resp.content", "resp.text")]
    raw = [t for t in targets if t.endswith(".raw_content") or t.endswith(".data.content")]
    ctx.check(len(through) >= 2 and not raw, "R12.3", (HTTP, "Response.make", rmake), "resp.content / resp.text = content",
              "Response.make does not assign the body through the content/text setters (Content-Length would not be set)",
              desc="Response.make assigns the body through the content and text setters")
    setter = [d for q, d in m.module(HTTP).defs().items() if q == "Message.content"]
    sc = ctx.func(HTTP, "Message.set_content")
    cl = [s for s in walk_in_order(sc) if isinstance(s, ast.Assign) and len(s.targets) == 1 and isinstance(s.targets[0], ast.Subscript)
          and norm(s.targets[0].value) == "self.headers" and (_text(s.targets[0].slice) or "").lower() == "content-length"]
    ctx.require(len(cl) == 1, "Message.set_content no longer has exactly one Content-Length assignment")
    val_ok = norm(cl[0].value) == "str(len(self.raw_content))"
    guards = []
    n = cl[0]
    while n is not sc:
        p = n._parent
        if isinstance(p, ast.If):
            guards.append((norm(p.test), n in p.orelse))
        elif isinstance(p, (ast.For, ast.While, ast.Try, ast.With)):
            guards.append((type(p).__name__, None))
        n = p
    guard_ok = guards == [("'transfer-encoding' in self.headers", True)]
    ctx.check(val_ok and guard_ok, "R12.3", (HTTP, "Message.set_content", cl[0]), "content-length = str(len(self.raw_content)) unless transfer-encoding",
              f"set_content does not always write the Content-Length of the stored body (guards {guards}, value {norm(cl[0].value)})",
              desc="Message.set_content writes Content-Length = len(raw_content) whenever no Transfer-Encoding is present")
    setter_calls = [c for q, d in m.module(HTTP).defs().items() if q == "Message.content" for c in walk_in_order(d)
                    if isinstance(c, ast.Call) and norm(c.func) == "self.set_content"]
    ctx.check(bool(setter_calls), "R12.3", (HTTP, "Message.content", sc), "content.setter -> set_content", "the content setter does not go through set_content",
              desc="Message.content setter calls set_content")
    # callers of make_error_response close the connection afterwards, on every path
    n_callers = 0
    h1 = m.module(H1)
    for q, d in h1.defs().items():
        if not isinstance(d, (ast.FunctionDef, ast.AsyncFunctionDef)) or q == "make_error_response":
            continue
        calls = [c for c in walk_in_order(d) if isinstance(c, ast.Call) and last_attr(c.func) == "make_error_response" and enclosing_func(c) is d]
        if not calls:
            continue
        ctx.functions.add(f"{H1}::{q}")
        for c in calls:
            par = c._parent
            ctx.require(isinstance(par, ast.Call) and last_attr(par.func) == "SendData" and isinstance(par._parent, ast.Yield),
                        f"{H1}::{q}: make_error_response(...) is not sent by `yield SendData(...)`: {norm(par)}")
        keep = {("call", norm(c.func)) for c in calls} | {("yield", "CloseConnection")}
        traces, eng = traces_of(d, AnyCallMayRaise(keep=lambda ev: ev in keep))
        bad = seen = 0
        for trace, how, st in traces:
            ctx.paths += 1
            if how != "return":
                continue
            seen += sum(1 for e in trace if e[0] == "call")
            if not followed_by(trace, lambda e: e[0] == "call", lambda e: e == ("yield", "CloseConnection")):
                bad += 1
        ctx.require(seen >= len(calls), f"{H1}::{q}: the path engine reached only {seen} of {len(calls)} make_error_response sends (unmodelled control flow)")
        n_callers += 1
        ctx.check(bad == 0, "R12.3", (H1, q, calls[0]), "SendData(make_error_response(..)) then CloseConnection",
                  f"{bad} path(s) send the error page (Connection: close) and return without closing the connection",
                  desc=f"{H1}::{q}: {len(calls)} error page send(s) followed by CloseConnection on all {len(traces)} projected paths")
    for other in mods:
        if other.rel != H1 and "make_error_response" in other.source:
            for n in walk_in_order(other.tree):
                if isinstance(n, ast.Call) and last_attr(n.func) == "make_error_response":
                    raise AnalysisError(f"{other.rel}::{qual_of(n)}: make_error_response is called outside _http1.py (caller not modelled by R12.3)")
    ctx.require(n_callers >= 2, f"R12.3: only {n_callers} functions call make_error_response (2 confirmed by hand)")
    ctx.expect_instances("R12.3", 7)


_FE_OLD = "<p>{html.escape(message)}</p>"
MUTANTS = [
    Mutant("page-normalised-after-escape", BASE, '        .encode("utf8", "replace")\n', '        .encode("utf8", "replace")\n        .decode("utf8")\n        .translate({})\n        .encode("utf8")\n    ) and (\n        __import__("unicodedata").normalize("NFKC", html.escape(message)).encode()\n', "R12.4"),
    Mutant("connect-error-page-html-unescaped", "mitmproxy/proxy/layers/http/__init__.py", "consider setting `connection_strategy` to `lazy` to suppress early connections.\",\n",
           "consider setting <code>connection_strategy</code> to <code>lazy</code> to suppress early connections.\",\n                    {\"Content-Type\": \"text/html\"},\n", "R12.1"),
    Mutant("format-error-no-escape", BASE, _FE_OLD, "<p>{message}</p>", "R12.1"),
    Mutant("format-error-escapes-only-a-prefix", BASE, _FE_OLD, "<p>{html.escape(message[:200]) + message[200:]}</p>", "R12.1"),
    Mutant("format-error-reason-from-message", BASE, "    reason = http.status_codes.RESPONSES.get(status_code, \"Unknown\")\n",
           "    reason = http.status_codes.RESPONSES.get(status_code, message)\n", "R12.1"),
    Mutant("proxyauth-page-names-the-user", AUTH, "def make_auth_required_response(is_proxy: bool) -> http.Response:\n    if is_proxy:\n        status_code = status_codes.PROXY_AUTH_REQUIRED\n",
           "def make_auth_required_response(is_proxy: bool, user: str = \"\") -> http.Response:\n    if is_proxy:\n        status_code = f\"{status_codes.PROXY_AUTH_REQUIRED} (bad credentials for {user})\"\n", "R12.1"),
    Mutant("new-unescaped-page-elsewhere", BASE, "def format_error(status_code: int, message: str) -> bytes:\n",
           "def format_redirect(location: str) -> bytes:\n    return (\"<html><body><a href='%s'>moved</a></body></html>\" % location).encode()\n\n\ndef format_error(status_code: int, message: str) -> bytes:\n", "R12.1"),
    Mutant("h1-error-no-content-type", H1, "            Content_Type=\"text/html\",\n", "", "R12.2"),
    Mutant("h2-error-text-plain", H2, "                                (b\"content-type\", b\"text/html\"),\n                            ],\n                        )\n                        self.h2_conn.send_data(",
           "                                (b\"content-type\", b\"text/plain\"),\n                            ],\n                        )\n                        self.h2_conn.send_data(", "R12.2"),
    Mutant("h3-error-no-content-type", H3, "                                (b\"content-type\", b\"text/html\"),\n                            ],\n                        )\n                        self.h3_conn.send_data(",
           "                            ],\n                        )\n                        self.h3_conn.send_data(", "R12.2"),
    Mutant("format-error-logged", H1, "    resp = http.Response.make(\n", "    logger.debug(format_error)\n    resp = http.Response.make(\n", "R12.2"),
    Mutant("h1-error-keepalive", H1, "            Connection=\"close\",\n", "", "R12.3"),
    Mutant("h1-error-no-close-after-400", H1, "                    yield commands.SendData(self.conn, make_error_response(400, str(e)))\n                    yield commands.CloseConnection(self.conn)\n",
           "                    yield commands.SendData(self.conn, make_error_response(400, str(e)))\n", "R12.3"),
    Mutant("h1-error-close-only-without-page", H1, "                    self.conn, make_error_response(status, event.message)\n                )\n            yield commands.CloseConnection(self.conn)\n",
           "                    self.conn, make_error_response(status, event.message)\n                )\n            else:\n                yield commands.CloseConnection(self.conn)\n", "R12.3"),
    Mutant("set-content-length-only-when-missing", HTTP, "            self.headers[\"content-length\"] = str(len(self.raw_content))\n",
           "            if \"content-length\" not in self.headers:\n                self.headers[\"content-length\"] = str(len(self.raw_content))\n", "R12.3"),
    Mutant("response-make-raw-content", HTTP, "        if isinstance(content, bytes):\n            resp.content = content\n",
           "        if isinstance(content, bytes):\n            resp.raw_content = content\n", "R12.3"),
]
