"""Interpretive harness for the flow-file code (C37, C39): tnetstring, io/io.py, addons/save.py.

Nothing here imports or runs repository code: the repository functions are *interpreted* from their AST by ``mitmlint.pyint``
against small stub objects defined here (an in-memory file that records reads / writes / flushes, abstract flows, a filter
language of one-letter tags, a clock and a file system table for the Save addon).  Rules built on it compare **behaviour**
(bytes in the file, records loaded, exceptions raised) and are therefore indifferent to renamed locals, temporaries, inverted
branches, extracted helpers, base classes / ``super()`` and class-level hook aliases.

Trusted base: the tnetstring wire format written down in ``ref_dumps`` / ``ref_pop`` (a dozen lines, taken from the format
description in tnetstring.py's docstring), the stubs below, and pyint.
"""

from __future__ import annotations

import ast
import collections
import io as _stdio
import json as _json
import types

from ..core import AnalysisError
from ..core import norm
from ..model import last_attr
from ..pyint import ClassRef
from ..pyint import Func
from ..pyint import Gen
from ..pyint import Interp
from ..pyint import NullLog
from ..pyint import Raised
from ..pyint import Rec

IO = "mitmproxy/io/io.py"
TN = "mitmproxy/io/tnetstring.py"
SAVE = "mitmproxy/addons/save.py"


# ---------------------------------------------------------------------------------------------------
# performance: keep the interpreter's deep recursion inside ONE data-stack chunk


def _flat(_f, *_a, **_k):
    return _f(*_a, **_k)


try:  # CPython: a frame of ~540 kB makes the VM allocate a 1 MB data-stack chunk with ~480 kB of room behind this frame
    _flat.__code__ = _flat.__code__.replace(co_stacksize=68000)
except Exception:  # pragma: no cover - other implementations: a plain call
    pass


def flat_stack(f, *args, **kwargs):
    """Call ``f`` so that the (deep, hot) recursion of pyint below it never straddles a boundary of CPython's 16 kB frame-stack
    chunks.  CPython frees a chunk when the first frame in it returns and maps a new one at the next call; when a hot call site of
    the interpreter happens to sit on such a boundary every call costs an mmap/munmap pair (measured: 0.7 s -> 14 s for the same
    work, depending only on how deep the caller's own stack is).  Purely a performance measure: semantics are those of ``f(*args)``."""
    return _flat(f, *args, **kwargs)


# ---------------------------------------------------------------------------------------------------
# reference wire format (trusted)


def ref_dumps(v) -> bytes:
    if v is None:
        return b"0:~"
    if v is True:
        return b"4:true!"
    if v is False:
        return b"5:false!"
    if isinstance(v, int):
        d, t = str(v).encode(), b"#"
    elif isinstance(v, float):
        d, t = repr(v).encode(), b"^"
    elif isinstance(v, bytes):
        d, t = v, b","
    elif isinstance(v, str):
        d, t = v.encode("utf8"), b";"
    elif isinstance(v, (list, tuple)):
        d, t = b"".join(ref_dumps(x) for x in v), b"]"
    elif isinstance(v, dict):
        d, t = b"".join(ref_dumps(k) + ref_dumps(x) for k, x in v.items()), b"}"
    else:
        raise AnalysisError(f"flowio: no wire form for {v!r}")
    return str(len(d)).encode() + b":" + d + t


def ref_pop(b: bytes):
    """(value, rest) of the first complete record in ``b``; None if ``b`` does not start with a complete, well-formed record."""
    i = b.find(b":")
    if i <= 0 or not b[:i].isdigit():
        return None
    n = int(b[:i])
    body, tag, rest = b[i + 1 : i + 1 + n], b[i + 1 + n : i + 2 + n], b[i + 2 + n :]
    if len(body) != n or len(tag) != 1:
        return None
    try:
        if tag == b",":
            return body, rest
        if tag == b";":
            return body.decode("utf8"), rest
        if tag == b"#":
            return int(body), rest
        if tag == b"^":
            return float(body), rest
        if tag == b"!":
            return {b"true": True, b"false": False}[body], rest
        if tag == b"~":
            return (None, rest) if not body else None
        if tag in (b"]", b"}"):
            items = []
            while body:
                r = ref_pop(body)
                if r is None:
                    return None
                items.append(r[0])
                body = r[1]
            if tag == b"]":
                return items, rest
            if len(items) % 2:
                return None
            return dict(zip(items[0::2], items[1::2])), rest
    except (ValueError, KeyError, TypeError):
        return None
    return None


def ref_records(b: bytes):
    """(records, torn tail bytes) of a stream file."""
    out = []
    while b:
        r = ref_pop(b)
        if r is None:
            break
        out.append(r[0])
        b = r[1]
    return out, b


# ---------------------------------------------------------------------------------------------------
# stubs


class FileStub(Rec):
    """In-memory binary file that records what is done to it.  ``read(n)`` returns fewer than n bytes only at the end (buffered
    file).  It is a pyint record (its state lives in the instance dict, the methods are bound into it), so that pyint's generator
    replay restores the file position together with the reader object that holds the file."""

    def __init__(self, data: bytes = b"", name: str = ""):
        super().__init__("BufferedRandom", _bases=("BinaryIO", "IOBase"), _name=name or "file")
        self.data = bytearray(data)
        self.pos = 0
        self.name = name
        self.closed = False
        self.log = []  # ('read', n, got) | ('write', bytes) | ('flush',) | ('close',)
        self.durable = [len(self.data)]  # [bytes that have reached the file (flushed)]
        for m in ("read", "peek", "tell", "seek", "write", "writelines", "flush", "close", "readable", "writable", "seekable", "fileno"):
            object.__setattr__(self, m, getattr(self, "_" + m))

    def _check_open(self):
        if self.closed:
            raise ValueError("I/O operation on closed file.")

    def _read(self, n=-1):
        self._check_open()
        if n is None:
            n = -1
        if not isinstance(n, int):
            raise TypeError("integer argument expected")
        if n < 0:
            n = len(self.data) - self.pos
        out = bytes(self.data[self.pos : self.pos + n])
        self.pos += len(out)
        self.log.append(("read", n, len(out)))
        return out

    def _peek(self, n=0):
        self._check_open()
        return bytes(self.data[self.pos :])  # like BufferedReader.peek: whatever is buffered, position unchanged

    def _tell(self):
        return self.pos

    def _seek(self, pos, whence=0):
        self.pos = pos if whence == 0 else (self.pos + pos if whence == 1 else len(self.data) + pos)
        return self.pos

    def _write(self, b):
        self._check_open()
        b = bytes(b)
        self.data += b
        self.log.append(("write", b))
        return len(b)

    def _writelines(self, lines):
        for x in lines:
            self._write(x)

    def _flush(self):
        self._check_open()
        self.durable[0] = len(self.data)
        self.log.append(("flush",))

    def _close(self):
        if not self.closed:
            self.durable[0] = len(self.data)
            self.log.append(("close",))
        self.closed = True

    def _readable(self):
        return True

    def _fileno(self):
        return 3

    _writable = _seekable = _readable


class _Deque(list):
    """collections.deque stand-in that pyint can iterate (it only iterates list-like natives)."""

    def appendleft(self, x):
        self.insert(0, x)

    def popleft(self):
        return self.pop(0)

    def extendleft(self, xs):
        for x in xs:
            self.insert(0, x)


class _Collections:
    deque = _Deque

    def __getattr__(self, name):
        return getattr(collections, name)


class FlowFilterStub:
    """Stand-in for the module ``mitmproxy.flowfilter``: a filter spec is a string of one-letter tags, it matches a flow whose
    ``tags`` share a letter with it.  ``parse`` of the spec '!' raises ValueError (an invalid expression)."""

    _pyint_accepts_abstract = True

    class _Filter:
        _pyint_accepts_abstract = True

        def __init__(self, spec):
            self.spec = spec
            self.pattern = spec

        def __call__(self, f):
            return bool(set(self.spec) & set(getattr(f, "tags", "")))

        def __repr__(self):
            return f"<filter {self.spec}>"

    def parse(self, spec):
        if not isinstance(spec, str) or "!" in spec:
            raise ValueError(f"Invalid filter expression: {spec!r}")
        return FlowFilterStub._Filter(spec)

    def match(self, flt, f):
        if isinstance(flt, str):
            flt = self.parse(flt)
        if flt:
            return flt(f)
        return True

    def __getattr__(self, name):
        if name in ("TFilter", "Filter"):
            return object
        raise AttributeError(name)


def make_flow(fid: str, cls: str = "HTTPFlow", tags: str = "", **attrs) -> Rec:
    """An abstract flow: ``get_state()`` gives a small state dict carrying its id."""
    typ = {"HTTPFlow": "http", "TCPFlow": "tcp", "UDPFlow": "udp", "DNSFlow": "dns"}[cls]
    state = {"id": fid, "type": typ, "version": 21, "marked": "", "intercepted": False}
    kw = dict(id=fid, type=typ, tags=tags, websocket=None, error=None, response=None, live=False, marked="", intercepted=False, metadata={}, comment="")
    kw.update(attrs)
    r = Rec(cls, _bases=("Flow", "Serializable"), _name=fid, **kw)
    object.__setattr__(r, "get_state", lambda: dict(state))
    return r


def flow_state(fid: str, typ: str = "http") -> dict:
    return {"id": fid, "type": typ, "version": 21, "marked": "", "intercepted": False}


# ---------------------------------------------------------------------------------------------------
# interpreter set-up


class _FlowModuleStub:
    """Stand-in for ``mitmproxy.flow`` as seen from io/io.py: ``Flow.from_state(state)`` gives a token carrying the state."""

    class Flow:
        @staticmethod
        def from_state(state):
            if not isinstance(state, dict):
                raise TypeError("state must be a dict")
            return ("FLOW", state["id"])


class _CompatStub:
    @staticmethod
    def migrate_flow(d):
        if not isinstance(d, dict):
            raise TypeError("flow data must be a dict")
        if "version" not in d:
            raise ValueError("flow without version")
        return d


class _SysStub:
    class _Err:
        _pyint_accepts_abstract = True

        def write(self, *a):
            return None

        def flush(self):
            return None

    stderr = _Err()
    stdout = _Err()

    @staticmethod
    def exit(code=0):
        raise Raised("SystemExit", str(code))


class _OsPath:
    @staticmethod
    def expanduser(p):
        return p

    @staticmethod
    def dirname(p):
        return p.rsplit("/", 1)[0] if "/" in p else ""

    @staticmethod
    def basename(p):
        return p.rsplit("/", 1)[-1]

    @staticmethod
    def join(*a):
        return "/".join(a)

    @staticmethod
    def exists(p):
        return False

    isdir = isfile = exists

    @staticmethod
    def abspath(p):
        return p

    normpath = abspath


class _OsStub:
    path = _OsPath()

    @staticmethod
    def makedirs(*a, **k):
        return None

    @staticmethod
    def fspath(p):
        return str(p)

    @staticmethod
    def fsync(fd):
        return None

    fdatasync = fsync


class _FInterp(Interp):
    """pyint + (1) class-level method aliases on every object it creates, (2) ``except NAME`` where NAME is a module constant
    holding a tuple of exception classes (pyint itself matches handler types by their spelling only)."""

    def instantiate(self, c, args, kwargs, depth, where):
        rec = super().instantiate(c, args, kwargs, depth, where)
        if isinstance(rec, Rec) and rec._impl is not None:
            bind_aliases(self.model, rec)
        return rec

    def iterate(self, v, node):
        # a for-loop over a live set / dict: like CPython, fail when the container changes size while it is iterated
        # (pyint iterates a copy, which would hide `for f in self.active_flows: <something that discards f>`)
        par = getattr(node, "_parent", None)
        if isinstance(v, (set, dict)) and isinstance(par, (ast.For, ast.AsyncFor)) and par.iter is node:
            return self._guarded(v)
        return super().iterate(v, node)

    @staticmethod
    def _guarded(v):
        n = len(v)
        for x in list(v):
            if len(v) != n:
                raise Raised("RuntimeError", "container changed size during iteration")
            yield x
        if len(v) != n:
            raise Raised("RuntimeError", "container changed size during iteration")

    def isinstance_(self, v, classes):
        # pyint represents a caught exception as the string '<exc:Name>': decide isinstance(e, SomeError) on the class name
        if isinstance(v, str) and v.startswith("<exc:") and v.endswith(">"):
            import builtins

            name = v[5:-1]
            todo = list(classes)
            while todo:
                c = todo.pop()
                if isinstance(c, tuple) and len(c) == 2 and c[0] == "$exc":
                    b1, b2 = getattr(builtins, name, None), getattr(builtins, c[1], None)
                    if name == c[1] or (isinstance(b1, type) and isinstance(b2, type) and issubclass(b1, b2)):
                        return True
                    if b1 is None and isinstance(b2, type) and issubclass(Exception, b2):
                        return True  # a repository exception class is an Exception
                elif isinstance(c, ClassRef):
                    if name == c.node.name or c.node.name in self._repo_ancestors(name, c.mod):
                        return True
                elif isinstance(c, tuple) and c and c[0] == "$union":
                    todo.extend(c[1])
                elif isinstance(c, (tuple, list)):
                    todo.extend(c)
            return False
        return super().isinstance_(v, classes)

    def class_attr(self, cref, attr, depth):
        # Flow.from_state is C36's business: a token carrying the id of the state stands for the flow
        if attr == "from_state" and cref.mod.rel == "mitmproxy/flow.py" and cref.node.name == "Flow":
            return _FlowModuleStub.Flow.from_state
        return super().class_attr(cref, attr, depth)

    def _with(self, st, i, env, mod, depth):
        """context managers with an exactly known meaning: a stub file (closed at exit), native locks and the like (enter / exit
        called, exceptions not suppressed)"""
        if i == len(st.items):
            return self.block(st.body, env, mod, depth)
        item = st.items[i]
        v = self.ev(item.context_expr, env, mod, depth)
        if isinstance(v, FileStub):
            entered, leave = v, v._close
        elif not isinstance(v, (Rec, Func, ClassRef, tuple)) and type(v).__module__ in ("_thread", "threading") and hasattr(v, "__enter__"):
            entered, leave = v.__enter__(), (lambda: v.__exit__(None, None, None))
        elif i == 0 and len(st.items) == 1:
            return Interp.with_(self, st, 0, env, mod, depth)  # repository @contextmanager generators, __enter__/__exit__ records (pyint core)
        else:
            raise AnalysisError(f"flowio: with-statement not modelled: {norm(item.context_expr)[:80]}")
        if item.optional_vars is not None:
            self.assign(item.optional_vars, entered, env, mod, depth)
        try:
            return self._with(st, i + 1, env, mod, depth)
        finally:
            leave()

    def _exc_names(self, expr, env, mod, depth):
        """names of the exception classes a handler type expression denotes, or None (spelled out classes: leave to pyint)"""
        import builtins

        def spelled(e):
            n = e.id if isinstance(e, ast.Name) else e.attr if isinstance(e, ast.Attribute) else None
            if n is None:
                return False
            b = getattr(builtins, n, None)
            if isinstance(e, ast.Name) and isinstance(b, type) and issubclass(b, BaseException) and n not in env and not mod.assigns(n):
                return True
            return False

        parts = expr.elts if isinstance(expr, ast.Tuple) else [expr]
        if all(spelled(e) for e in parts):
            return None
        out = []

        def flat(v):
            if isinstance(v, tuple) and len(v) == 2 and v[0] == "$exc":
                out.append(v[1])
            elif isinstance(v, ClassRef):
                out.append(v.node.name)
            elif isinstance(v, (tuple, list)) and not (v and isinstance(v[0], str) and v[0].startswith("$")):
                for x in v:
                    flat(x)
            else:
                raise AnalysisError(f"flowio: handler type {norm(expr)} denotes {v!r}: not an exception class")

        for e in parts:
            try:
                flat(self.ev(e, env, mod, depth))
            except AnalysisError:
                if isinstance(e, (ast.Name, ast.Attribute)) and not (isinstance(e, ast.Name) and mod.assigns(e.id)):
                    out.append(e.id if isinstance(e, ast.Name) else e.attr)  # an exception class pyint cannot evaluate (stdlib submodule): by spelling
                else:
                    raise
        return out

    def try_(self, st, env, mod, depth):
        if any(h.type is not None for h in st.handlers):
            resolved = [None if h.type is None else self._exc_names(h.type, env, mod, depth) for h in st.handlers]
            if any(r is not None for r in resolved):
                import copy

                st2 = copy.copy(st)
                st2.handlers = []
                for h, r in zip(st.handlers, resolved):
                    if r is None:
                        st2.handlers.append(h)
                    else:
                        h2 = copy.copy(h)
                        h2.type = ast.Tuple(elts=[ast.Name(id=n, ctx=ast.Load()) for n in r], ctx=ast.Load())
                        st2.handlers.append(h2)
                st = st2
        return super().try_(st, env, mod, depth)


class _FInterpWith(_FInterp):
    """+ with-statements.  Kept out of _FInterp: an extra Python frame per interpreted statement is measurably slower (CPython frees and
    re-allocates a data-stack chunk whenever a hot call sits on a chunk boundary), so it is only used when the code has such a statement."""

    def stmt(self, st, env, mod, depth):
        if isinstance(st, (ast.With, ast.AsyncWith)) and not (
            len(st.items) == 1 and isinstance(st.items[0].context_expr, ast.Call) and last_attr(st.items[0].context_expr.func) in ("suppress", "nullcontext")
        ):
            return self._with(st, 0, env, mod, depth)
        return super().stmt(st, env, mod, depth)


_ICLS: dict = {}


def _interp_class(model):
    """_FInterpWith iff a function the rules may interpret contains a with-statement other than suppress() / nullcontext()."""
    hit = _ICLS.get(id(model))
    if hit is None or hit[0] is not model:
        hit = _ICLS[id(model)] = (model, _interp_class_uncached(model))
    return hit[1]


def _interp_class_uncached(model):

    def has_with(fn):
        for n in ast.walk(fn):
            if isinstance(n, (ast.With, ast.AsyncWith)) and not (
                len(n.items) == 1 and isinstance(n.items[0].context_expr, ast.Call) and last_attr(n.items[0].context_expr.func) in ("suppress", "nullcontext")
            ):
                return True
        return False

    for rel in (TN, IO, SAVE):
        if not model.exists(rel):
            continue
        for st in model.module(rel).tree.body:
            if isinstance(st, ast.FunctionDef) and (rel == TN or st.name.startswith("_")) and has_with(st):
                return _FInterpWith
            if isinstance(st, ast.ClassDef):
                for fn in st.body:
                    if isinstance(fn, ast.FunctionDef) and not any("command" in norm(d) for d in fn.decorator_list) and has_with(fn):
                        return _FInterpWith
    return _FInterp


def _trusted():
    import threading

    return {"logging": NullLog(), "collections": _Collections(), "io": _stdio, "json": _json, "os": _OsStub(), "os.path": _OsPath(), "sys": _SysStub(),
            "threading": threading, "time": types.SimpleNamespace(time=lambda: 0.0, monotonic=lambda: 0.0, perf_counter=lambda: 0.0)}


def flowio_interp(model, max_steps=3_000_000) -> Interp:
    """pyint set up for tnetstring.py / io/io.py: stdlib stand-ins, the builtins pyint lacks, and stubs for the flow classes
    (whatever name io.py imports them under)."""
    it = _interp_class(model)(model, trusted_modules=_trusted(), max_steps=max_steps)
    _install_overrides(it, model)
    return it


def _install_overrides(it, model):
    for rel in (TN, IO, SAVE):
        if not model.exists(rel):
            continue
        it.overrides[(rel, "memoryview")] = memoryview
        mod = model.module(rel)
        for name, target in mod.imports.items():
            if rel != IO:
                break
            if target == "mitmproxy.io.compat":
                it.overrides[(rel, name)] = _CompatStub
            elif target == "mitmproxy.io.compat.migrate_flow":
                it.overrides[(rel, name)] = _CompatStub.migrate_flow
            elif target == "mitmproxy.flowfilter":
                it.overrides[(rel, name)] = FlowFilterStub()
            elif target == "mitmproxy.flowfilter.match":
                it.overrides[(rel, name)] = FlowFilterStub().match  # (bound method of a stub that accepts abstract records)
    return it


def run(it: Interp, f, *args):
    """('ok', value) | ('raise', ExcName) of applying an interpreted callable."""
    try:
        return ("ok", it.apply(f, list(args), {}, 0))
    except Raised as r:
        return ("raise", r.name)


def drain(it: Interp, gen, limit=50):
    """(values yielded, 'end' | 'raise:Exc') of consuming an interpreted generator (or plain iterable) to the end."""
    out = []
    try:
        if isinstance(gen, Gen):
            for v in gen:
                out.append(v)
                if len(out) > limit:
                    raise AnalysisError("flowio: generator does not terminate on a finite file")
        else:
            for v in it.iterate(gen, None):
                out.append(v)
    except Raised as r:
        return out, f"raise:{r.name}"
    return out, "end"


# ---------------------------------------------------------------------------------------------------
# classes with class-level aliases


def class_namespace(model, rel: str, qual: str) -> dict:
    """name -> (Module, FunctionDef) for every method reachable on the class: definitions along the MRO plus class-level
    aliases (``tcp_error = tcp_end``, ``a = b = _helper``), resolved inside the class namespace they are written in."""
    out: dict = {}
    for m, c in reversed(model.mro(rel, qual)):
        local: dict = {}
        for st in c.body:
            if isinstance(st, (ast.FunctionDef, ast.AsyncFunctionDef)):
                local[st.name] = (m, st)
            elif isinstance(st, ast.Assign) and isinstance(st.value, ast.Name):
                src = local.get(st.value.id) or out.get(st.value.id)
                for t in st.targets:
                    if isinstance(t, ast.Name):
                        if src is not None:
                            local[t.id] = src
                        else:
                            local.pop(t.id, None)
            elif isinstance(st, (ast.Assign, ast.AnnAssign)):
                tg = st.targets if isinstance(st, ast.Assign) else [st.target]
                for t in tg:
                    if isinstance(t, ast.Name) and getattr(st, "value", None) is not None:
                        local.pop(t.id, None)  # rebound to something that is not a method
        out.update(local)
    return out


def bind_aliases(model, rec: Rec) -> None:
    """pyint resolves methods by FunctionDef name only; give the record bound functions for the class-level aliases."""
    ns = class_namespace(model, *rec._impl)
    for name, (m, fn) in ns.items():
        if fn.name != name:
            decs = [norm(d) for d in fn.decorator_list]
            object.__setattr__(rec, name, Func(m, fn) if "staticmethod" in decs else Func(m, fn, bound=rec))


def new_object(it: Interp, model, rel: str, qual: str, *args) -> Rec:
    cref = ClassRef(model.module(rel), model.cls(rel, qual))
    rec = it.apply(cref, list(args), {}, 0)
    if not isinstance(rec, Rec):
        raise AnalysisError(f"flowio: {qual}(...) did not give an object")
    bind_aliases(model, rec)
    return rec


# ---------------------------------------------------------------------------------------------------
# the Save addon in a stub world


class _PathStub:
    def __init__(self, world, p):
        self._world = world
        self._p = str(p)

    @property
    def parent(self):
        return _PathStub(self._world, _OsPath.dirname(self._p) or "/")

    @property
    def name(self):
        return _OsPath.basename(self._p)

    def mkdir(self, *a, **k):
        return None

    def exists(self):
        return self._p in self._world.files

    def expanduser(self):
        return self

    def open(self, mode="r", *a, **k):
        return self._world.open(self._p, mode)

    def __truediv__(self, other):
        return _PathStub(self._world, self._p.rstrip("/") + "/" + str(other))

    def __str__(self):
        return self._p

    __fspath__ = __str__

    def __eq__(self, other):
        return str(self) == str(other)

    def __hash__(self):
        return hash(self._p)


class SaveWorld:
    """``addons/save.py::Save`` instantiated by interpretation in a world of stubs: options, a clock that only shows through
    ``strftime('%H')``, a table of files.  ``hook`` / ``configure`` interpret the addon's methods (resolved through the MRO and
    class-level aliases, like the addon manager's getattr); ``new_records`` tells what reached the files since the last call."""

    def __init__(self, model, max_steps=2_000_000):
        self.model = model
        self.clock = "01"
        self.files: dict = {}  # path -> FileStub (latest open)
        self.stubs: list = []  # every FileStub ever opened: [path, mode, stub, bytes seen]
        self.options = types.SimpleNamespace(save_stream_file=None, save_stream_filter=None)
        it = self.it = _interp_class(model)(model, trusted_modules=_trusted(), max_steps=max_steps)
        _install_overrides(it, model)
        world = self

        class _Stamp:
            def strftime(self, fmt):
                return fmt.replace("%H", world.clock)

            def timestamp(self):
                return float(int(world.clock))

        class _DateTime:
            @staticmethod
            def today(*a):
                return _Stamp()

            now = utcnow = today

        self.ffstub = FlowFilterStub()
        ctxstub = types.SimpleNamespace(options=self.options, master=None, log=NullLog())
        timestub = types.SimpleNamespace(strftime=lambda fmt, *a: fmt.replace("%H", world.clock), time=lambda: float(int(world.clock)))
        mod = model.module(SAVE)
        for name, target in mod.imports.items():
            v = {
                "mitmproxy.ctx": ctxstub,
                "mitmproxy.ctx.options": self.options,
                "datetime.datetime": _DateTime,
                "datetime": types.SimpleNamespace(datetime=_DateTime),
                "pathlib.Path": lambda p: _PathStub(world, p),
                "pathlib": types.SimpleNamespace(Path=lambda p: _PathStub(world, p)),
                "mitmproxy.flowfilter": self.ffstub,
                "time": timestub,
            }.get(target)
            if v is not None:
                it.overrides[(SAVE, name)] = v
        it.overrides[(SAVE, "open")] = lambda p, mode="r", *a, **k: world.open(str(p), mode)
        self.save = new_object(it, model, SAVE, "Save")
        self.ns = class_namespace(model, SAVE, "Save")
        self.trace: list = []  # readable history for reasons

    # -- file system
    def open(self, path, mode="r"):
        if "r" in mode and "+" not in mode:
            raise Raised("OSError", "the stream file is opened for reading")
        old = self.files.get(path)
        init = bytes(old.data) if (old is not None and "a" in mode) else b""
        st = FileStub(init, name=path)
        st.pos = len(init)
        self.files[path] = st
        self.stubs.append([path, mode, st, len(init)])
        return st

    def new_bytes(self):
        """bytes written (to any file) since the previous call, in order of the files' opening"""
        out = b""
        for ent in self.stubs:
            st = ent[2]
            out += bytes(st.data[ent[3]:])
            ent[3] = len(st.data)
        return out

    def new_records(self):
        """(ids of the records written since the previous call, torn tail)"""
        recs, tail = ref_records(self.new_bytes())
        ids = [r.get("id") if isinstance(r, dict) else r for r in recs]
        return ids, tail

    def unflushed(self):
        """paths of open files holding bytes that were written but not flushed"""
        return [ent[0] for ent in self.stubs if ent[2].durable[0] != len(ent[2].data)]

    # -- driving the addon
    def has(self, name):
        return name in self.ns

    def hook(self, name, *args, label=None):
        """'ok' | 'raise:Exc' | 'missing' - what the addon manager's call of Save.<name>(*args) does"""
        if name not in self.ns:
            self.trace.append(f"{name}: no such hook")
            return "missing"
        m, fn = self.ns[name]
        label = label or f"{name}({', '.join(getattr(a, '_name', None) or repr(a) for a in args)})"
        try:
            self.it.apply(Func(m, fn, bound=self.save), list(args), {}, 0)
        except Raised as r:
            self.trace.append(f"{label} raised {r.name}")
            return f"raise:{r.name}"
        self.trace.append(label)
        return "ok"

    def configure(self, **opts):
        for k, v in opts.items():
            setattr(self.options, k, v)
        return self.hook("configure", set(opts), label=f"configure({', '.join(f'{k}={v!r}' for k, v in opts.items())})")

    def stream_object(self):
        return self.save.__dict__.get("stream")


class SaveSpec:
    """What the property says the stream file(s) gain at each event (the oracle of the histories)."""

    def __init__(self):
        self.streaming = False
        self.flt = None  # tag string or None
        self.opened: list = []  # flows started while saving was active and not completed since

    def matches(self, f):
        return self.flt is None or bool(set(self.flt) & set(f.tags))

    def start(self, f):
        if self.streaming and f not in self.opened:
            self.opened.append(f)
        return []

    def complete(self, f):
        if f in self.opened:
            self.opened.remove(f)
        if self.streaming and self.matches(f):
            return [f.id]
        return []

    def stop(self):
        out = sorted(f.id for f in self.opened if self.matches(f)) if self.streaming else []
        self.opened = []
        self.streaming = False
        return out

    def configure(self, options, updated):
        if "save_stream_filter" in updated:
            self.flt = options.save_stream_filter or None
        if "save_stream_file" in updated or "save_stream_filter" in updated:
            if options.save_stream_file:
                self.streaming = True
                return []
            return self.stop()
        return []
