"""C01 - HTTP/1 forwarding is framing-consistent: no request or response desync.

Decided (structural clauses without which desync is possible).  Every rule below *interprets* the anchored functions
(mitmlint.pyint) in small abstract worlds and judges what they return / yield / write; stand-ins are anchored on definitions
(roles), never on the text of a call site, a private constant's name or a statement's shape:
  R01.1 decision table of net/http/http1/read.py::expected_http_body_size over the abstract domain
        {request,response} x method {GET,HEAD,CONNECT,..} x status classes and their boundaries x
        TE {absent, chunked, "gzip, chunked", identity, gzip, unknown, non-ASCII-that-lower()-folds} x
        CL {absent, valid, invalid}  ==  RFC 9112 section 6.3 (0 / n / None=chunked / -1=until-EOF / ValueError).
  R01.2 validate_headers raises exactly on the reference set (TE+CL, duplicate TE/CL, TE on HTTP/1.0, TE on 1xx/204,
        non-chunked-final TE on a request, unknown TE, invalid CL, invalid field name).  The validity predicates are found by
        role: whatever is applied to field names / Content-Length values is probed with boundary inputs (every octet; sign,
        space, leading zero, non-ASCII digits) and every regular expression that such a value flows into (recorded by a `re`
        stand-in) must have the RFC *language* and be anchored for the matching method used.  The TE vocabulary is what
        parse_transfer_encoding accepts among the reference codings, their combinations and all literals of validate.py.
  R01.3 HttpStream validates before anything is forwarded (explored on the extracted model); check_invalid / validate_request
        interpreted with validate_headers refusing / accepting: rejection path (error, hooks, one protocol error to the client,
        both states errored, server closed for responses), silent accept path, the message at hand is the one validated.
  R01.4 reader <-> writer framing agree: make_body_reader table, read_headers installs the reader for the decided size (and
        end_stream iff 0), send() of both classes and assemble_body write chunk frames / terminator exactly under chunked.
  R01.5 the parse-error worlds of Http1Server/Http1Client.read_headers (head unparsable, framing undecidable) close and
        report, answer 400 (server), never start a body reader, and the server stops parsing afterwards.
  R01.6 Expect: 100-continue never reaches the upstream server (state_wait_for_request_headers interpreted for
        Expect x streaming x end_stream x mode; falls back to path enumeration outside the interpreted subset).
Not decided: byte-level equality of what an independent RFC 9112 parser reads (h11 internals, all byte streams).
"""

from __future__ import annotations

import ast
import itertools

from .. import rx
from ..absint import HeadersModel
from ..absint import Interp
from ..pyint import Interp as _PyInterp
from ..pyint import ClassRef as _PClassRef
from ..pyint import Func as _PFunc
from ..pyint import Raised as _PRaised
from ..pyint import Rec as _PRec
from ..absint import Raised
from ..absint import Rec
from ..core import AnalysisError
from ..core import norm
from ..httpstream import HttpStreamSpec
from ..httpstream import init_env
from ..httpstream import REL
from ..layerx import explore
from ..model import attr_chain
from ..model import calls_in
from ..model import last_attr
from ..model import walk_in_order
from ..paths import C
from ..paths import Engine
from ..paths import GenericSpec
from ..paths import State
from ..paths import traces_of
from ..selftest import Mutant
from .C03 import Lifecycle

PROP = "C01"
REG = {
    "strength": "partial",
    "technique": "decision tables and small-world runs by AST interpretation (role-anchored stand-ins), regex language equivalence of the patterns that validated values flow into, model exploration (validate-before-forward)",
    "claim": "the framing decision (expected_http_body_size) and the rejection set (validate_headers) equal RFC 9112 reference tables on every abstract cell; "
    "the validation regexes have exactly the RFC languages; HttpStream validates before forwarding on every explored transition; readers and writers frame alike.",
    "note": "Header values are abstract classes with one representative each; Headers.get/fields, Message.is_http11 and h11's readers are trusted models. "
    "Language comparison is over strings without CR/LF (Python's `$` also matches before a trailing newline; _read_headers never delivers one).",
}

READ = "mitmproxy/net/http/http1/read.py"
VAL = "mitmproxy/net/http/validate.py"
H1 = "mitmproxy/proxy/layers/http/_http1.py"
ASM = "mitmproxy/net/http/http1/assemble.py"

TE_CLASSES = {
    "absent": None,
    "chunked": b"chunked",
    "gzip+chunked": b"gzip, chunked",
    "identity": b"identity",
    "gzip": b"GZip",
    "unknown": b"bogus",
    "nonascii-fold": "chun\u212aed".encode(),  # KELVIN SIGN lower-cases to 'k'
}
CL_CLASSES = {"absent": None, "valid": b"12", "invalid": b"+12"}


def headers_of(te, cl, extra=()):
    f = []
    if te is not None:
        f.append((b"Transfer-Encoding", te))
    if cl is not None:
        f.append((b"Content-Length", cl))
    f.extend(extra)
    return HeadersModel(f)


def ref_body_size(kind, method, status, te, cl):
    """RFC 9112 6.3 reference. Returns value, 'ValueError', or 'dontcare'."""
    if kind == "response":
        if method == "HEAD":
            return 0
        if 100 <= status <= 199 or status in (204, 304):
            return 0
        if 200 <= status <= 299 and method == "CONNECT":
            return 0
    if te != "absent":
        if te in ("unknown", "nonascii-fold"):
            return "ValueError"
        if te in ("chunked", "gzip+chunked"):
            return None
        # transfer-encoding present, chunked not final
        if kind == "response":
            return -1
        return "dontcare"  # request: must be rejected (R01.2 demands validate_headers raises); leniency without validation is not framing-relevant here
    if cl == "valid":
        return 12
    if cl == "invalid":
        return "ValueError"
    return 0 if kind == "request" else -1


class _Log:
    """stand-in for the `logging` module / a logger: nothing is enabled, every call is a no-op"""

    DEBUG, INFO, WARNING, ERROR = 10, 20, 30, 40

    def getLogger(self, *a, **k):
        return self

    def isEnabledFor(self, *a, **k):
        return False

    def __getattr__(self, name):
        if name in ("debug", "info", "warning", "error", "exception", "log", "critical"):
            return lambda *a, **k: None
        raise AttributeError(name)


class _RoleInterp(_PyInterp):
    """pyint whose stubs are anchored on *definitions* (the role), not on the text of a call site: `fstubs` maps id(def node) of a
    repository function / method, `cstubs` id(class node) of a repository class, to a native callable that stands in for it.  However
    the analysed code spells the call (module alias, from-import, `self.helper()` that forwards, a local alias), the interpreter ends
    up applying that definition and the stub answers.  One instance is reused for many cells (the per-instance caches - module
    constants, function kinds - are the expensive part); `fresh()` resets the per-run bookkeeping."""

    def __init__(self, model, fstubs=None, cstubs=None, **kw):
        super().__init__(model, **kw)
        self.fstubs = dict(fstubs or {})
        self.cstubs = dict(cstubs or {})

    def fresh(self):
        self.steps = 0
        del self.writes[:]
        return self

    def apply(self, f, args, kwargs, depth, node=None):
        if self.fstubs and isinstance(f, _PFunc) and id(f.node) in self.fstubs:
            return self.fstubs[id(f.node)](*args, **kwargs)
        if self.cstubs and isinstance(f, _PClassRef) and id(f.node) in self.cstubs:
            return self.cstubs[id(f.node)](*args, **kwargs)
        return super().apply(f, args, kwargs, depth, node)

    def cmp(self, op, a, b, node):
        # bound methods compare equal when they are the same function of the same object (`assert self.state == self.read_body`);
        # pyint's Func has identity comparison only
        if isinstance(a, _PFunc) and isinstance(b, _PFunc) and isinstance(op, (ast.Eq, ast.NotEq)):
            same = a.node is b.node and a.bound is b.bound
            return same if isinstance(op, ast.Eq) else not same
        return super().cmp(op, a, b, node)


class _RecPattern:
    """a compiled pattern of the recording `re` stand-in: behaves like the real one, remembers what it was applied to"""

    def __init__(self, owner, pattern, flags):
        import re as _re

        self._owner, self.pattern, self.flags = owner, pattern, int(flags)
        try:
            self._p = _re.compile(pattern, flags)
        except _re.error as e:
            raise _PRaised("error", str(e))

    def _use(self, how, subject, *a):
        self._owner.uses.append((self.pattern, self.flags, how, subject))
        return getattr(self._p, how)(subject, *a)

    def match(self, subject, *a):
        return self._use("match", subject, *a)

    def fullmatch(self, subject, *a):
        return self._use("fullmatch", subject, *a)

    def search(self, subject, *a):
        return self._use("search", subject, *a)

    def __getattr__(self, name):
        return getattr(self._p, name)


class _RecRe:
    """Trusted stand-in for the module `re`: the real engine, but every match / fullmatch / search is recorded as
    (pattern, flags, method, subject).  A validity predicate is then found through the *values that flow into it* (the header
    names / the Content-Length values of the cells), whatever the constant holding the compiled pattern is called and however the
    pattern text was put together."""

    def __init__(self):
        self.uses = []

    def compile(self, pattern, flags=0):
        if isinstance(pattern, _RecPattern):
            return pattern
        return _RecPattern(self, pattern, flags)

    def match(self, pattern, string, flags=0):
        return self.compile(pattern, flags).match(string)

    def fullmatch(self, pattern, string, flags=0):
        return self.compile(pattern, flags).fullmatch(string)

    def search(self, pattern, string, flags=0):
        return self.compile(pattern, flags).search(string)

    def __getattr__(self, name):
        import re as _re

        return getattr(_re, name)


class _BufModel:
    """Trusted stand-in for h11's ReceiveBuffer holding one complete message head (stateless: a generator replay sees the same)."""

    def __init__(self, lines):
        self._lines = tuple(lines)

    def maybe_extract_lines(self):
        return [bytearray(x) for x in self._lines]

    def maybe_extract_at_most(self, n):
        return None

    def __bool__(self):
        return bool(self._lines)

    def __bytes__(self):
        return b"\r\n".join(self._lines) + b"\r\n\r\n" if self._lines else b""

    def __len__(self):
        return len(bytes(self))

    def __iadd__(self, other):
        return self


class _ReaderModel:
    """Trusted stand-in for the three h11 body readers, only as far as C01 needs them: which framing was chosen (compared by value);
    called on the buffer it asks for more data (None), so the head -> body transition of read_headers can be followed."""

    def __init__(self, kind, n=None):
        self.kind, self.n = kind, n

    def __call__(self, buf):
        return None

    def read_eof(self):
        return None

    def key(self):
        return (self.kind, self.n) if self.n is not None else self.kind

    def __eq__(self, other):
        return isinstance(other, _ReaderModel) and self.key() == other.key()

    def __hash__(self):
        return hash(self.key())

    def __repr__(self):
        return f"{self.kind}Reader({'' if self.n is None else self.n})"


class _H11Readers:
    ChunkedReader = staticmethod(lambda: _ReaderModel("Chunked"))
    Http10Reader = staticmethod(lambda: _ReaderModel("Http10"))
    ContentLengthReader = staticmethod(lambda length: _ReaderModel("ContentLength", length))


class _H11ReceiveBuffer:
    ReceiveBuffer = staticmethod(lambda: _BufModel(()))


class _H11Model:
    """Trusted stand-in for the package `h11` (handed to pyint as a trusted module, so `import h11`, `from h11._readers import X`,
    `from h11 import _readers as r` ... all resolve to it)."""

    _readers = _H11Readers
    _receivebuffer = _H11ReceiveBuffer

    class Data:
        pass

    class EndOfMessage:
        pass

    class ProtocolError(Exception):
        pass

    class RemoteProtocolError(Exception):
        pass


def _reader_key(v):
    return v.key() if isinstance(v, _ReaderModel) else v


class _PI:
    """pyint with the (rel, qual, {kwargs}) calling convention of the older absint interpreter.  One interpreter is shared by all
    cells of a table (the functions are pure; the step bound is per call)."""

    def __init__(self, model, externals=None, re_module=None):
        self.model, self.externals = model, externals
        self.re = re_module
        self._shared = None

    def _it(self):
        import re as _re

        if self._shared is None:
            self._shared = _RoleInterp(self.model, trusted_modules={"re": self.re or _re, "logging": _Log(), "h11": _H11Model}, externals=self.externals)
        return self._shared.fresh()

    def call(self, rel, qual, kwargs):
        return self._it().call(rel, qual, **kwargs)


def check(ctx):
    ctx.exhaustive = True
    ctx.bounds.append("loops unrolled once in path enumeration; the two decision tables enumerate their abstract domains completely; the HttpStream model is explored to a fix-point")
    ctx.rule("R01.1", "expected_http_body_size decision table == RFC 9112 6.3")
    ctx.rule("R01.2", "validate_headers rejection set == reference; regex languages == RFC grammar; TE vocabulary")
    ctx.rule("R01.3", "validation happens before anything is forwarded; rejection path shape; validate_headers called iff option on")
    ctx.rule("R01.4", "reader/writer framing agreement (body reader table, chunked predicates, chunk literals)")
    ctx.rule("R01.5", "header parse errors close + report and never start a body reader")
    ctx.rule("R01.6", "Expect: 100-continue is tested on every forwarding path of state_wait_for_request_headers and removed when answered (an interim 100 from upstream would desync responses)")
    m = ctx.model
    rec_re = _RecRe()
    it = _PI(m, re_module=rec_re)
    ctx.func(READ, "expected_http_body_size")
    ctx.func(VAL, "validate_headers")
    ctx.func(VAL, "parse_transfer_encoding")
    ctx.func(VAL, "parse_content_length")
    ctx.trust("re (whitelisted literal-pattern operations), str/bytes methods")
    ctx.trust("model of mitmproxy.http.Headers reads (case-insensitive get joining with ', ', .fields)")

    # ---- R01.1
    bad = 0
    cells = 0
    # status / method representatives: one per class of RFC 9112 6.3, the boundaries of the classes, and - so that a wrong row added
    # for any particular code or method is seen - every status-like integer and method-like string literal the function itself mentions
    # (with its neighbours)
    fn_ebs = m.func(READ, "expected_http_body_size")
    lit_status = {c.value for c in ast.walk(fn_ebs) if isinstance(c, ast.Constant) and type(c.value) is int and 100 <= c.value <= 599}
    statuses = sorted({100, 101, 199, 200, 201, 203, 204, 205, 206, 299, 300, 301, 303, 304, 305, 400, 404, 500, 599} | {v + d for v in lit_status for d in (-1, 0, 1) if 100 <= v + d <= 599})
    lit_methods = {c.value.upper() for c in ast.walk(fn_ebs) if isinstance(c, ast.Constant) and isinstance(c.value, str) and c.value.isalpha() and c.value.isupper() and 3 <= len(c.value) <= 8}
    methods = sorted({"GET", "HEAD", "CONNECT", "POST", "OPTIONS"} | lit_methods)
    for kind in ("request", "response"):
        for method in methods:
            for status in ((None,) if kind == "request" else statuses):
                for te, cl in itertools.product(TE_CLASSES, CL_CLASSES):
                    want = ref_body_size(kind, method, status, te, cl)
                    h = headers_of(TE_CLASSES[te], CL_CLASSES[cl])
                    req = _PRec("Request", method=method, headers=h if kind == "request" else headers_of(None, None))
                    resp = None if kind == "request" else _PRec("Response", status_code=status, headers=h)
                    try:
                        got = it._it().call(READ, "expected_http_body_size", req, resp)
                    except (Raised, _PRaised) as r:
                        got = r.name
                    cells += 1
                    ctx.cells += 1
                    if want == "dontcare":
                        continue
                    if got != want or type(got) is not type(want):
                        bad += 1
                        cell = f"{kind} method={method} status={status} TE={te} CL={cl}"
                        ctx.fail("R01.1", (READ, "expected_http_body_size", m.func(READ, "expected_http_body_size")), cell,
                                 f"returns {got!r}, RFC 9112 6.3 says {want!r}: mitmproxy would frame this message differently from a compliant peer")
                    if cells in (5, 77, 300):
                        ctx.sample({"cell": f"{kind} {method} {status} TE={te} CL={cl}", "result": repr(got), "reference": repr(want)})
    ctx.require(cells >= 21 * 5 * (1 + 19), f"expected at least {21 * 5 * 20} framing cells, enumerated {cells}")
    if not bad:
        ctx.ok("R01.1", f"{cells} cells equal the RFC 9112 6.3 reference")

    # ---- R01.2 table
    del rec_re.uses[:]
    bad = 0
    cells2 = 0
    te_lists = {"none": [], "chunked": [b"chunked"], "gzip+chunked": [b"gzip, chunked"], "gzip": [b"gzip"], "identity": [b"identity"], "unknown": [b"bogus"],
                "nonascii-fold": ["chun\u212aed".encode()], "two": [b"chunked", b"chunked"]}
    cl_lists = {"none": [], "valid": [b"12"], "invalid": [b"1e3"], "two-equal": [b"12", b"12"], "leading-zero": [b"012"]}
    fn_val = m.func(VAL, "validate_headers")
    val_lit = {c.value for c in ast.walk(fn_val) if isinstance(c, ast.Constant) and type(c.value) is int and 100 <= c.value <= 599}
    val_statuses = sorted({100, 101, 199, 200, 204, 205, 304, 404} | {v + d for v in val_lit for d in (-1, 0, 1) if 100 <= v + d <= 599})
    for kind in ("request", "response"):
        for http11 in (True, False):
            for status in ((None,) if kind == "request" else val_statuses):
                for te, cl in itertools.product(te_lists, cl_lists):
                    for badname in (False, True):
                        fields = [(b"Transfer-Encoding", v) for v in te_lists[te]] + [(b"content-length", v) for v in cl_lists[cl]] + [(b"X-Ok", b"1")]
                        if badname:
                            fields.append((b"Bad Name", b"x"))
                        msg = _PRec("Request" if kind == "request" else "Response", _bases=("Message",), headers=HeadersModel(fields), is_http11=http11,
                                  http_version="HTTP/1.1" if http11 else "HTTP/1.0", status_code=status)
                        try:
                            it._it().call(VAL, "validate_headers", msg)
                            got = "accept"
                        except (Raised, _PRaised) as r:
                            got = "reject" if r.name == "ValueError" else f"raises {r.name}"
                        n_te, n_cl = len(te_lists[te]), len(cl_lists[cl])
                        reject = (
                            badname
                            or (n_te and n_cl)
                            or n_te > 1
                            or (n_te and not http11)
                            or (n_te and kind == "response" and (100 <= status <= 199 or status == 204))
                            or (n_te and te in ("unknown", "nonascii-fold"))
                            or (n_te and kind == "request" and te in ("gzip", "identity"))
                            or (not n_te and n_cl > 1)
                            or (not n_te and cl in ("invalid", "leading-zero"))
                        )
                        want = "reject" if reject else "accept"
                        cells2 += 1
                        ctx.cells += 1
                        if got != want:
                            bad += 1
                            cell = f"{kind} http11={http11} status={status} TE={te} CL={cl} invalid-name={badname}"
                            ctx.fail("R01.2", (VAL, "validate_headers", m.func(VAL, "validate_headers")), cell,
                                     f"validate_headers gives '{got}', the reference says '{want}' (an ambiguous framing would be forwarded / a valid message refused)")
                        if cells2 in (9, 200):
                            ctx.sample({"cell": f"{kind} http11={http11} status={status} TE={te} CL={cl} badname={badname}", "result": got})
    ctx.require(cells2 >= 2 * 2 * 40 * (1 + 8), f"expected at least {2 * 2 * 40 * 9} validation cells, enumerated {cells2}")
    if not bad:
        ctx.ok("R01.2", f"{cells2} cells: rejection set equals the reference")
    # ---- R01.2, the validity predicates, by *role*: the header-name predicate is whatever validate_headers applies to the field names,
    # the Content-Length predicate whatever parse_content_length applies to its argument (bytes and str).  Two decisions each:
    #  (a) a boundary sample of hostile inputs is run through the interpreted functions and must be accepted / refused like the RFC grammar;
    #  (b) every regular expression that was applied to such a value (recorded by the `re` stand-in: the private constant's name, how the
    #      pattern text is assembled and where it is compiled do not matter) must have exactly the RFC *language*, anchored for the
    #      matching method used (fullmatch | match + end anchor | search + both anchors).
    import re as _re
    from re import _constants as _sc  # type: ignore[attr-defined]

    name_subjects = {n.lower() for n in (b"Transfer-Encoding", b"content-length", b"X-Ok", b"Bad Name")}
    cl_subjects = {v for vs in cl_lists.values() for v in vs}
    uses_name = {(p_, f_, how) for p_, f_, how, subj in rec_re.uses if isinstance(subj, (bytes, bytearray)) and bytes(subj).lower() in name_subjects}
    uses_cl = {(p_, f_, how) for p_, f_, how, subj in rec_re.uses if isinstance(subj, (bytes, bytearray)) and bytes(subj) in cl_subjects}
    del rec_re.uses[:]
    ctx.func(VAL, "parse_content_length")

    def _parse_cl(v):
        try:
            r = it._it().call(VAL, "parse_content_length", v)
        except (Raised, _PRaised) as r_:
            return "reject" if r_.name == "ValueError" else f"raises {r_.name}"
        return r

    tchars = set(b"!#$%&'*+-.^_`|~0123456789ABCDEFGHIJKLMNOPQRSTUVWXYZabcdefghijklmnopqrstuvwxyz")
    ref_cl = _re.compile(r"(?:0|[1-9][0-9]*)\Z", _re.ASCII)
    cl_samples = ["", "0", "00", "01", "1", "7", "10", "12", "109", "9" * 25, "+1", "-1", "+0", "-0", " 1", "1 ", "1\t", "\t1", "1e3", "0x10", "0b1", "1_0", "1.0", "1,2", "12a", "a12", "1 2",
                  "12;", "12\x00", "\uff11\uff12", "\u0661\u0662", "\u00b2", "1\u0662", "0\u0660"]
    badcl = []
    for sv in cl_samples:
        for v in (sv, sv.encode("utf8")):
            want = int(sv) if ref_cl.match(sv) else "reject"
            got = _parse_cl(v)
            ctx.cells += 1
            if got != want or type(got) is not type(want):
                badcl.append(f"parse_content_length({v!r}) -> {got!r}, the RFC grammar says {want!r}")
    str_probe = [_parse_cl("12"), _parse_cl("1e3")]
    uses_cl_str = {(p_, f_, how) for p_, f_, how, subj in rec_re.uses if isinstance(subj, str)}
    uses_cl |= {(p_, f_, how) for p_, f_, how, subj in rec_re.uses if isinstance(subj, (bytes, bytearray))}
    ctx.check(not badcl and str_probe == [12, "reject"], "R01.2", (VAL, "parse_content_length", m.func(VAL, "parse_content_length")), "Content-Length grammar (boundary sample)",
              "a Content-Length value is judged differently from 1*DIGIT without sign/space/leading zero: " + "; ".join(badcl[:3]), desc=f"parse_content_length == RFC grammar on {2 * len(cl_samples)} boundary inputs")
    badnm = []
    del rec_re.uses[:]
    probes = [b""] + [nm for c in range(256) if c not in (10, 13) for nm in (bytes([c]), b"A" + bytes([c]) + b"b")]
    # (CR / LF never reach validate_headers inside a name: _read_headers splits on them - left undecided)
    for nm in probes:
        msg = _PRec("Request", _bases=("Message",), headers=HeadersModel([(b"X-Ok", b"1"), (nm, b"x")]), is_http11=True, http_version="HTTP/1.1", status_code=None)
        try:
            it._it().call(VAL, "validate_headers", msg)
            got = "accept"
        except (Raised, _PRaised) as r:
            got = "reject" if r.name == "ValueError" else f"raises {r.name}"
        ctx.cells += 1
        want = "accept" if nm and set(nm) <= tchars else "reject"
        if got != want:
            badnm.append(f"field name {nm!r}: {got}, RFC 9110 token says {want}")
    probe_names = {nm.lower() for nm in probes} | {b"x-ok"}
    uses_name |= {(p_, f_, how) for p_, f_, how, subj in rec_re.uses if isinstance(subj, (bytes, bytearray)) and bytes(subj).lower() in probe_names}
    ctx.check(not badnm, "R01.2", (VAL, "validate_headers", fn_val), "field-name grammar (every octet)", "a field name is judged differently from token = 1*tchar: " + "; ".join(badnm[:3]),
              desc="validate_headers: field name == 1*tchar for every octet (alone and inside a name)")

    def _anchored(pat, flags, how):
        """is `pat` applied with method `how` a whole-string test?  Structural (top-level anchors) with a behavioural fallback."""
        if how == "fullmatch":
            return True
        items = list(rx.parse(pat, flags))
        ends = {getattr(_sc, "AT_END", None), getattr(_sc, "AT_END_STRING", None)}
        begins = {getattr(_sc, "AT_BEGINNING", None), getattr(_sc, "AT_BEGINNING_STRING", None)}
        multiline = bool((rx.parse(pat, flags).state.flags | flags) & _re.MULTILINE)
        end_ok = bool(items) and items[-1][0] is _sc.AT and items[-1][1] in ends and not multiline
        begin_ok = how == "match" or (bool(items) and items[0][0] is _sc.AT and items[0][1] in begins and not multiline)
        if end_ok and begin_ok:
            return True
        # behavioural fallback (the pattern is anchored in some other way, e.g. inside a group): no accepted word may be extended
        cp = _re.compile(pat, flags)
        probe = getattr(cp, how)
        is_b = isinstance(pat, bytes)
        words = ["0", "7", "12", "X-Ok", "a"]
        junk = [" ", "x", "+", ":", "\x00", "\t"]
        for w in words:
            ww = w.encode() if is_b else w
            if probe(ww) is None:
                continue
            for j in junk:
                jj = j.encode() if is_b else j
                if (probe(ww + jj) is not None and getattr(cp, "fullmatch")(ww + jj) is None) or (how == "search" and probe(jj + ww) is not None and getattr(cp, "fullmatch")(jj + ww) is None):
                    return False
        return True

    tchar = rb"[!#$%&'*+.^_`|~0-9A-Za-z-]+"
    n_rx = 0
    for role, uses, ref, where_fn in (("field-name", uses_name, tchar, "validate_headers"), ("Content-Length (bytes)", uses_cl, rb"0|[1-9][0-9]*", "parse_content_length"),
                                      ("Content-Length (str)", uses_cl_str, r"0|[1-9][0-9]*", "parse_content_length")):
        for pat, flags, how in sorted(uses, key=repr):
            if isinstance(ref, bytes) != isinstance(pat, bytes):
                ref_ = ref.decode() if isinstance(ref, bytes) else ref.encode()
            else:
                ref_ = ref
            a_, b_ = rx.nfa_of(pat, flags), rx.nfa_of(ref_, _re.ASCII if isinstance(ref_, str) else 0)
            only_code, only_ref = rx.compare(a_, b_)
            n_rx += 1
            ctx.check(only_code is None and only_ref is None, "R01.2", (VAL, where_fn, m.func(VAL, where_fn)), f"{role} pattern language",
                      f"the regular expression applied to a {role} value accepts {rx.show(only_code)} which the RFC grammar does not / misses {rx.show(only_ref)}", desc=f"{role} regex == RFC grammar")
            ctx.check(_anchored(pat, flags, how), "R01.2", (VAL, where_fn, m.func(VAL, where_fn)), f"{role} pattern anchoring",
                      f"the pattern is used with .{how}() but is not anchored accordingly: a valid prefix followed by garbage would pass", desc=f"{role} regex anchored for .{how}()")
    if not n_rx:
        ctx.note("R01.2: no regular expression is applied to field names / Content-Length values on this tree; the predicates were decided on the boundary samples only")
    # the transfer-coding vocabulary = what parse_transfer_encoding accepts (normalised), probed with the reference codings, their
    # combinations, other registered / plausible codings and every string literal validate.py itself mentions
    ctx.func(VAL, "parse_transfer_encoding")
    ref_vocab = {"chunked", "compress,chunked", "deflate,chunked", "gzip,chunked", "compress", "deflate", "gzip", "identity"}
    mod = m.module(VAL)
    words = {"chunked", "compress", "deflate", "gzip", "identity", "br", "zstd", "x-gzip", "x-compress", "trailers", "bogus", "", "*", "chunk", "none"}
    lits = {c.value.strip().lower() for c in ast.walk(mod.tree) if isinstance(c, ast.Constant) and isinstance(c.value, str) and 0 < len(c.value) <= 24 and "\n" not in c.value and " " not in c.value.strip()}
    words |= {w for l_ in lits for w in l_.split(",")} | lits
    cands = set(words) | {f"{a_},{b_}" for a_ in words for b_ in ("chunked", "gzip", "identity")} | {f"chunked,{a_}" for a_ in words} | {"gzip,deflate,chunked", "chunked,chunked"} | lits
    accepted = set()
    for cand in sorted(cands):
        try:
            r = it._it().call(VAL, "parse_transfer_encoding", cand)
        except (Raised, _PRaised) as r_:
            ctx.require(r_.name == "ValueError", f"parse_transfer_encoding({cand!r}) raises {r_.name}")
            continue
        finally:
            ctx.cells += 1
        accepted.add(cand)
        ctx.require(r == cand, f"parse_transfer_encoding({cand!r}) returns {r!r}: normalisation not modelled")
    ctx.check(accepted == ref_vocab, "R01.2", (VAL, "parse_transfer_encoding", m.func(VAL, "parse_transfer_encoding")), "transfer-coding vocabulary",
              f"accepted codings differ from the 8 reference codings: extra {sorted(accepted - ref_vocab)}, missing {sorted(ref_vocab - accepted)}", desc=f"TE vocabulary == 8 codings ({len(cands)} candidates probed)")

    # ---- R01.3
    class ValidateFirst(Lifecycle):
        def step(self, mon, ev, trace, env, report, exc=None):
            if ev[1] in ("RequestHeaders", "ResponseHeaders"):
                aborted = ("hook", "HttpErrorHook") in trace
                seen_ci = False
                for e in trace:
                    if e[0] == "ci":
                        seen_ci = True
                    elif not seen_ci:
                        if e[0] == "getconn" or (e[0] == "send" and not e[1].endswith("ProtocolError")):
                            report(f"R01.3 {ev[1]}: {e} happens before header validation")
                        if e[0] == "hook" and not aborted:
                            report(f"R01.3 {ev[1]}: hook {e[1]} fires before header validation on a path that continues")
                if not seen_ci and not aborted and any(e[0] in ("hook", "send", "getconn") for e in trace):
                    report(f"R01.3 {ev[1]}: path without header validation: {[e for e in trace if e[0] in ('hook', 'send', 'getconn')][:4]}")
            return Lifecycle.step(self, mon, ev, trace, env, lambda _m: None, exc)

    spec = HttpStreamSpec(m)
    entry = ctx.func(REL, "HttpStream._handle_event")
    res = explore(spec, entry, init_env(), ValidateFirst())
    ctx.paths += res["transitions"]
    ctx.require(res["states"] >= 40, "HttpStream exploration collapsed")
    msgs = sorted({v["message"] for v in res["violations"] if v["message"].startswith("R01.3")})
    for msg in msgs:
        ctx.fail("R01.3", (REL, "HttpStream", entry), msg[6:], "an unvalidated (possibly ambiguous) message head is processed or forwarded")
    if not msgs:
        ctx.ok("R01.3", f"{res['transitions']} transitions: check_invalid precedes every hook/forward on header events")
    # rejection / accept path of check_invalid and validate_request, decided by *interpreting* them (mitmlint.pyint) in worlds where
    # validate_headers - stubbed on its definition - refuses or accepts the head: parameter / local names, helper extraction, `if` shape
    # and how the option is read do not matter.  With the option on, the message that is about to be processed must be the one validated.
    ci = ctx.func(REL, "HttpStream.check_invalid")
    vr = ctx.func(REL, "validate_request")
    HTTPF = "mitmproxy/http.py"
    FLOWF = "mitmproxy/flow.py"
    ctx.trust("mitmproxy.http.Request/Response properties are interpreted over abstract message data; flow.Error is a plain record")

    def _msg3(kind):
        common = dict(http_version=b"HTTP/1.1", headers=HeadersModel([(b"Host", b"example.org")]), content=b"", trailers=None, timestamp_start=0.0, timestamp_end=None)
        if kind == "Request":
            d = _PRec("RequestData", method=b"GET", scheme=b"http", authority=b"example.org", path=b"/", host="example.org", port=80, **common)
        else:
            d = _PRec("ResponseData", status_code=200, reason=b"OK", **common)
        return _PRec(kind, _bases=("Message",), _impl=(HTTPF, kind), data=d)

    def _world3(refuse, option_on):
        seen = []

        def vh(message, *a, **k):
            seen.append(message)
            if refuse:
                raise _PRaised("ValueError", "ambiguous framing")

        cst = {id(m.cls(FLOWF, "Error")): (lambda msg=None, *a, **k: _PRec("Error", msg=msg))} if m.has(FLOWF, "Error") else {}
        it3 = _RoleInterp(m, fstubs={id(fn_val): vh}, cstubs=cst, trusted_modules={"logging": _Log()})
        mode = it3.getattr(_PClassRef(m.module(REL), m.cls(REL, "HTTPMode")), "regular", None, 0)
        fl = _PRec("HTTPFlow", request=_msg3("Request"), response=_msg3("Response"), error=None, live=True, server_conn=_PRec("Server", _bases=("Connection",)), client_conn=_PRec("Client", _bases=("Connection",)))
        me = _PRec("HttpStream", _bases=("Layer",), _impl=(REL, "HttpStream"), flow=fl, mode=mode, stream_id=1, client_state=None, server_state=None,
                   context=_PRec("Context", options=_PRec("Options", validate_inbound_headers=option_on), client=fl.client_conn, server=fl.server_conn))
        return it3, me, fl, mode, seen

    def _fields(rec):
        # (pyint fills dataclass fields positionally and counts the annotated class attribute Command.blocking as one: look at the values)
        return [v for k_, v in rec.__dict__.items() if not k_.startswith("_")]

    def _drive(it3, g):
        out, k = [], 0
        while True:
            try:
                kind_, v = it3.run_gen_until(g, k)
            except _PRaised as r:
                return out + [f"<raises {r.name}>"], None
            if kind_ == "stop":
                return out, v
            out.append(v)
            k += 1

    for request in (True, False):
        it3, me, fl, mode, seen = _world3(True, True)
        out, ret = _drive(it3, it3.method(me, "check_invalid", request))
        ctx.paths += 1
        names = [getattr(c, "_cls", repr(c)) for c in out]
        sends = [c for c in out if isinstance(c, _PRec) and c._cls == "SendHttp"]
        hooks = [n for n in names if n.endswith("Hook")]
        the_msg = fl.request if request else fl.response
        st_name = lambda v: getattr(getattr(v, "node", None), "name", None)  # noqa: E731
        good = (
            ret is True
            and bool(seen) and all(x is the_msg for x in seen)
            and len(sends) == 1 and any(isinstance(v, _PRec) and v._cls == "ResponseProtocolError" for v in _fields(sends[0])) and any(v is fl.client_conn for v in _fields(sends[0]))
            and hooks == (["HttpRequestHeadersHook", "HttpErrorHook"] if request else ["HttpErrorHook"])
            and st_name(me.client_state) == "state_errored" and st_name(me.server_state) == "state_errored"
            and fl.live is False
            and fl.error is not None
            and (request or any(isinstance(c, _PRec) and c._cls == "CloseConnection" and getattr(c, "connection", None) is fl.server_conn for c in out))
            and not [n for n in names if n not in ("SendHttp", "CloseConnection", "Log") and not n.endswith("Hook")]
        )
        ctx.check(good, "R01.3", (REL, "HttpStream.check_invalid", ci), f"rejection path request={request}",
                  f"an invalid message must end the flow with an error and be answered with a protocol error only; got commands={names} returns={ret!r} validated={len(seen)} live={fl.live!r}", desc=f"rejection path shape request={request}")
        it3, me, fl, mode, seen = _world3(False, True)
        out, ret = _drive(it3, it3.method(me, "check_invalid", request))
        ctx.paths += 1
        the_msg = fl.request if request else fl.response
        quiet = ret is False and not out and fl.error is None and fl.live is True and me.client_state is None and me.server_state is None
        ctx.check(quiet and bool(seen) and all(x is the_msg for x in seen), "R01.3", (REL, "HttpStream.check_invalid", ci), f"accept path request={request}",
                  f"with validate_inbound_headers on, a valid {'request' if request else 'response'} must be validated and then accepted without side effects; commands={[getattr(c, '_cls', c) for c in out]} returns={ret!r} validated={len(seen)}",
                  desc=f"accept path: validated, silent, request={request}")
    it3, me, fl, mode, seen = _world3(True, True)
    try:
        got = it3.call(REL, "validate_request", mode, fl.request, True)
    except _PRaised as r:
        got = None
        ctx.note(f"validate_request raises {r.name} when validate_headers refuses")
    ctx.check(isinstance(got, str) and bool(got) and bool(seen) and all(x is fl.request for x in seen), "R01.3", (REL, "validate_request", vr), "validate_inbound_headers -> validate_headers(request)",
              f"requests are not validated although the option is on (validate_request returns {got!r} for a request validate_headers refuses)", desc="validate_request refuses what validate_headers refuses when on")
    ctx.expect_instances("R01.3", 6)

    # ---- R01.6  Expect: 100-continue is consumed by mitmproxy and never forwarded
    # mitmproxy answers the expectation itself and has no handling for an interim 100 response from upstream: a forwarded
    # `Expect: 100-continue` makes a compliant origin send `100 Continue` + the final response, which mitmproxy records/relays as
    # two final responses (the second is attributed to the next request on the connection - a response desync).
    swr = ctx.func(REL, "HttpStream.state_wait_for_request_headers")

    def _r016_by_paths():
        _res_cache: dict = {}

        def _res(call):
            f = call.func
            if isinstance(f, ast.Attribute) and isinstance(f.value, ast.Name) and f.value.id == "self":
                if f.attr not in _res_cache:
                    _res_cache[f.attr] = None
                    if m.has(REL, "HttpStream." + f.attr):
                        d = m.func(REL, "HttpStream." + f.attr)
                        # only helpers that deal with the Expect header are seen through (extract-method refactors of the branch)
                        if isinstance(d, (ast.FunctionDef, ast.AsyncFunctionDef)) and any(isinstance(c, ast.Constant) and isinstance(c.value, str) and c.value.lower() in ("expect", "100-continue") for c in ast.walk(d)):
                            _res_cache[f.attr] = d
                return _res_cache[f.attr]
            return None

        def _mentions_expect(text):
            return "expect" in text.lower() and ("headers" in text or "100-continue" in text)

        def _keep6(e):
            if e[0] == "cond":
                return _mentions_expect(e[1])
            if e[0] == "call":
                return e[1].endswith("headers.pop") or e[1].endswith("headers.__delitem__")
            if e[0] == "del":
                return "headers[" in e[1] and "expect" in e[1].lower()
            if e[0] == "assign":
                return e[1] == "self.server_state"
            return False

        _drops: dict = {}

        def _drop_markers(node):
            k = id(node)
            if k not in _drops:
                out = []
                for n in ast.walk(node) if not isinstance(node, (ast.If, ast.While, ast.For, ast.Try, ast.With, ast.FunctionDef)) else []:
                    if isinstance(n, ast.Call) and isinstance(n.func, ast.Attribute) and n.func.attr == "pop" and norm(n.func.value).endswith("request.headers") and n.args and isinstance(n.args[0], ast.Constant) and str(n.args[0].value).lower() == "expect":
                        out.append(("drop-expect",))
                    if isinstance(n, ast.Delete):
                        for t in n.targets:
                            if isinstance(t, ast.Subscript) and norm(t.value).endswith("request.headers") and isinstance(t.slice, ast.Constant) and str(t.slice.value).lower() == "expect":
                                out.append(("drop-expect",))
                _drops[k] = (node, out)
            return _drops[k][1]

        class ExpectSpec(GenericSpec):
            def events(self, node, st):
                # keep the popped key: ('call', '...headers.pop') carries no arguments, so add a marker for the expect key
                return list(super().events(node, st)) + _drop_markers(node)

        tr6, _ = traces_of(swr, ExpectSpec(keep=lambda e: e[0] == "drop-expect" or _keep6(e), resolver=_res, record_conds=True))
        forwards = [t for t, how, st in tr6 if how == "return" and any(e[0] == "assign" and e[1] == "self.server_state" for e in t)]
        ctx.require(forwards, "state_wait_for_request_headers: no path arms server_state (anchor changed)")
        ctx.paths += len(tr6)
        unsafe = []
        for t in forwards:
            dropped = ("drop-expect",) in t
            tests = [e for e in t if e[0] == "cond" and _mentions_expect(e[1])]
            absent = any(not e[2] and "100-continue" in e[1] or (not e[2] and "in " in e[1]) for e in tests)
            if not (dropped or (tests and absent)):
                unsafe.append(t)
        ctx.check(not unsafe, "R01.6", (REL, "HttpStream.state_wait_for_request_headers", swr), "Expect: 100-continue consumed before the request is forwarded",
                  f"{len(unsafe)} of {len(forwards)} forwarding path(s) neither test the request's Expect header nor remove it: `Expect: 100-continue` reaches the upstream server, "
                  "whose interim 100 response mitmproxy would relay/record as a final response (response desync)", desc=f"{len(forwards)} forwarding paths test or strip Expect")
        sends100 = [t for t in forwards if any(e[0] == "cond" and e[2] and "100-continue" in e[1] for e in t)]
        ctx.check(bool(sends100) and all(("drop-expect",) in t for t in sends100), "R01.6", (REL, "HttpStream.state_wait_for_request_headers", swr), "Expect header removed when mitmproxy answers 100 Continue itself",
                  "on a path where the expectation is answered by mitmproxy the header is not removed from the forwarded request", desc="expect header popped on the 100-continue path")

    # Decided by *interpreting* state_wait_for_request_headers (mitmlint.pyint) for every combination of Expect header x streaming x
    # end_stream x mode; the sub-generators that are other rules' subject (check_invalid, check_killed, check_body_size,
    # start_request_stream, handle_connect) and Response.make / HTTPFlow are stand-ins anchored on their definitions.  Named conditions,
    # helpers and `del` / `pop` spellings are followed.  Only if the function leaves the interpreted subset is the older path rule used.
    from ..pyint import DictRec as _PDict

    def _r016_by_interpretation():
        HTTPF_ = "mitmproxy/http.py"
        bad_fwd, bad_ans, n_fwd, n_ans = [], [], 0, 0
        for expect in (None, "100-continue", "100-Continue"):
            for stream in (False, True):
                for end_stream in (False, True):
                    for mode_name in ("regular", "upstream", "transparent"):
                        seen_at_stream = []
                        hdrs = _PDict("Headers", items=({"Expect": expect} if expect else {}) | {"Host": "example.org"}, case_insensitive=True)
                        req = _PRec("Request", method="GET", host="example.org", port=80, scheme="http", authority="example.org", path="/", headers=hdrs, stream=stream, is_http2=False, is_http3=False,
                                    host_header="example.org", http_version="HTTP/1.1", data=_PRec("RequestData", host="example.org", port=80))
                        empty = lambda *a, **k: iter(())  # noqa: E731

                        def srs(*a, **k):
                            seen_at_stream.append(hdrs._items.copy())
                            return iter(())

                        fst = {}
                        for name, stub in (("check_invalid", empty), ("check_killed", empty), ("check_body_size", empty), ("handle_connect", empty), ("start_request_stream", srs)):
                            if m.has(REL, "HttpStream." + name):
                                fst[id(m.func(REL, "HttpStream." + name))] = stub
                        if m.has(HTTPF_, "Response.make"):
                            fst[id(m.func(HTTPF_, "Response.make"))] = lambda status_code=200, *a, **k: _PRec("Response", status_code=status_code, headers=_PDict("Headers", items={"content-length": "0"}, case_insensitive=True))
                        cst = {id(m.cls(HTTPF_, "HTTPFlow")): (lambda *a, **k: _PRec("HTTPFlow", request=None, response=None, error=None, live=False))} if m.has(HTTPF_, "HTTPFlow") else {}
                        it6 = _RoleInterp(m, fstubs=fst, cstubs=cst, trusted_modules={"logging": _Log()})
                        mode = it6.getattr(_PClassRef(m.module(REL), m.cls(REL, "HTTPMode")), mode_name, None, 0)
                        client = _PRec("Client", _bases=("Connection",), tls=False, proxy_mode=_PRec("RegularMode", _bases=("ProxyMode",)))
                        server = _PRec("Server", _bases=("Connection",), tls=False, address=("example.org", 80))
                        me = _PRec("HttpStream", _bases=("Layer",), _impl=(REL, "HttpStream"), mode=mode, stream_id=1, client_state=None, server_state=None, flow=None,
                                   context=_PRec("Context", client=client, server=server, options=_PRec("Options", keep_host_header=False, validate_inbound_headers=True, store_streamed_bodies=False)))
                        ev = _PRec("RequestHeaders", _bases=("HttpEvent", "Event"), stream_id=1, request=req, end_stream=end_stream, replay_flow=None)
                        try:
                            out = list(it6.method(me, "state_wait_for_request_headers", ev))
                        except _PRaised as r:
                            raise AnalysisError(f"state_wait_for_request_headers raises {r.name} in the interpreted world")
                        ctx.cells += 1
                        forwarded = me.server_state is not None or bool(seen_at_stream)
                        if not forwarded:
                            continue
                        n_fwd += 1
                        cell = f"Expect={expect!r} stream={stream} end_stream={end_stream} mode={mode_name}"
                        views = seen_at_stream + [hdrs._items]
                        still = any(str(v).lower() == "100-continue" for view in views for k_, v in view.items() if str(k_).lower() == "expect")
                        if still:
                            bad_fwd.append(cell)
                        answered = [c for c in out if isinstance(c, _PRec) and c._cls == "SendHttp" and any(v is client for v in c.__dict__.values())
                                    and any(isinstance(v, _PRec) and v._cls == "ResponseHeaders" and any(isinstance(x, _PRec) and getattr(x, "status_code", None) == 100 for x in v.__dict__.values()) for v in c.__dict__.values())]
                        n_ans += bool(answered)
                        if answered and still:
                            bad_ans.append(cell)
        ctx.require(n_fwd >= 24, f"state_wait_for_request_headers: only {n_fwd} interpreted worlds forward the request (anchor changed)")
        swr_ = m.func(REL, "HttpStream.state_wait_for_request_headers")
        ctx.check(not bad_fwd, "R01.6", (REL, "HttpStream.state_wait_for_request_headers", swr_), "Expect: 100-continue consumed before the request is forwarded",
                  f"in {len(bad_fwd)} of {n_fwd} forwarding world(s), e.g. [{(bad_fwd or [''])[0]}], `Expect: 100-continue` is still in the request that goes upstream: the origin's interim 100 response "
                  "would be relayed/recorded as a final response (response desync)", desc=f"{n_fwd} forwarding worlds: Expect: 100-continue never reaches the server")
        ctx.check(n_ans > 0 and not bad_ans, "R01.6", (REL, "HttpStream.state_wait_for_request_headers", swr_), "Expect header removed when mitmproxy answers 100 Continue itself",
                  f"in {len(bad_ans)} of {n_ans} world(s) where mitmproxy answers the expectation itself, e.g. [{(bad_ans or [''])[0]}], the header is not removed from the forwarded request", desc=f"expect header gone in the {n_ans} worlds answered with 100 Continue")

    try:
        _r016_by_interpretation()
    except AnalysisError as e:
        ctx.note(f"R01.6: interpretation not possible ({e}); decided by path enumeration instead")
        _r016_by_paths()
    ctx.expect_instances("R01.6", 2)

    # ---- R01.4
    # (the h11 readers are the trusted stand-ins of _H11Model, reached through whatever import style _http1.py uses)
    itr = _PI(m)
    for arg, want in ((None, "Chunked"), (-1, "Http10"), (0, ("ContentLength", 0)), (12, ("ContentLength", 12))):
        got = _reader_key(itr._it().call(H1, "make_body_reader", arg))
        ctx.cells += 1
        ctx.check(got == want, "R01.4", (H1, "make_body_reader", m.func(H1, "make_body_reader")), f"make_body_reader({arg!r})", f"yields {got!r}, expected {want!r}: body is read with a different framing than announced",
                  desc=f"make_body_reader({arg!r}) -> {want}")
    # writers: the framing Http1Client.send / Http1Server.send / assemble_body put on the wire, observed by interpreting their ASTs
    # (mitmlint.pyint; commands are recording stubs, mark_done / expected_http_body_size are stubbed) for every Transfer-Encoding class:
    # chunk frames <hex len>CRLF<data>CRLF and the last-chunk 0CRLFCRLF exactly when the header block announces chunked (never for the
    # end of a HEAD response), identity bytes otherwise.  Helpers, constants and match/if shape are followed by the interpreter.
    from ..pyint import DictRec as PDict
    from ..pyint import Interp as PInterp
    from ..pyint import Raised as PRaised
    from ..pyint import Rec as PRec

    class _Cmd:
        def __init__(self, name, data=None):
            self.name, self.data = name, data

        def __repr__(self):
            return f"{self.name}({self.data!r})" if self.data is not None else self.name

    # stand-ins anchored on the definitions (commands.py classes, every mark_done along the two classes' MROs, expected_http_body_size):
    # whatever name or import style the send() methods and their helpers use to reach them
    CMDS_ = "mitmproxy/proxy/commands.py"
    _send = lambda conn, data: _Cmd("SendData", data)  # noqa: E731
    _other = lambda name: (lambda *a, **k: _Cmd(name))  # noqa: E731
    w_cstubs = {id(ctx.model.cls(CMDS_, "SendData")): _send}
    for cname in ("CloseTcpConnection", "CloseConnection", "Log"):
        if m.has(CMDS_, cname):
            w_cstubs[id(m.cls(CMDS_, cname))] = _other(cname)
    w_fstubs = {id(fn_ebs): lambda *a, **k: 0}
    for cname in ("Http1Server", "Http1Client"):
        for _mod, c_ in m.mro(H1, cname):
            for st_ in c_.body:
                if isinstance(st_, ast.FunctionDef) and st_.name == "mark_done":
                    w_fstubs[id(st_)] = lambda *a, **k: iter([_Cmd("mark_done")])
    w_it = _RoleInterp(m, fstubs=w_fstubs, cstubs=w_cstubs, trusted_modules={"logging": _Log(), "h11": _H11Model})

    TE_W = {"absent": None, "chunked": "chunked", "gzip, chunked": "gzip, chunked", "Chunked": "Chunked", "identity": "identity", "gzip": "gzip"}
    DATA = b"hello, world"  # 12 bytes: the length is written in hex
    LAST = b"0\r\n\r\n"
    for qual, datak, eomk, recv in (("Http1Client.send", "RequestData", "RequestEndOfMessage", "request"), ("Http1Server.send", "ResponseData", "ResponseEndOfMessage", "response")):
        fn = ctx.func(H1, qual)
        where = (H1, qual, fn)
        cls = qual.split(".")[0]
        res = {"frame": [], "identity": [], "last": []}
        for te_name, te in TE_W.items():
            chunked = te is not None and "chunked" in te.lower()
            for method in ("GET", "HEAD"):
                def world():
                    hdr = PDict("Headers", items=({"transfer-encoding": te} if te is not None else {}), case_insensitive=True)
                    other = PDict("Headers", items={}, case_insensitive=True)
                    req = PRec("Request", method=method, headers=hdr if recv == "request" else other, is_http2=False, is_http3=False)
                    resp = PRec("Response", headers=hdr if recv == "response" else other, status_code=200)
                    return PRec(cls, _bases=("Http1Connection", "HttpConnection", "Layer"), _impl=(H1, cls), conn=PRec("Connection", state=3), request=req, response=resp, stream_id=1,
                                request_done=False, response_done=False)

                def run(kind, **attrs):
                    it = w_it.fresh()
                    ev = PRec(kind, _bases=("HttpEvent", "Event"), stream_id=1, **attrs)
                    try:
                        return [c for c in it.method(world(), "send", ev)]
                    except PRaised as r:
                        return [f"<raises {r.name}>"]

                sent = [c.data for c in run(datak, data=DATA) if isinstance(c, _Cmd) and c.name == "SendData"]
                ctx.cells += 1
                if chunked:
                    if sent not in ([b"c\r\n" + DATA + b"\r\n"], [b"C\r\n" + DATA + b"\r\n"]):
                        res["frame"].append(f"TE {te_name}: {datak}({DATA!r}) is written as {sent!r}")
                else:
                    if sent != [DATA]:
                        res["identity"].append(f"TE {te_name}: {datak}({DATA!r}) is written as {sent!r}")
                # an empty data event (a stream modifier that swallows a chunk) writes nothing: under chunked coding "0CRLFCRLF" would be
                # the last-chunk and end the message early (F-C01c, repaired in /repo f1f995324)
                out = run(datak, data=b"")
                sent = [c.data for c in out if isinstance(c, _Cmd) and c.name == "SendData"]
                ctx.cells += 1
                if sent or any(isinstance(c, str) for c in out):
                    res["frame" if chunked else "identity"].append(f"TE {te_name}: an empty {datak} is written as {sent!r} (expected nothing)")
                out = run(eomk)
                sent = [c.data for c in out if isinstance(c, _Cmd) and c.name == "SendData"]
                ctx.cells += 1
                want = [LAST] if chunked and not (recv == "response" and method == "HEAD") else []
                if sent != want or any(isinstance(c, str) for c in out):
                    res["last"].append(f"TE {te_name}, request method {method}: {eomk} writes {sent!r} (expected {want!r})")
        ctx.check(not res["frame"], "R01.4", where, f"{datak}: chunk frame", "a chunk is not framed as <hex length>CRLF<data>CRLF exactly when the headers announce chunked: " + "; ".join(res["frame"][:2]), desc=f"{qual}: chunk frame under chunked")
        ctx.check(not res["identity"], "R01.4", where, f"{datak}: identity body", "non-chunked body data is not sent unchanged: " + "; ".join(res["identity"][:2]), desc=f"{qual}: identity relay of non-chunked data")
        ctx.check(not res["last"], "R01.4", where, f"{eomk}: last-chunk", "the chunked terminator 0CRLFCRLF is not emitted exactly when the message is chunked (and not for HEAD responses): " + "; ".join(res["last"][:2]),
                  desc=f"{qual}: terminator exactly under chunked")
    # assemble_body (used for non-streamed serialisation / raw export)
    ab = ctx.func(ASM, "assemble_body")
    badab = []
    for te_name, te in TE_W.items():
        chunked = te is not None and "chunked" in te.lower()
        hdr = PDict("Headers", items=({"transfer-encoding": te} if te is not None else {}), case_insensitive=True)
        for chunks in ([DATA], [b"ab", b"", b"cde"]):
            it = PInterp(m)
            try:
                got = list(it.call(ASM, "assemble_body", hdr, list(chunks), None))
            except PRaised as r:
                got = [f"<raises {r.name}>"]
            ctx.cells += 1
            want = [b"%x\r\n%s\r\n" % (len(c), c) for c in chunks if c] + [LAST] if chunked else list(chunks)
            if b"".join(x if isinstance(x, bytes) else b"?" for x in got) != b"".join(want):
                badab.append(f"TE {te_name}, chunks {chunks!r}: {got!r}")
    ctx.check(not badab, "R01.4", (ASM, "assemble_body", ab), "assemble_body framing", "assemble_body frames the body differently from what the headers announce: " + "; ".join(badab[:2]), desc="assemble_body: chunked frames + terminator exactly under chunked")
    ctx.expect_instances("R01.4", 4 + 6 + 1)  # (+ 2 reader-side instances recorded with R01.5 below)

    # ---- R01.5 (+ the reader side of R01.4): read_headers of both connection classes is *interpreted* (mitmlint.pyint) in small
    # worlds - the head parser / the framing decision raise ValueError, or they succeed with each expected size - and the yielded
    # commands and the written attributes are judged.  Helpers (`self._send_error_page(..)`, `self.start_body(..)`), hoisted locals,
    # named constants (status_codes.BAD_REQUEST) and import style are followed by the interpreter.  The stand-ins are anchored on the
    # *definitions* read_request_head / read_response_head / expected_http_body_size / make_error_response / make_body_reader's readers.
    CMDS = "mitmproxy/proxy/commands.py"
    fn_mer = ctx.func(H1, "make_error_response")
    fn_rq, fn_rs = ctx.func(READ, "read_request_head"), ctx.func(READ, "read_response_head")
    ctx.func(H1, "make_body_reader")
    ctx.trust("h11's ReceiveBuffer / body readers (stand-ins: one complete head is buffered; a reader asks for more data), commands and events are plain records")

    class _Boom:
        def __init__(self):
            self.n = 0

        def __call__(self, *a, **k):
            self.n += 1
            raise _PRaised("ValueError", "malformed")

    def _names(out):
        return [(c._cls + ":" + c.event._cls if isinstance(c, _PRec) and c._cls == "ReceiveHttp" and isinstance(getattr(c, "event", None), _PRec) else getattr(c, "_cls", repr(c))) for c in out]

    for cls, head_fn, hdr_ev, err_ev in (("Http1Server", fn_rq, "RequestHeaders", "RequestProtocolError"), ("Http1Client", fn_rs, "ResponseHeaders", "ResponseProtocolError")):
        qual = cls + ".read_headers"
        fn = ctx.func(H1, qual)
        where = (H1, qual, fn)
        server = cls == "Http1Server"

        def world5():
            conn = _PRec("Client" if server else "Server", _bases=("Connection",), state=3, peername=("192.0.2.7", 51234), sockname=("192.0.2.1", 8080))
            req = _PRec("Request", method="GET", headers=headers_of(None, None), http_version="HTTP/1.1", is_http2=False, is_http3=False)
            me = _PRec(cls, _bases=("Http1Connection", "HttpConnection", "Layer"), _impl=(H1, cls), conn=conn, request=None if server else req, response=None, stream_id=1,
                       request_done=False, response_done=False, buf=_BufModel([b"GET / HTTP/1.1" if server else b"HTTP/1.1 200 OK", b"Host: example.org"]))
            return me, conn

        def interp5(head, size):
            msg = _PRec("Request" if server else "Response", method="GET", status_code=200, headers=headers_of(None, None), http_version="HTTP/1.1", is_http2=False, is_http3=False)
            head_stub = head if head is not None else (lambda *a, **k: msg)
            size_stub = size if callable(size) else (lambda *a, **k: size)
            return _RoleInterp(m, trusted_modules={"logging": _Log(), "h11": _H11Model},
                               fstubs={id(head_fn): head_stub, id(fn_ebs): size_stub, id(fn_mer): lambda status_code, message="": ("error-response", status_code)})

        def run5(it5, me, conn, via_state=False):
            ev = _PRec("DataReceived", _bases=("ConnectionEvent", "Event"), connection=conn, data=b"")
            try:
                g = it5.apply(me.__dict__["state"], [ev], {}, 0) if via_state else it5.method(me, "read_headers", ev)
                return list(g)
            except _PRaised as r:
                return [f"<raises {r.name}>"]

        for wname, head, size in (("head does not parse", _Boom(), 0), ("framing cannot be decided", None, _Boom())):
            me, conn = world5()
            it5 = interp5(head, size)
            object.__setattr__(me, "state", it5.getattr(me, "read_headers", None, 0))
            out = run5(it5, me, conn)
            boom = head if head is not None else size
            ctx.require(boom.n > 0, f"{qual}: the interpreted path never reached the stubbed parser ({wname})")
            names = _names(out)
            ctx.paths += 1
            closes = [c for c in out if isinstance(c, _PRec) and c._cls == "CloseConnection" and getattr(c, "connection", None) is conn]
            started = "body_reader" in me.__dict__ or ("ReceiveHttp:" + hdr_ev in names and not server)
            problems = []
            if not closes:
                problems.append("the connection is not closed")
            if started:
                problems.append("a body reader is started / the head is reported as good")
            if server:
                answers = [c.data for c in out if isinstance(c, _PRec) and c._cls == "SendData" and getattr(c, "connection", None) is conn]
                if ("error-response", 400) not in answers:
                    problems.append(f"the client is not answered with make_error_response(400, ..) (sent: {answers!r})")
                # the state machine must be finished: whatever else is (or still sits) in the buffer is not parsed as a next request
                me2_it = interp5(None, 0)
                again = _names(run5(me2_it, me, conn, via_state=True))
                if any(n.startswith("ReceiveHttp") for n in again) or "body_reader" in me.__dict__:
                    problems.append(f"the connection keeps parsing after the error: the next data event yields {again}")
            else:
                if "ReceiveHttp:" + err_ev not in names:
                    problems.append(f"no {err_ev} is reported to the stream")
            ctx.check(not problems, "R01.5", where, f"parse error: {wname}", "a malformed head must be answered/closed without starting a body reader: " + "; ".join(problems) + f" (commands: {names[:6]})",
                      desc=f"{qual}: {wname} -> closes, reports, no body reader")
        # reader side of R01.4: a good head installs exactly the reader make_body_reader picks for the decided size and announces end_stream iff size == 0
        badr = []
        for size, want in ((None, "Chunked"), (-1, "Http10"), (0, ("ContentLength", 0)), (12, ("ContentLength", 12))):
            me, conn = world5()
            it5 = interp5(None, size)
            object.__setattr__(me, "state", it5.getattr(me, "read_headers", None, 0))
            out = run5(it5, me, conn)
            ctx.cells += 1
            heads = [c.event for c in out if isinstance(c, _PRec) and c._cls == "ReceiveHttp" and isinstance(getattr(c, "event", None), _PRec) and c.event._cls == hdr_ev]
            got = _reader_key(me.__dict__.get("body_reader"))
            if got != want:
                badr.append(f"expected size {size!r}: body reader {got!r} (expected {want!r})")
            elif len(heads) != 1 or bool(getattr(heads[0], "end_stream", None)) != (size == 0):
                badr.append(f"expected size {size!r}: {hdr_ev} events {[(getattr(h, 'end_stream', None)) for h in heads]} (expected one, end_stream={size == 0})")
        ctx.check(not badr, "R01.4", where, "body reader installed for the decided size", "the body is read with a different framing than expected_http_body_size decided: " + "; ".join(badr[:2]),
                  desc=f"{qual}: reader == make_body_reader(expected size), end_stream iff 0")
    ctx.expect_instances("R01.5", 4)


def last_attr_text(s: str) -> str:
    return s.rsplit(".", 1)[-1]


MUTANTS = [
    Mutant("expect-handled-only-with-body", REL, 'if self.flow.request.headers.get("expect", "").lower() == "100-continue":',
           'if not event.end_stream and self.flow.request.headers.get("expect", "").lower() == "100-continue":', "R01.6"),
    Mutant("expect-not-removed", REL, '            self.flow.request.headers.pop("expect")\n', '            pass\n', "R01.6"),
    Mutant("framing-205-treated-as-bodyless", READ, "response.status_code in (204, 304)", "response.status_code in (204, 205, 304)", "R01.1"),
    Mutant("head-response-has-body", READ, '        if request.method.upper() == "HEAD":\n            return 0\n', "", "R01.1"),
    Mutant("304-has-body", READ, "if response.status_code in (204, 304):", "if response.status_code in (204,):", "R01.1"),
    Mutant("cl-before-te", READ, '    if te_str := headers.get("transfer-encoding"):', '    if (cl0 := headers.get("content-length")) and not response:\n        return validate.parse_content_length(cl0)\n    if te_str := headers.get("transfer-encoding"):', "R01.1"),
    Mutant("response-default-zero", READ, "    if not response:\n        return 0\n\n    #    7.", "    if not response or response.status_code >= 400:\n        return 0\n\n    #    7.", "R01.1"),
    Mutant("te-isascii-guard-dropped", VAL, "    if not value.isascii():\n        raise ValueError(f\"invalid transfer-encoding header: {value!r}\")\n", "", "R01"),
    Mutant("te-and-cl-accepted", VAL, "    if te and cl:", "    if te and cl and len(cl) > 1:", "R01.2"),
    Mutant("duplicate-cl-accepted", VAL, "        if len(cl) > 1:\n            raise ValueError(f\"multiple content-length headers: {cl!r}\")\n", "", "R01.2"),
    Mutant("te-on-http10-accepted", VAL, "        if not message.is_http11:", "        if False and not message.is_http11:", "R01.2"),
    Mutant("request-gzip-te-accepted", VAL, "                if isinstance(message, Request):\n                    raise ValueError(", "                if isinstance(message, Response):\n                    raise ValueError(", "R01.2"),
    Mutant("header-name-allows-space", VAL, "rb\"^[!#$%&'*+\\-.^_`|~0-9a-zA-Z]+$\"", "rb\"^[!#$%&'*+\\-.^_`|~0-9a-zA-Z ]+$\"", "R01.2"),
    Mutant("content-length-leading-plus", VAL, 're.compile(rb"^(?:0|[1-9][0-9]*)$")', 're.compile(rb"^\\+?(?:0|[1-9][0-9]*)$")', "R01.2"),
    Mutant("content-length-unanchored", VAL, 're.compile(r"^(?:0|[1-9][0-9]*)$")', 're.compile(r"^(?:0|[1-9][0-9]*)")', "R01.2"),
    Mutant("vocab-extra-coding", VAL, '    "identity",\n]', '    "identity",\n    "br",\n]', "R01.2"),
    Mutant("request-hook-before-validation", REL, "        if (yield from self.check_invalid(True)):\n            return\n\n        if self.flow.request.method == \"CONNECT\":\n            return (yield from self.handle_connect())\n",
           "        if self.flow.request.method == \"CONNECT\":\n            return (yield from self.handle_connect())\n        if (yield from self.check_invalid(True)):\n            return\n\n", "R01.3"),
    Mutant("response-validation-dropped", REL, "        if (yield from self.check_invalid(False)):\n            return\n\n        yield HttpResponseHeadersHook(self.flow)", "        yield HttpResponseHeadersHook(self.flow)", "R01.3"),
    Mutant("invalid-response-keeps-server", REL, "                # immediately kill server connection\n                yield commands.CloseConnection(self.flow.server_conn)\n", "                pass\n", "R01.3"),
    Mutant("request-validation-ignores-option", REL, "    if validate_inbound_headers:\n        try:\n            validate_headers(request)", "    if validate_inbound_headers and request.is_http10:\n        try:\n            validate_headers(request)", "R01.3"),
    Mutant("eof-reader-for-chunked", H1, "    if expected_size is None:\n        return ChunkedReader()", "    if expected_size is None:\n        return Http10Reader()", "R01.4"),
    Mutant("client-chunk-decimal-length", H1, '                in self.request.headers.get("transfer-encoding", "").lower()\n            ):\n                raw = b"%x\\r\\n%s\\r\\n" % (len(event.data), event.data)',
           '                in self.request.headers.get("transfer-encoding", "").lower()\n            ):\n                raw = b"%d\\r\\n%s\\r\\n" % (len(event.data), event.data)', "R01.4"),
    Mutant("server-chunked-predicate-case-sensitive", H1, '                in self.response.headers.get("transfer-encoding", "").lower()\n            ):\n                raw =', '                in self.response.headers.get("transfer-encoding", "")\n            ):\n                raw =', "R01.4"),
    Mutant("F-C01c-reverted-client-empty-chunk", H1, '            if (\n                event.data\n                and "chunked"\n                in self.request.headers.get("transfer-encoding", "").lower()\n            ):',
           '            if "chunked" in self.request.headers.get("transfer-encoding", "").lower():', "R01.4"),
    Mutant("F-C01c-reverted-server-empty-chunk", H1, '            if (\n                event.data\n                and "chunked"\n                in self.response.headers.get("transfer-encoding", "").lower()\n            ):',
           '            if "chunked" in self.response.headers.get("transfer-encoding", "").lower():', "R01.4"),
    Mutant("server-terminator-for-head", H1, '                self.request.method.upper() != "HEAD"\n                and "chunked"', '                "chunked"', "R01.4"),
    Mutant("server-parse-error-keeps-reading", H1, "                    self.state = self.done\n                    return\n                yield ReceiveHttp(\n                    RequestHeaders(", "                    return\n                yield ReceiveHttp(\n                    RequestHeaders(", "R01.5"),
    Mutant("server-parse-error-no-close", H1, "                    yield commands.SendData(self.conn, make_error_response(400, str(e)))\n                    yield commands.CloseConnection(self.conn)\n",
           "                    yield commands.SendData(self.conn, make_error_response(400, str(e)))\n", "R01.5"),
    Mutant("client-reader-ignores-decided-size", H1, "                self.body_reader = make_body_reader(expected_size)\n", "                self.body_reader = make_body_reader(None)\n", "R01.4"),
    Mutant("server-headers-never-end-stream", H1, "                        self.stream_id, self.request, expected_body_size == 0\n", "                        self.stream_id, self.request, False\n", "R01.4"),
    Mutant("content-length-str-unicode-digits", VAL, 're.compile(r"^(?:0|[1-9][0-9]*)$")', 're.compile(r"^\\d+$")', "R01.2"),
    Mutant("header-name-search-unanchored-start", VAL, "if not _valid_header_name.match(name):", "if not _valid_header_name.search(name[1:]):", "R01.2"),
    Mutant("response-validated-after-option-ignored", REL, "        elif self.context.options.validate_inbound_headers:\n            assert self.flow.response is not None", "        elif self.context.options.validate_inbound_headers and self.flow.response.is_http10:\n            assert self.flow.response is not None", "R01.3"),
    Mutant("client-parse-error-no-close", H1, "                except ValueError as e:\n                    yield commands.CloseConnection(self.conn)\n                    yield ReceiveHttp(\n                        ResponseProtocolError(", "                except ValueError as e:\n                    yield ReceiveHttp(\n                        ResponseProtocolError(", "R01.5"),
]
